#!/usr/bin/python3
"""Systematic mutation sweep (checker validation, DESIGN.md §6.4).  NOT a property check and not
registered in MANIFEST: it executes the repository's test suite on mutants only to find out
which mechanically generated edits *survive the pinned tests*; the static checks are then run
on each survivor to see which of them are reported.  Survivors that no check reports are
triaged by hand (equivalent mutant / outside every property / gap in a rule).

  selftest/mutation_sweep.py gen                       -> /tmp/mutsweep/mutants.jsonl
  selftest/mutation_sweep.py run [--jobs N] [--limit K] [--files substr,substr]
  selftest/mutation_sweep.py report

All scratch state lives under /tmp/mutsweep (delete when done).
"""
import concurrent.futures
import json
import os
import re
import shutil
import subprocess
import sys
import threading

VERIF = os.path.dirname(os.path.dirname(os.path.abspath(__file__)))
sys.path.insert(0, VERIF)
from selftest.run import copy_repo  # noqa: E402

ROOT = "/tmp/mutsweep"
FILES = [
    "crates/order_book/src/orderbook.rs", "crates/order_book/src/side.rs", "crates/order_book/src/market.rs",
    "crates/order_book/src/types.rs", "crates/step_sim/src/env.rs", "crates/step_sim/src/market_env.rs",
    "crates/step_sim/src/data.rs", "crates/step_sim/src/runner.rs", "crates/step_sim/src/agents/common.rs",
    "crates/step_sim/src/agents/random_agent.rs", "crates/step_sim/src/agents/noise_agent.rs",
    "crates/step_sim/src/agents/momentum_agent.rs", "crates/macros/src/lib.rs",
    "rust/src/order_book.rs", "rust/src/step_sim.rs", "rust/src/step_sim_numpy.rs", "rust/src/types.rs",
]

REL = [(" < ", " <= "), (" <= ", " < "), (" > ", " >= "), (" >= ", " > "), (" == ", " != "), (" != ", " == "),
       (" < ", " > "), (" > ", " < ")]
ARITH = [(" + ", " - "), (" - ", " + "), (" += ", " -= "), (" -= ", " += "), (" * ", " / "), (" / ", " * "),
         (" && ", " || "), (" || ", " && "), (" & ", " | ")]
WORDS = [("bid", "ask"), ("ask", "bid"), ("Bid", "Ask"), ("Ask", "Bid"), (".0", ".1"), (".1", ".0"),
         ("new_price", "new_vol"), ("new_vol", "new_price"), ("true", "false"), ("false", "true"),
         ("Active", "New"), ("Filled", "Cancelled"), ("Cancelled", "Filled"), ("Rejected", "Cancelled"),
         ("floor", "ceil"), ("ceil", "floor"), ("first_key_value", "last_key_value"),
         ("wrapping_sub", "wrapping_add"), ("wrapping_add", "wrapping_sub"),
         ("min(", "max("), ("max(", "min("), ("start_vol", "vol"), ("arr_time", "end_time"),
         ("end_time", "arr_time"), ("trader_id", "order_id"), ("order_id", "trader_id"),
         ("is_some", "is_none"), ("is_none", "is_some"), ("[0]", "[1]"), ("[i]", "[0]"), ("[asset]", "[0]"),
         ("0..N", "1..N"), ("0..N", "0..N - 1"), (" 0;", " 1;"), (" 1;", " 0;"), (" 0)", " 1)"), (" 1)", " 2)"),
         ("Price::MAX", "0"), ("abs()", "abs().neg()"), (".rev()", ""), ("step_size", "step_size + 1"),
         ("asset", "0"), ("ASSETS", "1"), ("LEVELS", "1"), ("iter_mut()", "iter_mut().take(1)"),
         ("iter()", "iter().skip(1)"), ("enumerate()", "enumerate().skip(1)"), (" t;", " 0;"), ("self.t", "0"),
         ]


def code_lines(path, text):
    """(lineno, line) for mutable code: outside #[cfg(test)] modules, not comments/docs/attributes."""
    out = []
    lines = text.split("\n")
    cut = len(lines)
    for i, l in enumerate(lines):
        if l.strip().startswith("#[cfg(test)]"):
            cut = i
            break
    for i, l in enumerate(lines[:cut]):
        s = l.strip()
        if not s or s.startswith("//") or s.startswith("#[") or s.startswith("#![") or s.startswith("use ") or s.startswith("pub use "):
            continue
        if s.startswith("pub fn ") or s.startswith("fn ") or s.startswith("pub struct") or s.startswith("impl") or s.startswith("pub trait"):
            continue
        out.append((i, l))
    return out, lines


def gen():
    os.makedirs(ROOT, exist_ok=True)
    muts = []
    for f in FILES:
        text = open(os.path.join("/repo", f)).read()
        cl, lines = code_lines(f, text)
        for i, l in cl:
            code = l.split("//")[0]
            cands = set()
            for a, b in REL + ARITH:
                k = 0
                while True:
                    k = code.find(a, k)
                    if k < 0:
                        break
                    cands.add((code[:k] + b + code[k + len(a):] + l[len(code):], "%s->%s" % (a.strip(), b.strip())))
                    k += len(a)
            for a, b in WORDS:
                for m in re.finditer(re.escape(a), code):
                    k = m.start()
                    # identifier-ish words: require word-part boundary so `bid` in `forbid` is skipped
                    if a[0].isalpha():
                        if k > 0 and code[k - 1].isalpha() and not code[k - 1] == "_":
                            continue
                        e = k + len(a)
                        if a[-1].isalpha() and e < len(code) and code[e].isalpha():
                            continue
                    cands.add((code[:k] + b + code[k + len(a):] + l[len(code):], "%s->%s" % (a, b)))
            # statement deletion: a single-line statement
            s = code.strip()
            if s.endswith(";") and not s.startswith(("let ", "return", "pub ", "type ", "const ", "}")) and s.count("(") == s.count(")") and s.count("{") == s.count("}"):
                cands.add((re.sub(r"\S.*$", "", l) + "/* deleted */", "delete-stmt"))
            if s.startswith("return ") and s.endswith(";") and False:
                pass
            for new, op in cands:
                if new != l:
                    muts.append({"file": f, "line": i + 1, "old": l, "new": new, "op": op})
    # block-level: drop an `if cond {` guard -> `if true {` / `if false {`
    for f in FILES:
        text = open(os.path.join("/repo", f)).read()
        cl, lines = code_lines(f, text)
        for i, l in cl:
            m = re.match(r"^(\s*)(\}? ?(?:else )?if )(.+) \{\s*$", l)
            if m and "let " not in m.group(3):
                muts.append({"file": f, "line": i + 1, "old": l, "new": m.group(1) + m.group(2) + "true {", "op": "if-true"})
                muts.append({"file": f, "line": i + 1, "old": l, "new": m.group(1) + m.group(2) + "false {", "op": "if-false"})
    for k, m in enumerate(muts):
        m["id"] = k
    with open(os.path.join(ROOT, "mutants.jsonl"), "w") as fh:
        for m in muts:
            fh.write(json.dumps(m) + "\n")
    print("generated %d mutants over %d files" % (len(muts), len(FILES)))


_local = threading.local()
_wid_lock = threading.Lock()
_wid = [0]


def worker_dirs():
    if not hasattr(_local, "w"):
        with _wid_lock:
            k = _wid[0]
            _wid[0] += 1
        w = os.path.join(ROOT, "w%d" % k)
        t = os.path.join(ROOT, "t%d" % k)
        if not os.path.isdir(w):
            os.makedirs(w)
            copy_repo("/repo", w)
        _local.w, _local.t = w, t
    return _local.w, _local.t


def sh(cmd, cwd, env=None, timeout=None):
    e = dict(os.environ)
    e.update(env or {})
    try:
        r = subprocess.run(cmd, shell=True, cwd=cwd, env=e, capture_output=True, text=True, timeout=timeout)
        return r.returncode, r.stdout + r.stderr
    except subprocess.TimeoutExpired as ex:
        return 124, "TIMEOUT " + str(ex)


def run_one(m):
    w, t = worker_dirs()
    p = os.path.join(w, m["file"])
    orig = open(os.path.join("/repo", m["file"])).read()
    lines = orig.split("\n")
    if lines[m["line"] - 1] != m["old"]:
        return dict(m, verdict="stale")
    lines[m["line"] - 1] = m["new"]
    open(p, "w").write("\n".join(lines))
    env = {"CARGO_TARGET_DIR": t, "CARGO_NET_OFFLINE": "true", "RUSTFLAGS": "-Awarnings"}
    try:
        rc, out = sh("cargo test --workspace --lib --tests --no-run --offline 2>&1", w, env, timeout=600)
        if rc != 0:
            return dict(m, verdict="build-fail")
        rc, out = sh("timeout 120 cargo test --workspace --lib --tests --no-fail-fast --offline 2>&1", w, env, timeout=200)
        if rc != 0:
            fails = re.findall(r"^test (\S+) \.\.\. FAILED", out, re.M)
            return dict(m, verdict="killed", failed=fails[:5] or ["rc=%d" % rc])
        fired = {}
        for i in range(1, 21):
            pid = "C%02d" % i
            rc, out = sh("%s/bin/check %s --tier quick --repo %s" % (VERIF, pid, w), w)
            if rc == 1:
                fired[pid] = [x.strip()[:200] for x in out.splitlines() if "violated:" in x][:2]
            elif rc != 0:
                fired[pid] = ["CHECK-ERROR rc=%d %s" % (rc, out[-200:])]
        return dict(m, verdict="survived", fired=fired)
    finally:
        open(p, "w").write(orig)


def run(args):
    jobs = 8
    limit = None
    files = None
    if "--jobs" in args:
        jobs = int(args[args.index("--jobs") + 1])
    if "--limit" in args:
        limit = int(args[args.index("--limit") + 1])
    if "--files" in args:
        files = args[args.index("--files") + 1].split(",")
    muts = [json.loads(l) for l in open(os.path.join(ROOT, "mutants.jsonl"))]
    done = set()
    rp = os.path.join(ROOT, "results.jsonl")
    if os.path.exists(rp):
        for l in open(rp):
            done.add(json.loads(l)["id"])
    todo = [m for m in muts if m["id"] not in done and (not files or any(f in m["file"] for f in files))]
    if limit:
        import random
        random.Random(1).shuffle(todo)
        todo = todo[:limit]
    print("%d mutants to run (%d done)" % (len(todo), len(done)))
    lock = threading.Lock()
    with concurrent.futures.ThreadPoolExecutor(max_workers=jobs) as ex, open(rp, "a") as fh:
        for r in ex.map(run_one, todo):
            with lock:
                fh.write(json.dumps(r) + "\n")
                fh.flush()
                print(r["id"], r["verdict"], r["file"], r["line"], r["op"], ",".join(sorted(r.get("fired", {}))))


def report():
    rs = [json.loads(l) for l in open(os.path.join(ROOT, "results.jsonl"))]
    c = {}
    for r in rs:
        c[r["verdict"]] = c.get(r["verdict"], 0) + 1
    print(c)
    surv = [r for r in rs if r["verdict"] == "survived"]
    caught = [r for r in surv if r["fired"]]
    print("survivors %d, reported by some check %d, unreported %d" % (len(surv), len(caught), len(surv) - len(caught)))
    for r in sorted(surv, key=lambda r: (r["file"], r["line"])):
        if not r["fired"]:
            print("UNREPORTED %s:%d [%s]\n    - %s\n    + %s" % (r["file"], r["line"], r["op"], r["old"].strip(), r["new"].strip()))
    errs = [r for r in surv if any("CHECK-ERROR" in x for v in r["fired"].values() for x in v)]
    print("check errors on %d survivors" % len(errs))


if __name__ == "__main__":
    cmd = sys.argv[1] if len(sys.argv) > 1 else ""
    if cmd == "gen":
        gen()
    elif cmd == "run":
        run(sys.argv[2:])
    elif cmd == "report":
        report()
    else:
        print(__doc__)
