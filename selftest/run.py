#!/usr/bin/python3
"""Self-validation of the checkers (DESIGN.md §6).

  selftest/run.py [--only C03[,C04]] [--name substr] [--kind mutant|refactor] [--jobs N]

For every case in selftest/cases.py a scratch copy of /repo's tracked files is made
outside /repo and /verif, the textual edit is applied, and the named property checks
are run against the copy (`bin/check Cxx --repo <copy>`).  A *mutant* must be reported
(exit 1, VIOLATION line, and the expected rule name appears in the output); a
*refactor* (behaviour-preserving) must stay silent (exit 0).  The copy is deleted at
once.  A case whose anchor text is not found in the tree is counted as skipped.
Exit 0 iff no case failed.  This validates the checker; it is never a property verdict.
"""
import argparse
import concurrent.futures
import os
import shutil
import subprocess
import sys
import tempfile

VERIF = os.path.dirname(os.path.dirname(os.path.abspath(__file__)))
sys.path.insert(0, VERIF)
from selftest.cases import CASES  # noqa: E402


def copy_repo(repo, dst):
    out = subprocess.run(["git", "-C", repo, "ls-files", "-z"], capture_output=True, check=True).stdout
    for f in out.decode().split("\0"):
        if not f:
            continue
        src = os.path.join(repo, f)
        if not os.path.isfile(src):
            continue
        d = os.path.join(dst, f)
        os.makedirs(os.path.dirname(d), exist_ok=True)
        shutil.copy2(src, d)


def run_case(case, repo):
    tmp = tempfile.mkdtemp(prefix="bourse-selftest-")
    try:
        copy_repo(repo, tmp)
        if case.get("patch"):
            r = subprocess.run("git init -q . && git apply %s" % case["patch"], shell=True, cwd=tmp, capture_output=True, text=True)
            shutil.rmtree(os.path.join(tmp, ".git"), ignore_errors=True)
            if r.returncode != 0:
                return ("skipped", "patch does not apply to the current tree: " + r.stderr.strip()[:120], "")
        for (path, old, new) in case.get("edits", []):
            p = os.path.join(tmp, path)
            try:
                s = open(p).read()
            except OSError:
                return ("skipped", "file missing: " + path, "")
            if s.count(old) < 1:
                return ("skipped", "anchor text not found in " + path, "")
            cnt = case.get("count", 1)
            if cnt == "all":
                s = s.replace(old, new)
            else:
                if s.count(old) != cnt and not case.get("first"):
                    return ("skipped", "anchor text occurs %d times in %s (expected %s)" % (s.count(old), path, cnt), "")
                s = s.replace(old, new, cnt if not case.get("first") else 1)
            open(p, "w").write(s)
        results = []
        for pid in case["props"]:
            r = subprocess.run([os.path.join(VERIF, "bin", "check"), pid, "--repo", tmp], capture_output=True, text=True)
            results.append((pid, r.returncode, r.stdout + r.stderr))
        bad = []
        for pid, rc, out in results:
            if rc == 2:
                return ("error", "%s: checker could not run (does the edit compile?)\n%s" % (pid, out[-1500:]), out)
            if case["kind"] == "mutant":
                exp = case.get("expect")
                fired = rc == 1 and "VIOLATION property=%s" % pid in out
                if not fired:
                    bad.append("%s did not fire" % pid)
                elif exp and not any(e in out for e in ([exp] if isinstance(exp, str) else exp)):
                    bad.append("%s fired but did not name `%s`" % (pid, exp))
            else:
                if rc != 0:
                    bad.append("%s raised an alarm on a behaviour-preserving edit:\n%s" % (
                        pid, "\n".join(l for l in out.splitlines() if "violated" in l)[:1500]))
        if bad:
            return ("FAILED", "; ".join(bad), "\n".join(o for _p, _r, o in results))
        return ("ok", "", "")
    finally:
        shutil.rmtree(tmp, ignore_errors=True)


def main():
    ap = argparse.ArgumentParser()
    ap.add_argument("--only", default="")
    ap.add_argument("--name", default="")
    ap.add_argument("--kind", default="")
    ap.add_argument("--repo", default="/repo")
    ap.add_argument("--jobs", type=int, default=6)
    ap.add_argument("-v", action="store_true")
    a = ap.parse_args()
    only = {x.upper() for x in a.only.split(",") if x}
    cases = []
    for c in CASES:
        if only and not (only & set(c["props"])):
            continue
        if only:
            c = dict(c)
            c["props"] = [p for p in c["props"] if p in only]
        if a.name and a.name not in c["name"]:
            continue
        if a.kind and c["kind"] != a.kind:
            continue
        cases.append(c)
    counts = {}
    failed = []
    with concurrent.futures.ThreadPoolExecutor(max_workers=a.jobs) as ex:
        futs = {ex.submit(run_case, c, a.repo): c for c in cases}
        for fu in concurrent.futures.as_completed(futs):
            c = futs[fu]
            st, msg, out = fu.result()
            counts[st] = counts.get(st, 0) + 1
            print("%-8s %-7s %-14s %s %s" % (st, c["kind"], ",".join(c["props"]), c["name"], ("-- " + msg) if msg else ""))
            if a.v and out:
                print(out)
            if st in ("FAILED", "error"):
                failed.append(c["name"])
    print("selftest: %s" % ", ".join("%s=%d" % kv for kv in sorted(counts.items())))
    return 1 if failed else 0


if __name__ == "__main__":
    sys.exit(main())
