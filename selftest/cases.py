"""Seeded edits for self-validation: `mutant` cases break a property while compiling and
passing the pinned tests (must be reported, naming the rule); `refactor` cases preserve
behaviour (must stay silent).  Edits are unique-substring replacements."""

OB = "crates/order_book/src/orderbook.rs"
SIDE = "crates/order_book/src/side.rs"
MKT = "crates/order_book/src/market.rs"
ENV = "crates/step_sim/src/env.rs"
MENV = "crates/step_sim/src/market_env.rs"
DATA = "crates/step_sim/src/data.rs"
RUN = "crates/step_sim/src/runner.rs"
COMMON = "crates/step_sim/src/agents/common.rs"
RAND = "crates/step_sim/src/agents/random_agent.rs"
NOISE = "crates/step_sim/src/agents/noise_agent.rs"
MOM = "crates/step_sim/src/agents/momentum_agent.rs"
MACROS = "crates/macros/src/lib.rs"
PYOB = "rust/src/order_book.rs"
PYSS = "rust/src/step_sim.rs"
PYNP = "rust/src/step_sim_numpy.rs"
PYTY = "rust/src/types.rs"

CASES = []


def mutant(name, props, edits, expect=None, **kw):
    if isinstance(edits, tuple):
        edits = [edits]
    CASES.append(dict(kind="mutant", name=name, props=props if isinstance(props, list) else [props],
                      edits=edits, expect=expect, **kw))


def refactor(name, props, edits, **kw):
    if isinstance(edits, tuple):
        edits = [edits]
    CASES.append(dict(kind="refactor", name=name, props=props if isinstance(props, list) else [props],
                      edits=edits, **kw))


# ------------------------------------------------------------------------------- C03
mutant("c03-ids-transposed", "C03", (OB, "active_order_id: agg_order.order_id,\n        passive_order_id: pass_order.order_id,",
       "active_order_id: pass_order.order_id,\n        passive_order_id: agg_order.order_id,"), expect="record")
mutant("c03-side-from-aggressor", "C03", (OB, "side: pass_order.side,", "side: agg_order.side,"), expect="record")
mutant("c03-price-from-aggressor", "C03", (OB, "price: pass_order.price,", "price: agg_order.price,"), expect="record")
mutant("c03-counter-dropped-ask", "C03", (OB, """                        &mut self.trades,
                    );
                    self.trade_vol += trade_vol;
                    if match_order.order.status == Status::Filled {
                        self.bid_side""", """                        &mut self.trades,
                    );
                    if match_order.order.status == Status::Filled {
                        self.bid_side"""), expect="counter")
mutant("c03-clear-in-reset", "C03", (OB, "        self.trade_vol = 0;\n    }", "        self.trade_vol = 0;\n        self.trades.clear();\n    }"), expect="append-only")
mutant("c03-time-from-arrival", "C03", (OB, """                    let trade_vol = match_orders(
                        self.t,
                        &mut order_entry.order,
                        &mut match_order.order,
                        &mut self.trades,
                    );
                    self.trade_vol += trade_vol;
                    if match_order.order.status == Status::Filled {
                        self.ask_side""", """                    let trade_vol = match_orders(
                        order_entry.order.arr_time,
                        &mut order_entry.order,
                        &mut match_order.order,
                        &mut self.trades,
                    );
                    self.trade_vol += trade_vol;
                    if match_order.order.status == Status::Filled {
                        self.ask_side"""), expect="record-time")
mutant("c03-vol-rewritten-in-cancel", "C03", (OB, "order_entry.order.status = Status::Cancelled;\n                    order_entry.order.end_time = self.t;\n                    match order_entry.key.0",
       "order_entry.order.status = Status::Cancelled;\n                    order_entry.order.end_time = self.t;\n                    let kept = order_entry.order.vol;\n                    order_entry.order.vol = kept.min(order_entry.order.start_vol);\n                    match order_entry.key.0"), expect="conservation")
refactor("c03-rename-locals", "C03", [(OB, "let trade_vol = min(agg_order.vol, pass_order.vol);\n    agg_order.vol -= trade_vol;\n    pass_order.vol -= trade_vol;",
          "let filled = min(agg_order.vol, pass_order.vol);\n    agg_order.vol -= filled;\n    pass_order.vol -= filled;"),
         (OB, "        vol: trade_vol,\n        active_order_id", "        vol: filled,\n        active_order_id"),
         (OB, "    };\n\n    trade_vol\n}", "    };\n\n    filled\n}")])

# ------------------------------------------------------------------------------- C04
mutant("c04-cancel-guard-weak", "C04", (OB, "if order_entry.order.status == Status::Active {\n                    order_entry.order.status = Status::Cancelled;",
       "if order_entry.order.status != Status::Filled {\n                    order_entry.order.status = Status::Cancelled;"), expect="state-machine")
mutant("c04-end-time-missing-cancel", "C04", (OB, "order_entry.order.status = Status::Cancelled;\n                    order_entry.order.end_time = self.t;\n                    match order_entry.key.0",
       "order_entry.order.status = Status::Cancelled;\n                    match order_entry.key.0"), expect="end-time")
mutant("c04-end-time-missing-passive", "C04", (OB, "    if pass_order.vol == 0 {\n        pass_order.end_time = t;\n", "    if pass_order.vol == 0 {\n"), expect="end-time")
mutant("c04-arr-time-missing", "C04", (OB, "        order_entry.order.arr_time = self.t;\n", ""), expect="arr-time")
mutant("c04-place-guard-removed", "C04", (OB, "        if order_entry.order.status != Status::New {\n            return;\n        }\n", ""), expect="state-machine")
mutant("c04-start-vol-rewritten", "C04", (OB, "        order_entry.order.vol = new_vol;\n", "        order_entry.order.vol = new_vol;\n        order_entry.order.start_vol = new_vol;\n"), expect="immutable")
mutant("c04-modify-guard-removed", "C04", (OB, "        if order_entry.order.status == Status::Active {\n            match (new_price, new_vol) {", "        if order_entry.order.status != Status::New {\n            match (new_price, new_vol) {"), expect="state-machine")
mutant("c04-id-off-by-one", "C04", (OB, "        self.orders.len()\n    }", "        self.orders.len() + 1\n    }"), expect="dense-ids")
mutant("c04-market-remainder-active", "C04", (OB, """                self.match_ask(order_entry);
                if order_entry.order.status != Status::Filled {
                    order_entry.order.status = Status::Cancelled;
                    order_entry.order.end_time = self.t;
                }""", """                self.match_ask(order_entry);"""), expect="exit-invariant")
mutant("c04-end-time-from-arrival", "C04", (OB, "                order_entry.order.status = Status::Rejected;\n                order_entry.order.end_time = self.t;\n            }\n        }\n    }\n\n    /// Place a sell limit",
       "                order_entry.order.status = Status::Rejected;\n                order_entry.order.end_time = order_entry.order.arr_time;\n            }\n        }\n    }\n\n    /// Place a sell limit"), expect="end-time")
refactor("c04-swap-status-endtime", "C04", (OB, "                    order_entry.order.status = Status::Cancelled;\n                    order_entry.order.end_time = self.t;\n                    match order_entry.key.0",
         "                    order_entry.order.end_time = self.t;\n                    order_entry.order.status = Status::Cancelled;\n                    match order_entry.key.0"))
refactor("c04-cancel-if-let", ["C04", "C03"], (OB, """        let cancelled_order = self.orders.get_mut(order_id);

        match cancelled_order {
            Some(order_entry) => {
                if order_entry.order.status == Status::Active {""", """        let cancelled_order = Some(self.orders.get_mut(order_id).expect("No order with id exists"));

        match cancelled_order {
            Some(order_entry) => {
                if Status::Active == order_entry.order.status {"""))

# ------------------------------------------------------------------------------- C02
mutant("c02-remove-vol-total-dropped", "C02", (SIDE, "        self.volumes.get_mut(&price).unwrap().0 -= vol;\n        self.vol -= vol;", "        self.volumes.get_mut(&price).unwrap().0 -= vol;"), expect="lockstep")
mutant("c02-remove-vol-whole-order", "C02", (OB, "self.ask_side.remove_vol(match_order.key.1, trade_vol);", "self.ask_side.remove_vol(match_order.key.1, match_order.order.vol);"), expect="accounting")
mutant("c02-touch-vol-from-ask", "C02", (OB, "let (bid_touch_vol, bid_touch_orders) = self.bid_best_vol_and_orders();", "let (bid_touch_vol, bid_touch_orders) = self.ask_best_vol_and_orders();"), expect="views")
mutant("c02-bid-levels-add", "C02", (OB, "start.wrapping_sub(Price::try_from(i).unwrap() * self.tick_size)", "start.wrapping_add(Price::try_from(i).unwrap() * self.tick_size)"), expect="level-walk")
mutant("c02-insert-before-matching", "C02", (OB, """        if self.trading {
            self.match_ask(order_entry);
        }
        if order_entry.order.status != Status::Filled {
            let key: OrderKey = (Side::Ask, order_entry.key.1, self.queue_time());""", """        if self.trading && order_entry.order.vol > 1 {
            self.match_ask(order_entry);
        }
        if order_entry.order.status != Status::Filled {
            let key: OrderKey = (Side::Ask, order_entry.key.1, self.queue_time());"""), expect="never-crossed")
mutant("c02-count-not-decremented", "C02", (SIDE, "        vol_at_price.1 -= 1;\n        if vol_at_price.1 == 0 {", "        if vol_at_price.1 == 1 {"), expect="lockstep")
mutant("c02-cancel-removes-start-vol", "C02", (OB, """                            self.bid_side
                                .remove_order(order_entry.key, order_entry.order.vol);
                        }
                        Side::Ask => {""", """                            self.bid_side
                                .remove_order(order_entry.key, order_entry.order.start_vol);
                        }
                        Side::Ask => {"""), expect="accounting")
mutant("c02-mid-price-underflow", "C02", (OB, "0.5 * (f64::from(bid) + f64::from(ask))", "f64::from(bid) + 0.5 * f64::from(ask - bid)"), expect="query-totality")
mutant("c02-ask-vol-from-bid-side", "C02", (OB, "    pub fn ask_vol(&self) -> Vol {\n        self.ask_side.vol()", "    pub fn ask_vol(&self) -> Vol {\n        self.bid_side.vol()"), expect="views")
mutant("c02-best-vol-count", "C02", (SIDE, "            Some((_, v)) => v.0,\n            None => 0,", "            Some((_, v)) => v.1,\n            None => 0,"), expect="lockstep")
mutant("c02-replace-no-removal-bid", "C02", (OB, """            Side::Bid => self
                .bid_side
                .remove_order(order_entry.key, order_entry.order.vol),
            Side::Ask => self
                .ask_side
                .remove_order(order_entry.key, order_entry.order.vol),
        }

        order_entry.order.vol = new_vol;""", """            Side::Bid => self
                .bid_side
                .remove_vol(order_entry.key.1, 0),
            Side::Ask => self
                .ask_side
                .remove_order(order_entry.key, order_entry.order.vol),
        }

        order_entry.order.vol = new_vol;"""), expect="accounting")
refactor("c02-getter-local", "C02", (OB, "    pub fn bid_vol(&self) -> Vol {\n        self.bid_side.vol()\n    }", "    pub fn bid_vol(&self) -> Vol {\n        let side = &self.bid_side;\n        side.vol()\n    }"))
refactor("c02-level1-reorder", "C02", (OB, """        let (bid_touch_vol, bid_touch_orders) = self.bid_best_vol_and_orders();
        let (ask_touch_vol, ask_touch_orders) = self.ask_best_vol_and_orders();""", """        let (ask_touch_vol, ask_touch_orders) = self.ask_best_vol_and_orders();
        let (bid_touch_vol, bid_touch_orders) = self.bid_best_vol_and_orders();"""))

# ------------------------------------------------------------------------------- C01
mutant("c01-bid-loop-strict", "C01", (OB, "(order_entry.order.price >= self.ask_side.best_price())", "(order_entry.order.price > self.ask_side.best_price())"), expect="K4-loop")
mutant("c01-ask-loop-strict", "C01", (OB, "(order_entry.order.price <= self.bid_side.best_price())", "(order_entry.order.price < self.bid_side.best_price())"), expect="K4-loop")
mutant("c01-trade-price-aggressor", "C01", (OB, "price: pass_order.price,", "price: agg_order.price,"), expect="record")
mutant("c01-first-to-last", "C01", (SIDE, "        self.orders.first_key_value().map(|(_, v)| *v)", "        self.orders.last_key_value().map(|(_, v)| *v)"), expect="lockstep")
mutant("c01-key-time-arrival", ["C01", "C06"], (OB, "let key: OrderKey = get_ask_key(self.queue_time(), new_price);", "let key: OrderKey = get_ask_key(order_entry.order.arr_time, new_price);"), expect=["K3-queue-time", "fresh-key-time", "replace"])
mutant("c01-key-time-stale", ["C01"], (OB, "let key: OrderKey = get_bid_key(self.queue_time(), new_price);", "let key: OrderKey = get_bid_key(order_entry.key.2, new_price);"), expect="K3-queue-time")
mutant("c01-bid-key-not-inverted", "C01", (SIDE, "    (Side::Bid, Price::MAX - price, t)", "    (Side::Bid, price, t)"), expect="wrapper")
mutant("c01-remainder-start-vol", ["C01", "C02"], (OB, "                .insert_order(key, order_entry.order.order_id, order_entry.order.vol)\n        }\n    }\n\n    /// Place a buy market",
       "                .insert_order(key, order_entry.order.order_id, order_entry.order.start_vol)\n        }\n    }\n\n    /// Place a buy market"), expect="insert")
mutant("c01-loop-extra-exit", "C01", (OB, """                    self.trade_vol += trade_vol;
                    if match_order.order.status == Status::Filled {
                        self.ask_side.remove_order(match_order.key, trade_vol);
                    } else {""", """                    self.trade_vol += trade_vol;
                    if match_order.order.status == Status::Filled {
                        self.ask_side.remove_order(match_order.key, trade_vol);
                        if self.trade_vol > 1_000_000 {
                            break;
                        }
                    } else {"""), expect="K4-loop")
mutant("c01-fill-not-min", ["C01", "C03"], (OB, "    let trade_vol = min(agg_order.vol, pass_order.vol);", "    let trade_vol = min(agg_order.vol, pass_order.start_vol);"), expect="record")
mutant("c01-stale-price-key", ["C01"], (OB, "let key: OrderKey = get_ask_key(self.queue_time(), new_price);", "let key: OrderKey = (Side::Ask, order_entry.key.1, self.queue_time());"), expect="K1-key-price")
refactor("c01-loop-and-and", ["C01", "C03", "C13"], (OB, "while (order_entry.order.vol > 0) & (order_entry.order.price >= self.ask_side.best_price())", "while 0 < order_entry.order.vol && self.ask_side.best_price() <= order_entry.order.price"))

# ------------------------------------------------------------------------------- C05
mutant("c05-raw-clock-key", ["C05"], (OB, "let key: OrderKey = (Side::Bid, order_entry.key.1, self.queue_time());", "let key: OrderKey = (Side::Bid, order_entry.key.1, self.t);"), expect="key-injective")
mutant("c05-stamp-not-advanced", ["C05", "C01"], (OB, "        self.next_queue_time = queue_time + 1;", "        self.next_queue_time = queue_time;"), expect="stamp")
mutant("c05-stamp-min", ["C05"], (OB, "let queue_time = self.t.max(self.next_queue_time);", "let queue_time = self.t.min(self.next_queue_time);"), expect="stamp")
mutant("c05-loader-counter-dropped", ["C05"], (OB, "                next_queue_time = next_queue_time.max(key.2.saturating_add(1));", "                next_queue_time = next_queue_time.max(key.2);"), expect="loader")
mutant("c05-loader-counter-active-only-guard", ["C05"], (OB, "            if order.status != Status::New {\n                next_queue_time", "            if order.status == Status::Filled {\n                next_queue_time"), expect="loader")
mutant("c05-counter-reset", ["C05"], (OB, "        self.trade_vol = 0;\n    }", "        self.trade_vol = 0;\n        self.next_queue_time = 0;\n    }"), expect="stamp")
mutant("c05-map-key-drops-time", ["C05", "C02"], (SIDE, "        self.orders.insert((key.1, key.2), idx);", "        self.orders.insert((key.1, key.2 / 1_000_000), idx);"), expect="key")

# ------------------------------------------------------------------------------- C06
mutant("c06-lt-to-le", "C06", (OB, "                    if v < order_entry.order.vol {", "                    if v <= order_entry.order.vol {"), expect="in-place")
mutant("c06-reduction-through-replace", "C06", (OB, """                        let reduce_vol = order_entry.order.vol - v;
                        self.reduce_order_vol(&mut order_entry, reduce_vol);""", """                        let p = order_entry.order.price;
                        self.replace_order(&mut order_entry, p, v)"""), expect="dispatch")
mutant("c06-replace-no-rematch", ["C06", "C02"], (OB, """        if self.trading {
            match order_entry.key.0 {
                Side::Bid => self.match_bid(order_entry),
                Side::Ask => self.match_ask(order_entry),
            }
        }
""", ""), expect=["never-crossed", "replace"])
mutant("c06-price-arg-swapped", "C06", (OB, "                (Some(p), Some(v)) => self.replace_order(&mut order_entry, p, v),", "                (Some(p), Some(v)) => self.replace_order(&mut order_entry, v, p),"), expect="replace")
mutant("c06-arr-time-reset", "C06", (OB, "        order_entry.order.vol = new_vol;\n", "        order_entry.order.vol = new_vol;\n        order_entry.order.arr_time = self.t;\n"), expect="identity")
mutant("c06-price-kept-uses-start", "C06", (OB, "                    let v = order_entry.order.vol;\n                    self.replace_order(&mut order_entry, p, v);", "                    let v = order_entry.order.start_vol;\n                    self.replace_order(&mut order_entry, p, v);"), expect="replace")

# ------------------------------------------------------------------------------- C12
mutant("c12-modify-grid-check-removed", "C12", (OB, """        if let Some(p) = new_price {
            if p % self.tick_size != 0 {
                return;
            }
        }
""", ""), expect="grid")
mutant("c12-bid-guard-disabled", "C12", (OB, """            (Side::Bid, Some(p)) => {
                if p % self.tick_size != 0 {""", """            (Side::Bid, Some(p)) => {
                if p % self.tick_size != 0 && p < self.tick_size {"""), expect="create")
mutant("c12-env-push-before-check", "C12", (ENV, """        let order_id = self.order_book.create_order(side, vol, trader_id, price)?;
        self.transactions.push(Event::New { order_id });
        Ok(order_id)""", """        let order_id = self.order_book.create_order(side, vol, trader_id, price);
        self.transactions.push(Event::New { order_id: *order_id.as_ref().unwrap_or(&0) });
        order_id"""), expect="forward")
mutant("c12-grid-check-other-tick", "C12", (OB, """        if let Some(p) = new_price {
            if p % self.tick_size != 0 {""", """        if let Some(p) = new_price {
            if p % 1 != 0 {"""), expect="grid")

# ------------------------------------------------------------------------------- C13
mutant("c13-replace-guard-removed", ["C13"], (OB, """        if self.trading {
            match order_entry.key.0 {
                Side::Bid => self.match_bid(order_entry),""", """        if self.trading || order_entry.order.vol > 0 {
            match order_entry.key.0 {
                Side::Bid => self.match_bid(order_entry),"""), expect="dominance")
mutant("c13-limit-guard-removed", ["C13"], (OB, "        if self.trading {\n            self.match_bid(order_entry);\n        }", "        self.match_bid(order_entry);"), expect="dominance")
mutant("c13-market-matched-when-off", ["C13"], (OB, """            false => {
                order_entry.order.status = Status::Rejected;
                order_entry.order.end_time = self.t;
            }
        }
    }

    /// Place a sell limit""", """            false => {
                self.match_bid(order_entry);
                if order_entry.order.status != Status::Filled {
                    order_entry.order.status = Status::Rejected;
                    order_entry.order.end_time = self.t;
                }
            }
        }
    }

    /// Place a sell limit"""), expect="dominance")
mutant("c13-market-disable-take-one", ["C13", "C14"], (MKT, """    pub fn disable_trading(&mut self) {
        for book in self.order_books.iter_mut() {""", """    pub fn disable_trading(&mut self) {
        for book in self.order_books.iter_mut().take(1) {"""), expect="fan-out")
mutant("c13-env-enable-calls-disable", ["C13"], (ENV, "    pub fn enable_trading(&mut self) {\n        self.order_book.enable_trading();", "    pub fn enable_trading(&mut self) {\n        self.order_book.disable_trading();"), expect="fan-out")
mutant("c13-disable-resets-counter", ["C13"], (OB, "        self.trading = false;\n", "        self.trading = false;\n        self.trade_vol = 0;\n"), expect="toggle")

# ------------------------------------------------------------------------------- C07
mutant("c07-loader-files-start-vol", "C07", (OB, "Side::Bid => bid_side.insert_order(*key, order.order_id, order.vol),", "Side::Bid => bid_side.insert_order(*key, order.order_id, order.start_vol),"), expect="loader")
mutant("c07-loader-no-status-filter", "C07", (OB, "            if order.status == Status::Active {\n                match order.side {", "            if order.status != Status::Cancelled {\n                match order.side {"), expect="loader")
mutant("c07-loader-trade-vol-zero", "C07", (OB, "            trade_vol: state.trade_vol,\n            next_queue_time,", "            trade_vol: 0,\n            next_queue_time,"), expect="loader")
mutant("c07-trading-defaulted", "C07", (OB, "struct OrderBookState<const LEVELS: usize = 10> {\n    t: Nanos,", "struct OrderBookState<const LEVELS: usize = 10> {\n    #[serde(default)]\n    t: Nanos,"), expect="tables")
mutant("c07-skip-trades", "C07", (OB, "    /// History of trades\n    trades: Vec<Trade>,", "    /// History of trades\n    #[serde(skip_serializing)]\n    trades: Vec<Trade>,"), expect="tables")
mutant("c07-load-unwrap", "C07", (OB, "        let order_book: Self = serde_json::from_reader(file)?;\n        Ok(order_book)\n    }\n}\n\n/// Match two", "        let order_book: Self = serde_json::from_reader(file).unwrap();\n        Ok(order_book)\n    }\n}\n\n/// Match two"), expect="save-load")
mutant("c07-loader-skips-first", "C07", (OB, "for OrderEntry { order, key } in state.orders.iter() {", "for OrderEntry { order, key } in state.orders.iter().skip(1) {"), expect="loader")
mutant("c07-loader-sides-swapped", "C07", (OB, "                    Side::Bid => bid_side.insert_order(*key, order.order_id, order.vol),\n                    Side::Ask => ask_side.insert_order(*key, order.order_id, order.vol),",
       "                    Side::Bid => ask_side.insert_order(*key, order.order_id, order.vol),\n                    Side::Ask => bid_side.insert_order(*key, order.order_id, order.vol),"), expect="loader")
mutant("c07-order-rename", "C07", ("crates/order_book/src/types.rs", "    /// Current volume of the order\n    pub vol: Vol,", "    /// Current volume of the order\n    #[serde(skip_deserializing)]\n    pub vol: Vol,"), expect="tables")

# ------------------------------------------------------------------------------- C08
mutant("c08-time-off-by-one", "C08", (ENV, ".set_time(start_time + Nanos::try_from(i).unwrap());", ".set_time(start_time + Nanos::try_from(i).unwrap() + 1);"), expect="clock")
mutant("c08-clone-instead-of-take", ["C08", "C10"], (ENV, "let mut transactions = mem::take(&mut self.transactions);", "let mut transactions: Vec<Event<OrderId>> = self.transactions.drain(..).collect();\n        self.transactions.push(Event::Cancellation { order_id: 0 });"), expect="queue")
mutant("c08-skip-first", ["C08", "C15"], (MENV, "for (i, t) in transactions.into_iter().enumerate() {", "for (i, t) in transactions.into_iter().skip(1).enumerate() {"), expect=["loop", "shuffle"])
mutant("c08-reset-dropped", ["C08"], (ENV, "        self.order_book.reset_trade_vol();\n\n        let mut transactions", "        let mut transactions"), expect="reset")
mutant("c08-swapped-modify-fields", "C08", (MKT, "            } => self.modify_order(order_id, new_price, new_vol),", "            } => self.modify_order(order_id, new_vol, new_price),"), expect="dispatch")
mutant("c08-second-process", "C08", (ENV, "            self.order_book.process_event(t);\n        }", "            self.order_book.process_event(t);\n            if i == 3 {\n                self.order_book.process_event(Event::Cancellation { order_id: 0 });\n            }\n        }"), expect="apply")
mutant("c08-step-size-doubled", "C08", (MENV, "self.market.set_time(start_time + self.step_size);", "self.market.set_time(start_time + self.step_size + self.step_size);"), expect="clock")
mutant("c08-cancel-queues-new", "C08", (ENV, "        self.transactions.push(Event::Cancellation { order_id })", "        self.transactions.push(Event::New { order_id })"), expect="submit")
mutant("c08-time-not-per-item", "C08", (MENV, """            self.market
                .set_time(start_time + Nanos::try_from(i).unwrap());
            self.market.process_event(t);""", """            if i % 2 == 0 {
                self.market
                    .set_time(start_time + Nanos::try_from(i).unwrap());
            }
            self.market.process_event(t);"""), expect="apply")
refactor("c08-rename-loop-vars", ["C08", "C15", "C11"], (ENV, """        for (i, t) in transactions.into_iter().enumerate() {
            self.order_book
                .set_time(start_time + Nanos::try_from(i).unwrap());
            self.order_book.process_event(t);""", """        for (n, event) in transactions.into_iter().enumerate() {
            let now = start_time + Nanos::try_from(n).unwrap();
            self.order_book.set_time(now);
            self.order_book.process_event(event);"""))

# ------------------------------------------------------------------------------- C10
mutant("c10-immediate-cancel", "C10", (ENV, "        self.transactions.push(Event::Cancellation { order_id })", "        self.order_book.cancel_order(order_id);\n        self.transactions.push(Event::Cancellation { order_id })"), expect="effects")
mutant("c10-snapshot-in-place-order", "C10", (ENV, "        self.transactions.push(Event::New { order_id });\n        Ok(order_id)", "        self.transactions.push(Event::New { order_id });\n        self.level_2_data = self.order_book.level_2_data();\n        Ok(order_id)"), expect=["effects", "snapshot"])
mutant("c10-get-orderbook-mut", "C10", (ENV, "    pub fn get_orderbook(&self) -> &OrderBook<LEVELS> {\n        &self.order_book", "    pub fn get_orderbook(&self) -> &OrderBook<LEVELS> {\n        &self.order_book\n    }\n\n    /// Mutable access\n    pub fn get_orderbook_mut(&mut self) -> &mut OrderBook<LEVELS> {\n        &mut self.order_book"), expect="no-mut-out")
mutant("c10-snapshot-before-loop", "C10", (MENV, """        self.market.set_time(start_time + self.step_size);

        self.level_2_data = self.market.level_2_data();""", """        self.level_2_data = self.market.level_2_data();
        self.market.set_time(start_time + self.step_size);
"""), expect="snapshot")
mutant("c10-menv-place-immediately", "C10", (MENV, "        self.transactions.push(Event::New { order_id });\n        Ok(order_id)", "        self.transactions.push(Event::New { order_id });\n        self.market.place_order(order_id);\n        Ok(order_id)"), expect="effects")

# ------------------------------------------------------------------------------- C11
mutant("c11-ask-col-from-bid", "C11", (DATA, "self.volumes_at_levels.1[i].push(record.ask_price_levels[i].0);", "self.volumes_at_levels.1[i].push(record.bid_price_levels[i].0);"), expect="append")
mutant("c11-count-from-vol", "C11", (DATA, "self.orders_at_levels.0[i].push(record.bid_price_levels[i].1);", "self.orders_at_levels.0[i].push(record.bid_price_levels[i].0);"), expect="append")
mutant("c11-level-shift", "C11", (DATA, "self.orders_at_levels.1[i].push(record.ask_price_levels[i].1);", "self.orders_at_levels.1[i].push(record.ask_price_levels[(i + 1) % N].1);"), expect="append")
mutant("c11-counts-getter-returns-vols", "C11", (ENV, """            &self.level_2_data_records.orders_at_levels.0[0],
            &self.level_2_data_records.orders_at_levels.1[0],""", """            &self.level_2_data_records.volumes_at_levels.0[0],
            &self.level_2_data_records.volumes_at_levels.1[0],"""), expect="getters")
mutant("c11-trade-vols-asset-zero", "C11", (MENV, "            self.trade_vols[i].push(tv);", "            self.trade_vols[0].push(tv);"), expect="step")
mutant("c11-record-stale-asset", "C11", (MENV, "self.level_2_data_records[i].append_record(&self.level_2_data[i]);", "self.level_2_data_records[i].append_record(&self.level_2_data[0]);"), expect="step")
mutant("c11-prices-swapped", "C11", (DATA, "        self.prices.0.push(record.bid_price);\n        self.prices.1.push(record.ask_price);", "        self.prices.0.push(record.ask_price);\n        self.prices.1.push(record.bid_price);"), expect="append")
mutant("c11-touch-level-one", "C11", (MENV, "            &self.level_2_data_records[asset].volumes_at_levels.1[0],", "            &self.level_2_data_records[asset].volumes_at_levels.1[1],"), expect="getters")
refactor("c11-append-iter-enumerate", "C11", (DATA, "        self.volumes.0.push(record.bid_vol);\n        self.volumes.1.push(record.ask_vol);", "        self.volumes.1.push(record.ask_vol);\n        self.volumes.0.push(record.bid_vol);"))

# ------------------------------------------------------------------------------- C15
mutant("c15-partial-slice", "C15", (ENV, "        transactions.shuffle(rng);", "        transactions[1..].shuffle(rng);"), expect="shuffle")
mutant("c15-reverse-instead", "C15", (MENV, "        transactions.shuffle(rng);", "        transactions.reverse();"), expect="shuffle")
mutant("c15-sort-after-shuffle", "C15", (ENV, "        transactions.shuffle(rng);", "        transactions.shuffle(rng);\n        transactions.sort_by_key(|e| matches!(e, Event::Cancellation { .. }));"), expect="shuffle")
mutant("c15-conditional-shuffle", "C15", (ENV, "        transactions.shuffle(rng);", "        if transactions.len() > 2 {\n            transactions.shuffle(rng);\n        }"), expect="shuffle")
mutant("c15-rev-loop", ["C15"], (MENV, "for (i, t) in transactions.into_iter().enumerate() {", "for (i, t) in transactions.into_iter().rev().enumerate() {"), expect="shuffle")
mutant("c15-hand-swap", "C15", (ENV, "        transactions.shuffle(rng);", "        transactions.shuffle(rng);\n        if transactions.len() > 1 {\n            transactions.swap(0, 1);\n        }"), expect="shuffle")

# ------------------------------------------------------------------------------- C09
mutant("c09-thread-rng-in-branch", "C09", (RUN, """        false => {
            for _ in 0..n_steps {
                agents.update(env, &mut rng);
                env.step(&mut rng);
            }
        }
    }
}

/// Run a multi-asset""", """        false => {
            for _ in 0..n_steps {
                agents.update(env, &mut rng);
                env.step(&mut rand::thread_rng());
            }
        }
    }
}

/// Run a multi-asset"""), expect=["deny-list", "runner"])
mutant("c09-agent-own-generator", "C09", (NOISE, "            if rng.gen::<f32>() < self.params.p_market {\n                let side = rng.gen_bool(0.5);\n                match side {\n                    true => env\n                        .place_order(Side::Bid, self.params.trade_vol, *trader_id, None)",
       "            if rng.gen::<f32>() < self.params.p_market {\n                let side = <rand_xoshiro::Xoroshiro128StarStar as rand::SeedableRng>::seed_from_u64(7).gen_bool(0.5);\n                match side {\n                    true => env\n                        .place_order(Side::Bid, self.params.trade_vol, *trader_id, None)"), expect=["construction", "threading"])
mutant("c09-hashset-iteration", "C09", (COMMON, "    for order_id in to_cancel.into_iter() {\n        env.cancel_order(order_id);\n    }\n\n    live_orders\n}\n\n/// Place a buy order a random distance below",
       "    let to_cancel: std::collections::HashSet<OrderId> = to_cancel.into_iter().collect();\n    for order_id in to_cancel.into_iter() {\n        env.cancel_order(order_id);\n    }\n\n    live_orders\n}\n\n/// Place a buy order a random distance below"), expect="deny-list", first=True)
mutant("c09-instant-now", "C09", (COMMON, "    let dist = price_dist.sample(rng).abs();\n    let price = mid_price - dist;\n    let price = round_price_down(price, tick_size);\n    env.place_order(Side::Bid, trade_vol, trader_id, Some(price))",
       "    let dist = price_dist.sample(rng).abs() + (std::time::Instant::now().elapsed().as_nanos() % 2) as f64;\n    let price = mid_price - dist;\n    let price = round_price_down(price, tick_size);\n    env.place_order(Side::Bid, trade_vol, trader_id, Some(price))", ), expect="deny-list", first=True)
mutant("c09-branch-skips-update", "C09", (RUN, """        true => {
            for _ in tqdm!(0..n_steps) {
                agents.update(env, &mut rng);
                env.step(&mut rng);
            }
        }
        false => {
            for _ in 0..n_steps {
                agents.update(env, &mut rng);
                env.step(&mut rng);
            }
        }
    }
}

/// Run a multi-asset""", """        true => {
            for _ in tqdm!(0..n_steps) {
                env.step(&mut rng);
                agents.update(env, &mut rng);
            }
        }
        false => {
            for _ in 0..n_steps {
                agents.update(env, &mut rng);
                env.step(&mut rng);
            }
        }
    }
}

/// Run a multi-asset"""), expect="runner")
mutant("c09-seed-constant", "C09", (RUN, "    let mut rng = Xoroshiro128StarStar::seed_from_u64(seed);\n\n    match show_progress {\n        true => {\n            for _ in tqdm!(0..n_steps) {\n                agents.update(env, &mut rng);\n                env.step(&mut rng);\n            }\n        }\n        false => {\n            for _ in 0..n_steps {\n                agents.update(env, &mut rng);\n                env.step(&mut rng);\n            }\n        }\n    }\n}\n\n/// Run a multi-asset",
       "    let mut rng = Xoroshiro128StarStar::seed_from_u64(seed / 2);\n\n    match show_progress {\n        true => {\n            for _ in tqdm!(0..n_steps) {\n                agents.update(env, &mut rng);\n                env.step(&mut rng);\n            }\n        }\n        false => {\n            for _ in 0..n_steps {\n                agents.update(env, &mut rng);\n                env.step(&mut rng);\n            }\n        }\n    }\n}\n\n/// Run a multi-asset"), expect="construction")

# ------------------------------------------------------------------------------- C14
mutant("c14-cancel-constant-asset", "C14", (MKT, "        self.order_books[order_id.0].cancel_order(order_id.1)", "        self.order_books[0].cancel_order(order_id.1)"), expect="per-asset")
mutant("c14-id-as-asset", "C14", (MKT, "        self.order_books[order_id.0].modify_order(order_id.1, new_price, new_vol)", "        self.order_books[order_id.1 % ASSETS].modify_order(order_id.1, new_price, new_vol)"), expect="per-asset")
mutant("c14-ask-best-vols-bid", "C14", (MKT, "        array::from_fn(|i| self.order_books[i].ask_best_vol())", "        array::from_fn(|i| self.order_books[i].bid_best_vol())"), expect="all-asset")
mutant("c14-levels-shifted-index", "C14", (MKT, "        array::from_fn(|i| self.order_books[i].ask_levels())", "        array::from_fn(|i| self.order_books[(i + 1) % ASSETS].ask_levels())"), expect="all-asset")
mutant("c14-l2-mixed-books", "C14", (MKT, "                ask_price_levels: self.order_books[i].ask_levels(),", "                ask_price_levels: self.order_books[0].ask_levels(),"), expect="all-asset")
mutant("c14-set-time-skip", "C14", (MKT, "    pub fn set_time(&mut self, t: Nanos) {\n        for book in self.order_books.iter_mut() {", "    pub fn set_time(&mut self, t: Nanos) {\n        for book in self.order_books.iter_mut().skip(1) {"), expect="fan-out")
mutant("c14-create-returns-wrong-asset", "C14", (MKT, "        let id = self.order_books[asset].create_order(side, vol, trader_id, price)?;\n        Ok((asset, id))", "        let id = self.order_books[asset].create_order(side, vol, trader_id, price)?;\n        Ok((id % ASSETS, id))"), expect="per-asset")
mutant("c14-menv-getter-asset-zero", "C14", (MENV, "        &self.level_2_data_records[asset].volumes\n", "        &self.level_2_data_records[0].volumes\n"), expect="market-env")
mutant("c14-vol-trader-swapped", "C14", (MKT, "        let id = self.order_books[asset].create_and_place_order(side, vol, trader_id, price)?;", "        let id = self.order_books[asset].create_and_place_order(side, trader_id, vol, price)?;"), expect="per-asset")

# ------------------------------------------------------------------------------- C20
mutant("c20-rev-fields", "C20", (MACROS, "    for field in fields {\n        let field_name = field.ident.clone();\n\n        if field_name.is_some() {\n            call_tokens.extend(quote!(\n                self.#field_name.update(env, rng);\n            ));\n        }\n    }\n\n    let output = quote! {\n        impl bourse_de::agents::AgentSet",
       "    for field in fields.iter().rev() {\n        let field_name = field.ident.clone();\n\n        if field_name.is_some() {\n            call_tokens.extend(quote!(\n                self.#field_name.update(env, rng);\n            ));\n        }\n    }\n\n    let output = quote! {\n        impl bourse_de::agents::AgentSet"), expect=["macro", "generated"])
mutant("c20-skip-after-four", "C20", (MACROS, "    for field in fields {\n        let field_name = field.ident.clone();\n\n        if field_name.is_some() {\n            call_tokens.extend(quote!(\n                self.#field_name.update(env, rng);\n            ));\n        }\n    }\n\n    let output = quote! {\n        impl bourse_de::agents::MarketAgentSet",
       "    for field in fields.iter().take(4) {\n        let field_name = field.ident.clone();\n\n        if field_name.is_some() {\n            call_tokens.extend(quote!(\n                self.#field_name.update(env, rng);\n            ));\n        }\n    }\n\n    let output = quote! {\n        impl bourse_de::agents::MarketAgentSet"), expect=["macro", "generated"])
mutant("c20-duplicate-call", "C20", (MACROS, "            call_tokens.extend(quote!(\n                self.#field_name.update(env, rng);\n            ));\n        }\n    }\n\n    let output = quote! {\n        impl bourse_de::agents::AgentSet",
       "            call_tokens.extend(quote!(\n                self.#field_name.update(env, rng);\n                self.#field_name.update(env, rng);\n            ));\n        }\n    }\n\n    let output = quote! {\n        impl bourse_de::agents::AgentSet"), expect=["macro", "generated"])
mutant("c20-type-dependent", "C20", (MACROS, "        let field_name = field.ident.clone();\n\n        if field_name.is_some() {\n            call_tokens.extend(quote!(\n                self.#field_name.update(env, rng);\n            ));\n        }\n    }\n\n    let output = quote! {\n        impl bourse_de::agents::AgentSet",
       "        let field_name = field.ident.clone();\n\n        if field_name.is_some() && !matches!(field.vis, syn::Visibility::Inherited) {\n            call_tokens.extend(quote!(\n                self.#field_name.update(env, rng);\n            ));\n        }\n    }\n\n    let output = quote! {\n        impl bourse_de::agents::AgentSet"), expect=["macro"])
mutant("c20-body-twice", "C20", (MACROS, "            fn update<R: rand::RngCore>(&mut self, env: &mut bourse_de::Env, rng: &mut R) {\n                #call_tokens\n            }", "            fn update<R: rand::RngCore>(&mut self, env: &mut bourse_de::Env, rng: &mut R) {\n                #call_tokens\n                #call_tokens\n            }"), expect=["macro", "generated"])

# ------------------------------------------------------------------------------- C17
mutant("c17-abs-removed", "C17", (MOM, "                (m, p.abs())", "                (m, p)", ), expect="sign", count=2)
mutant("c17-abs-removed-market-only", "C17", (MOM, "                (m, p.abs())", "                (m, p)", ), expect="sign", first=True)
mutant("c17-sell-calls-buy-helper", "C17", (MOM, """                } else if m < 0.0 {
                    let order_id = common::place_sell_limit_order(""", """                } else if m < 0.0 {
                    let order_id = common::place_buy_limit_order("""), expect="sign")
mutant("c17-both-branches-positive", "C17", (MOM, """                } else if m < 0.0 {
                    env.place_order(Side::Ask, self.params.trade_vol, *trader_id, None)""", """                } else if m >= 0.0 {
                    env.place_order(Side::Ask, self.params.trade_vol, *trader_id, None)"""), expect="sign")
mutant("c17-bias-in-probability", "C17", (MOM, "        let p_limit = self.params.order_ratio * p_market;\n\n        for trader_id in self.trader_ids.iter() {\n            if rng.gen::<f64>() < p_limit {\n                if m > 0.0 {\n                    let order_id = common::place_buy_limit_order(\n",
       "        let p_limit = self.params.order_ratio * p_market + 0.1;\n\n        for trader_id in self.trader_ids.iter() {\n            if rng.gen::<f64>() < p_limit {\n                if m > 0.0 {\n                    let order_id = common::place_buy_limit_order(\n"), expect=["sign", "parity"])
mutant("c17-decay-misapplied", "C17", (MOM, "                    self.momentum * (1.0 - self.params.decay) + self.params.decay * (mid_price - p);\n                let p = self.params.demand * f64::tanh(self.params.scale * m) / self.n;\n                (m, p.abs())\n            }\n            None => (0.0, 0.0),\n        };\n\n        let p_limit = self.params.order_ratio * p_market;\n\n        for trader_id in self.trader_ids.iter() {\n            if rng.gen::<f64>() < p_limit {\n                if m > 0.0 {\n                    let order_id = common::place_buy_limit_order(\n",
       "                    self.momentum * (1.0 - self.params.decay) + self.params.decay * (p - mid_price);\n                let p = self.params.demand * f64::tanh(self.params.scale * m) / self.n;\n                (m, p.abs())\n            }\n            None => (0.0, 0.0),\n        };\n\n        let p_limit = self.params.order_ratio * p_market;\n\n        for trader_id in self.trader_ids.iter() {\n            if rng.gen::<f64>() < p_limit {\n                if m > 0.0 {\n                    let order_id = common::place_buy_limit_order(\n"), expect="recurrence")
mutant("c17-last-price-not-updated", "C17", (MOM, "        self.momentum = m;\n        self.last_price = Some(mid_price);\n\n        self.orders = live_orders;\n    }\n}\n\n/// Agents that place trades conditioned on price history", "        self.momentum = m;\n        if self.last_price.is_none() {\n            self.last_price = Some(mid_price);\n        }\n\n        self.orders = live_orders;\n    }\n}\n\n/// Agents that place trades conditioned on price history"), expect="recurrence")

# ------------------------------------------------------------------------------- C16
mutant("c16-sell-bound-removed", "C16", (COMMON, "    let price = (mid_price + dist).min(max_tick_price(tick_size));\n    let price = round_price_up(price, tick_size);\n    env.place_order(Side::Ask, trade_vol, trader_id, Some(price))",
       "    let price = mid_price + dist;\n    let price = round_price_up(price, tick_size);\n    env.place_order(Side::Ask, trade_vol, trader_id, Some(price))"), expect="grid")
mutant("c16-bound-off-grid", "C16", (COMMON, "    (f64::from(Price::MAX) / tick_size).floor() * tick_size", "    f64::from(Price::MAX) - tick_size"), expect="grid")
mutant("c16-buy-rounded-up", "C16", (COMMON, "    let price = mid_price - dist;\n    let price = round_price_down(price, tick_size);\n    env.place_order(Side::Bid, trade_vol, trader_id, Some(price))", "    let price = mid_price - dist;\n    let price = round_price_up(price, tick_size);\n    env.place_order(Side::Bid, trade_vol, trader_id, Some(price))"), expect=["grid", "direction"])
mutant("c16-abs-dropped", "C16", (COMMON, "    let dist = price_dist.sample(rng).abs();\n    let price = mid_price - dist;\n    let price = round_price_down(price, tick_size);\n    env.place_order(asset,", "    let dist = price_dist.sample(rng);\n    let price = mid_price - dist;\n    let price = round_price_down(price, tick_size);\n    env.place_order(asset,"), expect=["grid", "direction"])
mutant("c16-cancel-filter-weak", "C16", (COMMON, "        .filter(|x| env.order_status(**x) == Status::Active);\n\n    let (live_orders, to_cancel): (Vec<OrderId>, Vec<OrderId>)", "        .filter(|x| env.order_status(**x) != Status::Filled);\n\n    let (live_orders, to_cancel): (Vec<OrderId>, Vec<OrderId>)"), expect="cancel")
mutant("c16-keep-test-gt", "C16", (COMMON, "        .partition(|_| rng.gen::<f32>() >= p_cancel);", "        .partition(|_| rng.gen::<f32>() > p_cancel);", ), expect="bernoulli", first=True)
mutant("c16-activity-le", "C16", (RAND, "                match p < self.activity_rate {", "                match p <= self.activity_rate {", ), expect="bernoulli", first=True)
mutant("c16-trader-id-shifted", "C16", (RAND, "                                    TraderId::try_from(n).unwrap(),\n                                    Some(tick * self.tick_size),\n                                )\n                                .unwrap(),\n                            )\n                        }\n                    }\n                    false => *i,\n                }\n            })\n            .collect();\n\n        self.orders = new_orders;\n    }\n}\n\n/// Agents that place orders with uniformly",
       "                                    TraderId::try_from(n + 1).unwrap(),\n                                    Some(tick * self.tick_size),\n                                )\n                                .unwrap(),\n                            )\n                        }\n                    }\n                    false => *i,\n                }\n            })\n            .collect();\n\n        self.orders = new_orders;\n    }\n}\n\n/// Agents that place orders with uniformly"), expect="ownership")
mutant("c16-extra-unwrap", "C16", (NOISE, "        let mid_price = env.get_orderbook().mid_price();\n\n        for trader_id in self.trader_ids.iter() {\n            if rng.gen::<f32>() < self.params.p_limit {", "        let mid_price = env.get_orderbook().mid_price();\n        let _first = self.orders.first().unwrap();\n\n        for trader_id in self.trader_ids.iter() {\n            if rng.gen::<f32>() < self.params.p_limit {"), expect="no-abort")
mutant("c16-random-cancel-any", "C16", (RAND, "                        if (i.is_some()) && (env.order_status(i.unwrap()) == Status::Active) {\n                            env.cancel_order(i.unwrap());\n                            None\n                        } else {\n                            let side = [Side::Ask, Side::Bid].choose(rng).unwrap();\n                            let tick = rng.gen_range(self.tick_range.0..self.tick_range.1);\n                            let vol = rng.gen_range(self.vol_range.0..self.vol_range.1);\n                            Some(\n                                env.place_order(\n                                    *side,",
       "                        if i.is_some() {\n                            env.cancel_order(i.unwrap());\n                            None\n                        } else {\n                            let side = [Side::Ask, Side::Bid].choose(rng).unwrap();\n                            let tick = rng.gen_range(self.tick_range.0..self.tick_range.1);\n                            let vol = rng.gen_range(self.vol_range.0..self.vol_range.1);\n                            Some(\n                                env.place_order(\n                                    *side,"), expect="random")
mutant("c16-noise-wrong-vol", "C16", (NOISE, "                    true => env\n                        .place_order(Side::Bid, self.params.trade_vol, *trader_id, None)\n                        .unwrap(),", "                    true => env\n                        .place_order(Side::Bid, *trader_id, self.params.trade_vol, None)\n                        .unwrap(),"), expect="ownership")
mutant("c16-market-agent-other-asset-mid", "C16", (NOISE, "        let mid_price = env.get_market().get_order_book(self.asset).mid_price();", "        let mid_price = env.get_market().get_order_book(0).mid_price();"), expect="ownership")
mutant("c16-sell-on-bid-side", "C16", (COMMON, "    env.place_order(asset, Side::Ask, trade_vol, trader_id, Some(price))", "    env.place_order(asset, Side::Bid, trade_vol, trader_id, Some(price))"), expect="direction")

# ------------------------------------------------------------------------------- C18
mutant("c18-best-bid-vol-ask", "C18", (PYOB, "    pub fn best_bid_vol(&self) -> Vol {\n        self.0.bid_best_vol()", "    pub fn best_bid_vol(&self) -> Vol {\n        self.0.ask_best_vol()"), expect=["qualifier", "forward"])
mutant("c18-vol-trader-swapped", "C18", (PYOB, "let order_id = self.0.create_and_place_order(side, vol, trader_id, price);", "let order_id = self.0.create_and_place_order(side, trader_id, vol, price);"), expect="forward")
mutant("c18-false-is-bid", "C18", (PYSS, "        let side = match bid {\n            true => Side::Bid,\n            false => Side::Ask,\n        };", "        let side = match bid {\n            true => Side::Ask,\n            false => Side::Bid,\n        };"), expect="side")
mutant("c18-cast-order-swapped", "C18", (PYTY, "        order.vol,\n        order.start_vol,", "        order.start_vol,\n        order.vol,"), expect="layout")
mutant("c18-status-codes-shifted", "C18", ("crates/order_book/src/types.rs", "            Status::Filled => 2,\n            Status::Cancelled => 3,", "            Status::Filled => 3,\n            Status::Cancelled => 2,"), expect="status")
mutant("c18-stepenv-best-ask-level1", "C18", (PYSS, "        self.env.level_2_data().ask_price_levels[0].0", "        self.env.level_2_data().ask_price_levels[1].0"), expect="qualifier")
mutant("c18-stepenv-bid-ask-swapped", "C18", (PYSS, "            self.env.level_2_data().bid_price,\n            self.env.level_2_data().ask_price,\n        )", "            self.env.level_2_data().ask_price,\n            self.env.level_2_data().bid_price,\n        )"), expect="qualifier")
mutant("c18-error-swallowed-after-effect", "C18", (PYSS, "        let order_id = self.env.place_order(side, vol, trader_id, price);\n\n        match order_id {", "        let order_id = self.env.place_order(side, vol, trader_id, price);\n        if order_id.is_err() {\n            self.env.disable_trading();\n        }\n\n        match order_id {"), expect=["forward", "errors"])
mutant("c18-cast-trade-ids-swapped", "C18", (PYTY, "        trade.active_order_id,\n        trade.passive_order_id,", "        trade.passive_order_id,\n        trade.active_order_id,"), expect="layout")
mutant("c18-modify-args-swapped", "C18", (PYOB, "        self.0.modify_order(order_id, new_price, new_vol);", "        self.0.modify_order(order_id, new_vol, new_price);"), expect="forward")
mutant("c18-i64-param", "C18", (PYOB, "    pub fn set_time(&mut self, t: Nanos) {\n        self.0.set_time(t);", "    pub fn set_time(&mut self, t: i64) {\n        self.0.set_time(t as Nanos);"), expect=["param-types", "forward"])

# ------------------------------------------------------------------------------- C19
mutant("c19-totals-transposed", "C19", (PYNP, "            data.bid_vol,\n            data.ask_vol,\n            data.bid_price_levels[0].0,", "            data.ask_vol,\n            data.bid_vol,\n            data.bid_price_levels[0].0,"), expect="layout")
mutant("c19-missing-trade-vol", "C19", (PYSS, "        let data_vec = [\n            self.env.get_orderbook().get_trade_vol(),\n            data.bid_price,", "        let data_vec = [\n            data.bid_price,"), expect="layout")
mutant("c19-column-arr-time", "C19", ("src/bourse/data_processing.py", '        "arr_time",', '        "arr time",'), expect="columns")
mutant("c19-level-order", "C19", (PYSS, "            data_vec.push(data.bid_price_levels[i].1);\n            data_vec.push(data.ask_price_levels[i].0);", "            data_vec.push(data.ask_price_levels[i].0);\n            data_vec.push(data.bid_price_levels[i].1);"), expect="layout")
mutant("c19-nine-levels", "C19", (PYNP, "        for i in 0..10 {\n            data_vec.push(data.bid_price_levels[i].0);", "        for i in 0..9 {\n            data_vec.push(data.bid_price_levels[i].0);"), expect="layout")
mutant("c19-dict-n-ask-from-bid", "C19", (PYSS, '                format!("n_ask_{i}"),\n                data.orders_at_levels.1[i].to_pyarray(py),', '                format!("n_ask_{i}"),\n                data.orders_at_levels.0[i].to_pyarray(py),'), expect="dict")
mutant("c19-dict-key-renamed", "C19", (PYNP, '("ask_vol".to_string(), data.volumes.1.to_pyarray(py)),', '("ask_volume".to_string(), data.volumes.1.to_pyarray(py)),'), expect="dict")
mutant("c19-dict-family-dropped", "C19", (PYSS, "        py_data.extend(bid_orders);\n        py_data.extend(ask_orders);", "        py_data.extend(bid_orders);"), expect="dict")
mutant("c19-trade-columns-swapped", "C19", ("src/bourse/data_processing.py", 'columns = ["time", "side", "price", "vol", "active_id", "passive_id"]', 'columns = ["time", "side", "vol", "price", "active_id", "passive_id"]'), expect="columns")
mutant("c19-touch-count-vol", "C19", (PYNP, "            data.bid_price_levels[0].0,\n            data.bid_price_levels[0].1,\n            data.ask_price_levels[0].0,\n            data.ask_price_levels[0].1,\n        ];", "            data.bid_price_levels[0].0,\n            data.bid_price_levels[0].1,\n            data.ask_price_levels[0].1,\n            data.ask_price_levels[0].0,\n        ];"), expect="layout")

# ------------------------------------------------------------------------------- behaviour-preserving refactors (all must stay silent)
ALLBOOK = ["C01", "C02", "C03", "C04", "C05", "C06", "C07", "C12", "C13"]
refactor("rf-rename-private-matchers", ALLBOOK, [(OB, "match_bid", "execute_buy"), (OB, "match_ask", "execute_sell"), (OB, "match_orders", "fill_pair")], count="all")
refactor("rf-rename-private-placers", ALLBOOK, [(OB, "place_bid_limit", "rest_buy"), (OB, "place_ask_limit", "rest_sell"), (OB, "place_bid_market", "take_buy"), (OB, "place_ask_market", "take_sell"),
                                                 (OB, "replace_order", "requeue"), (OB, "reduce_order_vol", "shrink")], count="all")
refactor("rf-rename-locals-modify", ["C04", "C06", "C12", "C02"], [(OB, "let mut order_entry = self.orders[order_id];\n\n        if order_entry.order.status == Status::Active {\n            match (new_price, new_vol) {",
          "let mut entry = self.orders[order_id];\n        let order_entry = &mut entry;\n\n        if order_entry.order.status == Status::Active {\n            match (new_price, new_vol) {"),
         (OB, "                        self.reduce_order_vol(&mut order_entry, reduce_vol);", "                        self.reduce_order_vol(order_entry, reduce_vol);"),
         (OB, "                        self.replace_order(&mut order_entry, p, v)\n                    }\n                }", "                        self.replace_order(order_entry, p, v)\n                    }\n                }"),
         (OB, "                    self.replace_order(&mut order_entry, p, v);\n                }", "                    self.replace_order(order_entry, p, v);\n                }"),
         (OB, "                (Some(p), Some(v)) => self.replace_order(&mut order_entry, p, v),", "                (Some(p), Some(v)) => self.replace_order(order_entry, p, v),"),
         (OB, "        self.orders[order_id] = order_entry;\n    }\n\n    /// Process an", "        self.orders[order_id] = entry;\n    }\n\n    /// Process an")])
refactor("rf-market-fanout-index-loop", ["C13", "C14"], (MKT, "    pub fn set_time(&mut self, t: Nanos) {\n        for book in self.order_books.iter_mut() {\n            book.set_time(t)\n        }", "    pub fn set_time(&mut self, t: Nanos) {\n        for i in 0..ASSETS {\n            self.order_books[i].set_time(t)\n        }"))
refactor("rf-status-eq-flipped", ["C04", "C13", "C01", "C02"], (OB, "        if order_entry.order.status != Status::Filled {\n            let key: OrderKey = (Side::Bid,", "        if !(order_entry.order.status == Status::Filled) {\n            let key: OrderKey = (Side::Bid,"))
refactor("rf-trading-if-to-match", ["C13", "C02", "C01"], (OB, "        if self.trading {\n            self.match_ask(order_entry);\n        }", "        match self.trading {\n            true => self.match_ask(order_entry),\n            false => (),\n        }"))
refactor("rf-step-mem-replace", ["C08", "C15", "C10", "C11"], (ENV, "let mut transactions = mem::take(&mut self.transactions);", "let mut transactions = mem::replace(&mut self.transactions, Vec::new());"))
refactor("rf-getter-via-local", ["C02", "C14", "C18"], (OB, "    pub fn bid_ask(&self) -> (Price, Price) {\n        (self.bid_side.best_price(), self.ask_side.best_price())", "    pub fn bid_ask(&self) -> (Price, Price) {\n        let bid = self.bid_side.best_price();\n        let ask = self.ask_side.best_price();\n        (bid, ask)"))
refactor("rf-create-order-early-check", ["C12", "C04", "C01"], (OB, "        let order_id = self.current_order_id();\n\n        let order = match (side, price) {", "        let order_id = self.orders.len();\n\n        let order = match (side, price) {"))
refactor("rf-agents-rename-locals", ["C16", "C17", "C09"], [(MOM, "        let p_limit = self.params.order_ratio * p_market;", "        let prob_limit = self.params.order_ratio * p_market;", ), (MOM, "            if rng.gen::<f64>() < p_limit {", "            if rng.gen::<f64>() < prob_limit {")], count=2)
refactor("rf-noise-if-else-side", ["C16", "C09"], (NOISE, "                match side {\n                    true => env\n                        .place_order(Side::Bid, self.params.trade_vol, *trader_id, None)\n                        .unwrap(),\n                    false => env\n                        .place_order(Side::Ask, self.params.trade_vol, *trader_id, None)\n                        .unwrap(),\n                };",
         "                if side {\n                    env.place_order(Side::Bid, self.params.trade_vol, *trader_id, None)\n                        .unwrap();\n                } else {\n                    env.place_order(Side::Ask, self.params.trade_vol, *trader_id, None)\n                        .unwrap();\n                }"))
refactor("rf-append-record-reorder-levels", ["C11"], (DATA, "            self.volumes_at_levels.0[i].push(record.bid_price_levels[i].0);\n            self.orders_at_levels.0[i].push(record.bid_price_levels[i].1);\n\n            self.volumes_at_levels.1[i].push(record.ask_price_levels[i].0);\n            self.orders_at_levels.1[i].push(record.ask_price_levels[i].1);",
         "            self.volumes_at_levels.1[i].push(record.ask_price_levels[i].0);\n            self.orders_at_levels.1[i].push(record.ask_price_levels[i].1);\n\n            self.volumes_at_levels.0[i].push(record.bid_price_levels[i].0);\n            self.orders_at_levels.0[i].push(record.bid_price_levels[i].1);"))
refactor("rf-pyo3-local-binding", ["C18", "C19"], (PYOB, "    pub fn bid_vol(&self) -> Vol {\n        self.0.bid_vol()", "    pub fn bid_vol(&self) -> Vol {\n        let book = &self.0;\n        book.bid_vol()"))
refactor("rf-loader-match-to-if", ["C07", "C05", "C04"], (OB, "                match order.side {\n                    Side::Bid => bid_side.insert_order(*key, order.order_id, order.vol),\n                    Side::Ask => ask_side.insert_order(*key, order.order_id, order.vol),\n                }",
         "                if let Side::Bid = order.side {\n                    bid_side.insert_order(*key, order.order_id, order.vol)\n                } else {\n                    ask_side.insert_order(*key, order.order_id, order.vol)\n                }"))


# ------------------------------------------------------------------------------- independently written changes (seeded/<id>/patch.diff)
import glob as _glob
import json as _json
import os as _os
_SEEDED = _os.path.join(_os.path.dirname(_os.path.dirname(_os.path.abspath(__file__))), "seeded")
for _d in sorted(_glob.glob(_os.path.join(_SEEDED, "*"))):
    try:
        _m = _json.load(open(_os.path.join(_d, "meta.json")))
    except (OSError, ValueError):
        continue
    CASES.append(dict(kind="mutant", name="seeded-" + _os.path.basename(_d), props=[_m["property"]], edits=[], expect=None,
                      patch=_os.path.join(_d, "patch.diff")))

# ------------------------------------------------------------------------------- behaviour-preserving refactoring corpus (selftest/refactors/*.diff)
# written by sub-agents (book-*, market-*, env-*, agents-*, macros-*, pyo3-*) or derived from the independent seeds by
# repairing the seeded bug while keeping the refactoring it was hidden in (r2fix-*); every check must stay silent.
# UNSUPPORTED: refactorings whose correctness the static rules cannot establish (reported, documented in DESIGN.md 6.5)
ALL_PROPS = ["C%02d" % _i for _i in range(1, 21)]
UNSUPPORTED_REFACTORS = {
    # behaviour-preserving, but the static rules cannot establish it and report it (documented limits, DESIGN.md 6.5):
    "r2fix-c09": "progress-bar branch runs the steps in blocks of 256: equality of the two branches' iteration counts is arithmetic over "
                 "iterator lengths, which the runner rule (identical loop over the same range in both branches) does not decide",
    "agents-5": "momentum direction routed through a helper returning Option<Side> and matched later: the sign case analysis does not yet "
                "correlate the Option<Side> alternatives with the sign tests that built them",
    # -- second corpus (rf2-*)
    "rf2-agents-4": "the placement helper is passed around as a fn pointer: the C16 ownership / discharge rules resolve direct calls only",
    "rf2-agents-5": "same shape as agents-5 (Option<Side> helper matched later)",
    "rf2-agents-6": "random-agent draws moved into an OrderSampler struct field: the per-slot model reads the draw bounds from the agent's own fields",
    "rf2-book1-4": "changes the trade writer's contract (returns a Fill struct, volume decrement in a helper): the trade-writer summary the "
                   "typestate interprets is an explicit table",
    "rf2-book1-5": "moves the stamp counter into a serialised QueueClock struct: the snapshot format changes (C07's writer/reader tables differ "
                   "from the recorded ones) and the stamp role is discovered by field type",
    "rf2-book2-1": "tick test through a Result-returning helper used as `is_some_and(|p| check(p).is_err())`: the case analysis does not "
                   "summarise Result-returning predicates",
    "rf2-book2-2": "side index reached through `&mut dyn SideFunctionality`: side-op calls are resolved by the impl type",
    "rf2-book2-3": "level map values become a Level struct: the lock-step rules read the (volume, count) pair by tuple position",
    "rf2-book2-4": "BidSide/AskSide replaced by one generic OrientedSide<const BID>: role discovery anchors on the two impl types",
    "rf2-env-6": "Env::step written as a for_each chain over the drained queue: the step model recognises take-and-iterate loops",
    # -- repaired round-3 refactorings (r3fix-*)
    "r3fix-c07": "the loader re-derives each key from the order's side and price instead of re-filing the stored key: not identical to HEAD on "
                 "inconsistent snapshots, and the loader rule demands the stored key",
    "r3fix-c09": "cancellation selection moved into a helper returning a Vec: the C16 cancel rule knows the partition(filter(..)) idiom",
    "r3fix-c10": "the snapshot refresh is restricted to assets that received instructions: equivalent only by the invariant that an untouched "
                 "book's market data does not change, which no rule here establishes (the snapshot rule demands an unconditional refresh)",
    "r3fix-c15": "the instruction queue becomes a VecDeque drained with pop_front: the step model recognises mem::take + iteration",
    "r3fix-c16": "every activity draw becomes Bernoulli::new(p).sample(..) behind a helper: not one of the accepted draw idioms "
                 "(gen::<float>() < p, gen_bool(p)); it also changes the random stream, so it is not trace-equivalent to HEAD",
    "r3fix-c17": "the momentum side is decided once and passed to side-parametric placement sites: the sign rule is per constant-side site",
    "r3fix-c19": "the flattened observation is built by an iterator chain (zip/skip/flat_map/chain/collect): the array model interprets loops "
                 "and from_fn",
    # -- feature-addition / maintenance corpus (feat-*)
    "feat-book-3": "tick test of modify_order through a Result-returning helper used as `check_price(p).is_err()` (same class as rf2-book2-1): in "
                   "the whole-operation view the helper's Ok / Err values are joined and the test of the join is not correlated with the "
                   "comparison that built them",
    "feat-agents-3": "random agents rewritten as an in-place slot loop with the order sampler shared through a helper returning a tuple: the "
                     "per-slot model does not read the draws through the tuple-returning helper",
    # -- small everyday refactors (small-*)
    "small-agents-1": "momentum (M, p) computed by `last_price.map_or((0, 0), |p| ..)`: the recurrence rule reads the `match` on the last price",
    "small-agents-4": "random-agent draws through a tuple-returning sampler (same class as feat-agents-3)",
    "small-book-5": "`!matches!(status, Status::New)` as the place_order guard and `vol != 0 && best <= price` as the loop guard: the status-guard anchor reads a comparison, not a `matches!` discriminant test",
    "small-env-1": "the instruction is queued inside `create_order(..).map(|id| { push; id })`: the submission rules read the push in the function body, not in a combinator closure",
    "feat-python-3": "the Python classes keep their own order count and refuse unknown ids before forwarding: forwarding becomes conditional on "
                     "wrapper-side bookkeeping which no rule proves equal to the core's order table (it also changes behaviour for invalid ids)",
    "feat-python-4": "optional n_levels argument: the array length becomes a runtime value, the array model needs a constant level count",
}
for _f in sorted(_glob.glob(_os.path.join(_os.path.dirname(_os.path.abspath(__file__)), "refactors", "*.diff"))):
    _n = _os.path.basename(_f)[:-5]
    if _n in UNSUPPORTED_REFACTORS:
        continue
    CASES.append(dict(kind="refactor", name="corpus-" + _n, props=list(ALL_PROPS), edits=[], patch=_f))

# ------------------------------------------------------------------------------- later additions
mutant("c16-noise-limit-uses-p-market", "C16", (NOISE, "            if rng.gen::<f32>() < self.params.p_limit {\n                let side = rng.gen_bool(0.5);\n\n                let order_id = match side {\n                    true => common::place_buy_limit_order(\n                        env,", "            if rng.gen::<f32>() < self.params.p_market {\n                let side = rng.gen_bool(0.5);\n\n                let order_id = match side {\n                    true => common::place_buy_limit_order(\n                        env,"), expect="activity")
mutant("c01-no-writeback-place", ["C01", "C04", "C02"], (OB, "            }\n        }\n\n        self.orders[order_id] = order_entry;\n    }\n\n    /// Cancel an order", "            }\n        }\n\n        if order_entry.order.status != Status::Rejected {\n            self.orders[order_id] = order_entry;\n        }\n    }\n\n    /// Cancel an order"), expect="writeback")
mutant("c01-prio-key-swapped", ["C01", "C02"], [(SIDE, "        self.orders.insert((key.1, key.2), idx);", "        self.orders.insert((key.1, key.2 ^ 1), idx);")], expect="lockstep")
mutant("c02-mid-price-weighted", "C02", (OB, "        0.5 * (f64::from(bid) + f64::from(ask))", "        0.5 * f64::from(bid) + 0.49 * f64::from(ask)"), expect="views")
mutant("c03-reset-does-nothing", ["C03", "C08", "C11"], (OB, "    pub fn reset_trade_vol(&mut self) {\n        self.trade_vol = 0;", "    pub fn reset_trade_vol(&mut self) {"), expect="does not (only) reset")
mutant("c01-empty-side-no-exit", "C01", (OB, "                None => {\n                    break;\n                }", "                None => {}", ), expect="K4-loop", first=True)
# ---- survivors of the mechanical mutation sweep (selftest/mutation_sweep.py) that no check reported at first
PYSSNP = "rust/src/step_sim_numpy.rs"
mutant("c17-sell-branch-const-false", "C17", (MOM, "                } else if m < 0.0 {\n                    let order_id = common::place_sell_limit_order(", "                } else if false {\n                    let order_id = common::place_sell_limit_order("), expect="sign", first=True)
mutant("c17-formula-times-n", "C17", (MOM, "let p = self.params.demand * f64::tanh(self.params.scale * m) / self.n;", "let p = self.params.demand * f64::tanh(self.params.scale * m) * self.n;"), expect="documented", first=True)
mutant("c17-first-step-prob", "C17", (MOM, "            None => (0.0, 0.0),", "            None => (0.0, 0.1),"), expect="first-step", first=True)
mutant("c17-initial-momentum", "C17", (MOM, "            momentum: 0.0,", "            momentum: 0.1,"), expect="starts with", first=True)
mutant("c16-empty-tick-range", "C16", (RAND, "let tick = rng.gen_range(self.tick_range.0..self.tick_range.1);", "let tick = rng.gen_range(self.tick_range.1..self.tick_range.1);"), expect="grid", first=True)
mutant("c16-limit-id-forgotten", "C16", (MOM, "                    .unwrap();\n                    live_orders.push(order_id);\n                } else if m < 0.0 {", "                    .unwrap();\n                    let _ = order_id;\n                } else if m < 0.0 {"), expect="is not (always) added", first=True)
mutant("c16-trader-id-range", "C16", (NOISE, "(agent_id_start..agent_id_start + TraderId::from(n_agents)).collect();", "(agent_id_start..agent_id_start - TraderId::from(n_agents)).collect();"), expect="trader id table", first=True)
mutant("c18-get-orders-skip", "C18", (PYSS, "self.env.get_orders().into_iter().map(cast_order).collect()", "self.env.get_orders().into_iter().skip(1).map(cast_order).collect()"), expect="dropped or reordered")
mutant("c18-prices-pair-transposed", "C18", (PYSS, "(prices.0.to_pyarray(py), prices.1.to_pyarray(py))", "(prices.1.to_pyarray(py), prices.0.to_pyarray(py))"), expect="qualifier")
mutant("c18-ctor-step-size", "C18", (PYSS, "let env = BaseEnv::new(start_time, tick_size, step_size, trading);", "let env = BaseEnv::new(start_time, tick_size, step_size + 1, trading);"), expect="forward")
mutant("c18-numpy-enable-dropped", "C18", (PYSSNP, "    pub fn enable_trading(&mut self) {\n        self.env.enable_trading();", "    pub fn enable_trading(&mut self) {"), expect="sibling")
mutant("c12-tick-assert-removed", "C12", (OB, "        assert!(tick_size > 0);\n", ""), expect="tick_size == 0")

# ------------------------------------------------------------------------------- idioms accepted since the feature corpus (DESIGN 6.6):
# each accepted idiom gets the slips that must still be reported when written in that idiom
_TAKE = "        let mut transactions = mem::take(&mut self.transactions);\n        transactions.shuffle(rng);\n"
_LOOP = "        for (i, t) in transactions.into_iter().enumerate() {"
refactor("inplace-drain-env", ["C05", "C08", "C10", "C11", "C14", "C15", "C19"], [
    (ENV, _TAKE, "        self.transactions.shuffle(rng);\n"), (ENV, _LOOP, "        for (i, t) in self.transactions.drain(..).enumerate() {"),
    (ENV, "use std::mem;\n", "")])
mutant("inplace-drain-partial", ["C08", "C15"], [
    (ENV, _TAKE, "        self.transactions.shuffle(rng);\n"), (ENV, _LOOP, "        for (i, t) in self.transactions.drain(1..).enumerate() {"),
    (ENV, "use std::mem;\n", "")], expect=None)
mutant("inplace-drain-shuffle-tail", "C15", [
    (ENV, _TAKE, "        self.transactions[1..].shuffle(rng);\n"), (ENV, _LOOP, "        for (i, t) in self.transactions.drain(..).enumerate() {"),
    (ENV, "use std::mem;\n", "")], expect="shuffle")
mutant("inplace-drain-retain", ["C08", "C15"], [
    (ENV, _TAKE, "        self.transactions.shuffle(rng);\n        self.transactions.truncate(64);\n"), (ENV, _LOOP, "        for (i, t) in self.transactions.drain(..).enumerate() {"),
    (ENV, "use std::mem;\n", "")], expect=None)
mutant("batch-dedup-before-shuffle", ["C08", "C15"], (ENV, _TAKE, "        let mut transactions = mem::take(&mut self.transactions);\n        transactions.dedup_by_key(|t| matches!(t, Event::Cancellation { .. }));\n        transactions.shuffle(rng);\n"), expect="batch")
# a new public Market mutator that reaches the books directly is not covered by the forwarding rules
mutant("c14-new-mutator-direct-write", "C14", (MKT, "    /// Reset cumulative trade vol to 0 for all assets\n    pub fn reset_trade_vols(&mut self) {",
       "    /// Rewind the first book\n    pub fn rewind_first(&mut self) {\n        self.order_books[0].set_time(0);\n    }\n\n    /// Reset cumulative trade vol to 0 for all assets\n    pub fn reset_trade_vols(&mut self) {"), expect="write the books directly")
refactor("c14-new-mutator-through-api", ["C14", "C08", "C10", "C13"], (MKT, "    /// Reset cumulative trade vol to 0 for all assets\n    pub fn reset_trade_vols(&mut self) {",
         "    /// Halt trading and zero the counters\n    pub fn halt(&mut self) {\n        self.disable_trading();\n        self.reset_trade_vols();\n    }\n\n    /// Reset cumulative trade vol to 0 for all assets\n    pub fn reset_trade_vols(&mut self) {"))
# a debug assertion is not an abort site, a plain assertion on the same condition is
mutant("c16-assert-in-round", "C16", (COMMON, "pub fn round_price_up(p: f64, tick_size: f64) -> Price {\n", "pub fn round_price_up(p: f64, tick_size: f64) -> Price {\n    assert!(p < 1.0e9);\n"), expect="no-abort")
refactor("c16-debug-assert-in-round", ["C16"], (COMMON, "pub fn round_price_up(p: f64, tick_size: f64) -> Price {\n", "pub fn round_price_up(p: f64, tick_size: f64) -> Price {\n    debug_assert!(tick_size > 0.0);\n"))

# the dictionary written with `insert` (feat-python-2's idiom): a transposed family must still be reported
import os as _os2
_FP2 = _os2.path.join(_os2.path.dirname(_os2.path.abspath(__file__)), "refactors", "feat-python-2.diff")
CASES.append(dict(kind="mutant", name="c19-insert-dict-family-transposed", props=["C19"], patch=_FP2, expect="dict",
                  edits=[("rust/src/types.rs", 'py_data.insert(format!("n_bid_{i}"), n_bids.to_pyarray(py));', 'py_data.insert(format!("n_bid_{i}"), n_asks.to_pyarray(py));')]))

# the level-2 data is READ before the batch is processed and stored after it (C10 fresh-read; the stored snapshot is stale)
mutant("c10-snapshot-read-before-loop", ["C10", "C11"], [
    (ENV, "        let mut transactions = mem::take(&mut self.transactions);\n        transactions.shuffle(rng);\n",
     "        let snapshot = self.order_book.level_2_data();\n        let mut transactions = mem::take(&mut self.transactions);\n        transactions.shuffle(rng);\n"),
    (ENV, "        self.level_2_data = self.order_book.level_2_data();\n        self.level_2_data_records", "        self.level_2_data = snapshot;\n        self.level_2_data_records")], expect=None)
refactor("c11-record-from-fresh-value", ["C10", "C11", "C19", "C08"], [
    (ENV, "        self.level_2_data = self.order_book.level_2_data();\n        self.level_2_data_records.append_record(&self.level_2_data);",
     "        let level_2_data = self.order_book.level_2_data();\n        self.level_2_data_records.append_record(&level_2_data);\n        self.level_2_data = level_2_data;")])

# the all-asset query written as `order_books.each_ref().map(|book| ..)` (small-market-3's idiom): a slip inside it is still reported
_SM3 = _os2.path.join(_os2.path.dirname(_os2.path.abspath(__file__)), "refactors", "small-market-3.diff")
CASES.append(dict(kind="mutant", name="c14-array-map-wrong-side", props=["C14", "C02"], patch=_SM3, expect="views",
                  edits=[(MKT, "ask_price_levels: book.ask_levels(),", "ask_price_levels: book.bid_levels(),")]))
# the loader iterating by index (small-book-3's idiom) one position too far must still be reported
_SB3 = _os2.path.join(_os2.path.dirname(_os2.path.abspath(__file__)), "refactors", "small-book-3.diff")
CASES.append(dict(kind="mutant", name="c07-loader-index-past-end", props=["C07"], patch=_SB3, expect="load-abort-free",
                  edits=[(OB, "for i in 0..state.orders.len() {", "for i in 0..state.orders.len() + 1 {")]))

# `From<Side> for bool` spelled with matches! (small-market-5's idiom), inverted
_SM5 = _os2.path.join(_os2.path.dirname(_os2.path.abspath(__file__)), "refactors", "small-market-5.diff")
CASES.append(dict(kind="mutant", name="c18-side-to-bool-inverted-matches", props=["C18"], patch=_SM5, expect="side",
                  edits=[("crates/order_book/src/types.rs", "!matches!(side, Side::Ask)", "!matches!(side, Side::Bid)")]))
