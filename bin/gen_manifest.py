#!/usr/bin/python3
"""Regenerate MANIFEST.json from the rule modules present in rules/ (keeps it valid at
all times: a property with a rule module is claimed, every other one is listed under
not_applicable with the reason recorded in rules/status.py)."""
import importlib
import json
import os
import sys

VERIF = os.path.dirname(os.path.dirname(os.path.abspath(__file__)))
sys.path.insert(0, VERIF)
from rules import status  # noqa: E402

props = [json.loads(l)["id"] for l in open(os.path.join(VERIF, "properties.jsonl")) if l.strip()]
checks = []
na = []
for pid in props:
    st = status.STATUS.get(pid, {})
    modp = os.path.join(VERIF, "rules", pid.lower() + ".py")
    if st.get("claimed") and os.path.exists(modp):
        mod = importlib.import_module("rules." + pid.lower())
        c = {
            "property_id": pid,
            "quick_cmd": "bin/check %s --tier quick" % pid,
            "thorough_cmd": "bin/check %s --tier thorough" % pid,
            "evidence_file": "/verif/evidence/%s.json" % pid,
            "replay_cmd_template": "bin/check %s --tier quick  # static verdict: re-derived from the source; {path} names the construct" % pid,
            "engine": "bourse-facts+rules",
            "level_claimed": {"category": mod.LEVEL, "text": st["text"], "design_ref": "DESIGN.md section 4, " + pid},
            "level_note": st["note"],
            "technique": st["technique"],
        }
        checks.append(c)
    else:
        na.append({"property_id": pid, "reason": st.get("na_reason", "check not yet implemented in this commit (static rule planned, see DESIGN.md section 4)")})
m = {
    "version": 1,
    "setup_cmd": "cd /verif/driver && cargo +nightly build --release --offline",
    "hooks": {
        "guard": "bourse_verif",
        "enable": "none needed: the fact extractor reads the unmodified program (RUSTC_WORKSPACE_WRAPPER under cargo +nightly check); --cfg bourse_verif is reserved and unused",
        "baseline_off_cmd": "cd /repo && cargo test --workspace --no-fail-fast --offline",
        "source_commits": [],
        "add_only": True,
    },
    "engines": [
        {"name": "bourse-facts", "path": "driver/", "serves_properties": [c["property_id"] for c in checks],
         "kind_free_text": "rustc_private fact extractor: dumps the type-checked MIR (resolved callees, places with field names, constants, promoted bodies, docs, ADTs) of every workspace crate as JSON; nothing is executed"},
        {"name": "rules", "path": "analysis/ + rules/", "serves_properties": [c["property_id"] for c in checks],
         "kind_free_text": "Python static analyses over the facts: provenance (symbolic origins), dominance/guards, effect summaries, call graph, census and sibling rules; one obligation table per property"},
    ],
    "checks": checks,
    "not_applicable": na,
    "notes": status.NOTES,
}
json.dump(m, open(os.path.join(VERIF, "MANIFEST.json"), "w"), indent=1)
print("claimed:", [c["property_id"] for c in checks], "not applicable:", [n["property_id"] for n in na])
