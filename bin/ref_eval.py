#!/usr/bin/python3
"""bin/ref_eval.py <diff> [...]: apply each behaviour-preserving refactoring to a scratch copy of /repo
and run all 20 quick checks; every check must stay silent (exit 0)."""
import os, shutil, subprocess, sys, tempfile
VERIF = os.path.dirname(os.path.dirname(os.path.abspath(__file__)))
sys.path.insert(0, VERIF)
from selftest.run import copy_repo

def main():
    bad = 0
    for diff in sys.argv[1:]:
        scratch = tempfile.mkdtemp(prefix="bourse-ref-")
        try:
            copy_repo("/repo", scratch)
            r = subprocess.run("git init -q . && git apply %s" % os.path.abspath(diff), shell=True, cwd=scratch, capture_output=True, text=True)
            shutil.rmtree(os.path.join(scratch, ".git"), ignore_errors=True)
            if r.returncode != 0:
                print("SKIP %s: does not apply (%s)" % (diff, r.stderr.strip()[:100]))
                continue
            alarms = []
            for i in range(1, 21):
                p = "C%02d" % i
                c = subprocess.run([os.path.join(VERIF, "bin", "check"), p, "--repo", scratch], capture_output=True, text=True)
                if c.returncode != 0:
                    alarms.append((p, c.returncode, [l.strip()[:300] for l in (c.stdout + c.stderr).splitlines() if "violated" in l or "ERROR" in l or "Error" in l][:3]))
            if alarms:
                bad += 1
                print("ALARM %s" % diff)
                for a in alarms:
                    print("   ", a[0], "rc=%d" % a[1], a[2])
            else:
                print("silent %s" % diff)
        finally:
            shutil.rmtree(scratch, ignore_errors=True)
    return 1 if bad else 0

if __name__ == "__main__":
    sys.exit(main())
