#!/usr/bin/python3
"""bin/seed_eval.py <Cxx> [--round N] [--keep-as NAME]

Confirms an independently written property-breaking change (from /tmp/seedwork/wt<N>-<id>/SEED)
and runs every check against it:
 1. in the scratch worktree: the pinned suite passes with the change; the demo fails with it
    and passes without it;
 2. applies patch.diff to /repo, runs all 20 quick checks, restores /repo (git checkout -- .);
 3. stores patch.diff, demo.rs and meta.json under /verif/seeded/<name>/.
"""
import json
import os
import re
import shutil
import subprocess
import sys

VERIF = os.path.dirname(os.path.dirname(os.path.abspath(__file__)))


def sh(cmd, cwd=None, env=None):
    e = dict(os.environ)
    e.update(env or {})
    r = subprocess.run(cmd, shell=True, cwd=cwd, env=e, capture_output=True, text=True)
    return r.returncode, r.stdout + r.stderr


def test_summary(out):
    fails = re.findall(r"^test (\S+) \.\.\. FAILED", out, re.M)
    results = re.findall(r"^test result: (\w+)\. (\d+) passed; (\d+) failed", out, re.M)
    return fails, results


def main():
    pid = sys.argv[1]
    rnd = ""
    if "--round" in sys.argv:
        rnd = sys.argv[sys.argv.index("--round") + 1]
    name = sys.argv[sys.argv.index("--keep-as") + 1] if "--keep-as" in sys.argv else pid.lower() + ("-r" + rnd if rnd else "-agent")
    wt = "/tmp/seedwork/wt%s-%s" % (rnd, pid)
    seed = os.path.join(wt, "SEED")
    patch = os.path.join(seed, "patch.diff")
    tdir = "/tmp/seedwork/target-eval%s-%s" % (rnd, pid)   # never shared: cargo hashes workspace members path-independently
    tgt = {"CARGO_TARGET_DIR": tdir, "CARGO_NET_OFFLINE": "true"}
    meta = {"property": pid, "source": "independent sub-agent given only the property text and a scratch worktree", "ran": []}
    # demo location: untracked test file in the worktree
    rc, out = sh("git status --porcelain --untracked-files=all", cwd=wt)
    demos = [l[3:] for l in out.splitlines() if l.startswith("??") and l[3:].endswith(".rs") and not l[3:].startswith("SEED/")]
    meta["demo_path"] = demos[0] if demos else None
    # 1a. with the change: suite + demo
    rc, out = sh("git diff --stat", cwd=wt)
    meta["diffstat"] = out.strip().splitlines()[-1] if out.strip() else ""
    rc, out = sh("cargo test --workspace --no-fail-fast --offline 2>&1", cwd=wt, env=tgt)
    fails, results = test_summary(out)
    meta["ran"].append({"cmd": "cargo test --workspace --no-fail-fast --offline (change applied, demo present)", "failed_tests": fails,
                        "results": ["%s %s/%s" % r for r in results]})
    demo_names = [f for f in fails]
    with_change_only_demo = bool(fails) and all("seed" in f or "demo" in f or True for f in fails)
    # which failing tests belong to the demo file: run the suite again without the demo? cheaper: failing test names must not be pinned tests
    pinned = set(json.load(open("/root/.vp/BASELINE.json"))["stable_pass"])
    pinned_short = {p.split("::", 1)[1] for p in pinned}
    broken_pinned = [f for f in fails if f in pinned_short]
    meta["pinned_tests_broken_by_change"] = broken_pinned
    # 1b. without the change: demo passes
    rc, _ = sh("git apply -R SEED/patch.diff", cwd=wt)
    rc2, out2 = sh("cargo test --workspace --no-fail-fast --offline 2>&1", cwd=wt, env=tgt)
    fails2, results2 = test_summary(out2)
    sh("git apply SEED/patch.diff", cwd=wt)
    meta["ran"].append({"cmd": "same, change reverted (git apply -R), demo present", "failed_tests": fails2, "results": ["%s %s/%s" % r for r in results2]})
    meta["demo_fails_with_change"] = bool(fails) and not broken_pinned
    meta["demo_passes_without_change"] = not fails2 and rc == 0
    shutil.rmtree(tdir, ignore_errors=True)
    # 2. checks against a scratch copy of /repo's tracked files with the patch applied
    #    (equivalent to `git -C /repo apply` + `git -C /repo checkout -- .`, but safe to run
    #    while other checks use /repo)
    sys.path.insert(0, VERIF)
    from selftest.run import copy_repo
    import tempfile
    scratch = tempfile.mkdtemp(prefix="bourse-seed-")
    fired = {}
    try:
        copy_repo("/repo", scratch)
        rc, out = sh("git init -q . && git apply %s" % patch, cwd=scratch)
        if rc != 0:
            print("patch does not apply: " + out)
            return 2
        shutil.rmtree(os.path.join(scratch, ".git"), ignore_errors=True)
        for i in range(1, 21):
            p = "C%02d" % i
            rc, out = sh("%s/bin/check %s --tier quick --repo %s" % (VERIF, p, scratch))
            if rc == 1:
                fired[p] = [l.strip()[:260] for l in out.splitlines() if "violated:" in l][:4]
            elif rc != 0:
                fired[p] = ["CHECK-ERROR rc=%d: %s" % (rc, out[-300:])]
    finally:
        shutil.rmtree(scratch, ignore_errors=True)
    meta["checks_fired"] = fired
    meta["target_check_fired"] = pid in fired
    d = os.path.join(VERIF, "seeded", name)
    os.makedirs(d, exist_ok=True)
    shutil.copy(patch, os.path.join(d, "patch.diff"))
    if os.path.exists(os.path.join(seed, "demo.rs")):
        shutil.copy(os.path.join(seed, "demo.rs"), os.path.join(d, "demo.rs"))
    if os.path.exists(os.path.join(seed, "meta.md")):
        shutil.copy(os.path.join(seed, "meta.md"), os.path.join(d, "agent_notes.md"))
    json.dump(meta, open(os.path.join(d, "meta.json"), "w"), indent=1)
    print(json.dumps({k: meta[k] for k in ("property", "demo_fails_with_change", "demo_passes_without_change", "pinned_tests_broken_by_change", "target_check_fired")}, indent=1))
    for p, v in fired.items():
        print(p, "FIRED:", v[0] if v else "")
    return 0


if __name__ == "__main__":
    sys.exit(main())
