#!/bin/bash
# usage: extract.sh <repo-or-crate> <facts_out_dir> [--lib-only]  -- runs the fact extractor
set -u
REPO=$1; OUT=$2; MODE=${3:-}
T=$(mktemp -d /tmp/bourse-facts-target.XXXXXX)
trap 'rm -rf "$T"' EXIT
mkdir -p "$OUT"
cd "$REPO" || exit 2
ARGS="--locked --workspace --all-targets"
[ "$MODE" = "--lib-only" ] && ARGS="--lib"
LD_LIBRARY_PATH=$(rustc +nightly --print sysroot)/lib \
RUSTFLAGS="-Zmir-opt-level=0 -Awarnings" \
RUSTC_WORKSPACE_WRAPPER="$(cd "$(dirname "$0")/.." && pwd)/driver/target/release/bourse-facts" \
BOURSE_FACTS_DIR="$OUT" CARGO_TARGET_DIR="$T" CARGO_NET_OFFLINE=true \
cargo +nightly check --offline $ARGS > "$OUT/cargo.log" 2>&1
rc=$?
exit $rc
