#!/bin/bash
# usage: extract.sh <repo-or-crate> <facts_out_dir> [--lib-only]  -- runs the fact extractor
#
# The workspace's DEPENDENCIES (registry crates: pyo3, serde, syn, ...) do not change between extractions, so they are compiled
# once into a pooled target directory (keyed by Cargo.lock + driver + toolchain) under <verif>/.cache/deps and re-used.  The
# workspace MEMBERS are always re-checked under the driver: their fingerprints are deleted before every run (cargo's freshness
# cache would otherwise skip the wrapper), the facts directory is fresh, and the caller fails closed when an expected fact file is
# missing.  A pool slot is held under an exclusive lock for the duration of the run; parallel extractions take different slots.
set -u
REPO=$1; OUT=$2; MODE=${3:-}
VERIF="$(cd "$(dirname "$0")/.." && pwd)"
DRIVER="$VERIF/driver/target/release/bourse-facts"
mkdir -p "$OUT"
cd "$REPO" || exit 2
ARGS="--locked --workspace --all-targets"
[ "$MODE" = "--lib-only" ] && ARGS="--lib"

run_cargo() {   # $1 = target dir
  LD_LIBRARY_PATH=$(rustc +nightly --print sysroot)/lib \
  RUSTFLAGS="-Zmir-opt-level=0 -Awarnings" \
  RUSTC_WORKSPACE_WRAPPER="$DRIVER" \
  BOURSE_FACTS_DIR="$OUT" CARGO_TARGET_DIR="$1" CARGO_NET_OFFLINE=true \
  cargo +nightly check --offline $ARGS > "$OUT/cargo.log" 2>&1
}

POOL="$VERIF/.cache/deps"
if [ "${BOURSE_NO_DEPS_POOL:-}" = "1" ] || [ ! -f Cargo.lock ] || ! mkdir -p "$POOL" 2>/dev/null; then
  T=$(mktemp -d /tmp/bourse-facts-target.XXXXXX)
  trap 'rm -rf "$T"' EXIT
  run_cargo "$T"
  exit $?
fi

KEY=$( (cat Cargo.lock; sha256sum "$DRIVER"; rustc +nightly --version; echo "$ARGS") | sha256sum | cut -c1-16)
NSLOTS=${BOURSE_DEPS_SLOTS:-8}
SLOT=""
for round in 1 2; do
  for i in $(seq 1 "$NSLOTS"); do
    L="$POOL/$KEY-$i.lock"
    exec 9>"$L"
    if [ "$round" = 1 ]; then flock -n 9 || { exec 9>&-; continue; }; else flock 9; fi
    SLOT="$POOL/$KEY-$i"; break
  done
  [ -n "$SLOT" ] && break
done
[ -z "$SLOT" ] && exit 3
[ -e "$SLOT" ] && [ ! -d "$SLOT" ] && rm -f "$SLOT"
mkdir -p "$SLOT"
# workspace members are never fresh: drop their fingerprints and metadata (names from the workspace itself)
MEMBERS=$(cargo metadata --no-deps --offline --format-version 1 2>/dev/null | python3 -c "
import sys, json
try:
    m = json.load(sys.stdin)
    print(' '.join(sorted({p['name'] for p in m['packages']})))
except Exception:
    pass")
if [ -z "$MEMBERS" ]; then rm -rf "$SLOT"; mkdir -p "$SLOT"; fi
for n in $MEMBERS; do
  u=${n//-/_}
  rm -rf "$SLOT"/debug/.fingerprint/"$n"-* "$SLOT"/debug/deps/lib"$u"-* "$SLOT"/debug/deps/"$u"-* "$SLOT"/debug/incremental/"$u"-* 2>/dev/null
done
rm -rf "$SLOT"/debug/incremental 2>/dev/null
run_cargo "$SLOT"
rc=$?
# keep the pool small: drop slots of OTHER keys that nobody holds and nobody used for two hours (lock files are never unlinked,
# so a lock always refers to one inode)
find "$POOL" -maxdepth 1 -mindepth 1 -type d -mmin +120 2>/dev/null | while read -r d; do
  case "$d" in "$POOL/$KEY"-*) continue;; esac
  ( exec 8>"$d.lock"; flock -n 8 && rm -rf "$d" ) 2>/dev/null
done
[ -d "$SLOT" ] && touch "$SLOT" 2>/dev/null
exit $rc
