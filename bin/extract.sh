#!/bin/bash
# usage: extract.sh <repo> <facts_out_dir>   -- runs the fact extractor over the workspace
set -u
REPO=$1; OUT=$2
T=$(mktemp -d /tmp/bourse-facts-target.XXXXXX)
trap 'rm -rf "$T"' EXIT
mkdir -p "$OUT"
cd "$REPO" || exit 2
LD_LIBRARY_PATH=$(rustc +nightly --print sysroot)/lib \
RUSTFLAGS="-Zmir-opt-level=0 -Awarnings" \
RUSTC_WORKSPACE_WRAPPER=/verif/driver/target/release/bourse-facts \
BOURSE_FACTS_DIR="$OUT" CARGO_TARGET_DIR="$T" CARGO_NET_OFFLINE=true \
cargo +nightly check --offline --locked --workspace --all-targets > "$OUT/cargo.log" 2>&1
rc=$?
exit $rc
