// bourse-facts: rustc_private fact extractor.
//
// Injected with RUSTC_WORKSPACE_WRAPPER under `cargo +nightly check`.  For every
// workspace crate it writes ONE json file (one write per rustc process) into
// $BOURSE_FACTS_DIR describing every local MIR body, ADT and trait impl.  No bourse
// code is executed; the output is a serialisation of the type-checked program.
#![feature(rustc_private)]
#![allow(deprecated)]
#![allow(unused_imports)]

extern crate rustc_abi;
extern crate rustc_ast;
extern crate rustc_driver;
extern crate rustc_hir;
extern crate rustc_interface;
extern crate rustc_middle;
extern crate rustc_session;
extern crate rustc_span;

use rustc_abi::{FieldIdx, VariantIdx, FIRST_VARIANT};
use rustc_driver::Compilation;
use rustc_hir::def::DefKind;
use rustc_hir::def_id::{DefId, LOCAL_CRATE};

use rustc_middle::mir::*;
use rustc_middle::ty::{self, Ty, TyCtxt};
use rustc_span::{ExpnKind, Span};
use std::fmt::Write as _;

// ---------------------------------------------------------------- tiny json builder

fn js(s: &str) -> String {
    let mut o = String::with_capacity(s.len() + 2);
    o.push('"');
    for c in s.chars() {
        match c {
            '"' => o.push_str("\\\""),
            '\\' => o.push_str("\\\\"),
            '\n' => o.push_str("\\n"),
            '\r' => o.push_str("\\r"),
            '\t' => o.push_str("\\t"),
            c if (c as u32) < 0x20 => {
                let _ = write!(o, "\\u{:04x}", c as u32);
            }
            c => o.push(c),
        }
    }
    o.push('"');
    o
}

fn obj(pairs: Vec<(&str, String)>) -> String {
    let mut o = String::from("{");
    let mut first = true;
    for (k, v) in pairs {
        if !first {
            o.push(',');
        }
        first = false;
        o.push_str(&js(k));
        o.push(':');
        o.push_str(&v);
    }
    o.push('}');
    o
}

fn arr(items: Vec<String>) -> String {
    let mut o = String::from("[");
    o.push_str(&items.join(","));
    o.push(']');
    o
}

fn jb(b: bool) -> String {
    if b { "true".into() } else { "false".into() }
}

fn jn<T: std::fmt::Display>(n: T) -> String {
    format!("{}", n)
}

// ---------------------------------------------------------------- context

struct Cx<'tcx> {
    tcx: TyCtxt<'tcx>,
    krate: String,
}

impl<'tcx> Cx<'tcx> {
    fn fix(&self, s: String) -> String {
        // `with_crate_prefix!` prints local paths as `crate::…`; make them global.
        s.replace("crate::", &format!("{}::", self.krate))
    }

    fn path(&self, d: DefId) -> String {
        self.fix(self.tcx.def_path_str(d))
    }

    /// crate-qualified definition path: identical from every crate (no re-export sugar)
    fn dp(&self, d: DefId) -> String {
        format!("{}{}", self.tcx.crate_name(d.krate), self.tcx.def_path(d).to_string_no_crate_verbose())
    }

    fn tys(&self, t: Ty<'tcx>) -> String {
        self.fix(format!("{}", t))
    }

    fn span(&self, sp: Span) -> String {
        let sm = self.tcx.sess.source_map();
        let outer = sp.source_callsite();
        let lo = sm.lookup_char_pos(outer.lo());
        let hi = sm.lookup_char_pos(outer.hi());
        let file = format!("{}", lo.file.name.prefer_local_unconditionally());
        let exp = match sp.ctxt().outer_expn_data().kind {
            ExpnKind::Root => String::new(),
            ExpnKind::Macro(_, name) => format!("macro:{}", name),
            ExpnKind::AstPass(_) => "astpass".to_string(),
            ExpnKind::Desugaring(k) => format!("desugar:{:?}", k),
        };
        // whole macro backtrace (innermost first), e.g. "assert>debug_assert"
        let chain: Vec<String> = sp
            .macro_backtrace()
            .filter_map(|d| match d.kind {
                ExpnKind::Macro(_, name) => Some(format!("{}", name)),
                _ => None,
            })
            .collect();
        obj(vec![
            ("file", js(&file)),
            ("line", jn(lo.line)),
            ("col", jn(lo.col.0 + 1)),
            ("eline", jn(hi.line)),
            ("exp", js(&exp)),
            ("expc", js(&chain.join(">"))),
        ])
    }

    fn docs(&self, d: DefId) -> String {
        let mut out = String::new();
        for a in self.tcx.get_all_attrs(d) {
            if let Some(s) = a.doc_str() {
                out.push_str(s.as_str());
                out.push('\n');
            }
        }
        out
    }

    fn attr_snippets(&self, d: DefId) -> Vec<String> {
        let sm = self.tcx.sess.source_map();
        let mut v = vec![];
        for a in self.tcx.get_all_attrs(d) {
            if a.doc_str().is_some() {
                continue;
            }
            match a {
                rustc_hir::Attribute::Unparsed(n) => {
                    let sp = n.span;
                    match sm.span_to_snippet(sp) {
                        Ok(s) => v.push(js(&s)),
                        Err(_) => v.push(js(&format!("{:?}", n.path))),
                    }
                }
                other => {
                    let mut s = format!("{:?}", other);
                    s.truncate(200);
                    v.push(js(&format!("parsed:{}", s)));
                }
            }
        }
        v
    }

    // ------------------------------------------------------------ places / operands

    fn field_name(&self, pty: PlaceTy<'tcx>, f: FieldIdx) -> (String, String) {
        match pty.ty.kind() {
            ty::Adt(adt, _) => {
                let v = pty.variant_index.unwrap_or(FIRST_VARIANT);
                let name = if adt.is_enum() || adt.is_struct() || adt.is_union() {
                    let var = adt.variant(v);
                    if f.as_usize() < var.fields.len() {
                        var.fields[f].name.to_string()
                    } else {
                        f.as_usize().to_string()
                    }
                } else {
                    f.as_usize().to_string()
                };
                (name, self.path(adt.did()))
            }
            ty::Closure(def_id, _) => {
                let mut name = f.as_usize().to_string();
                if let Some(l) = def_id.as_local() {
                    let caps = self.tcx.closure_captures(l);
                    if f.as_usize() < caps.len() {
                        name = caps[f.as_usize()].to_string(self.tcx);
                    }
                }
                (name, "closure".to_string())
            }
            ty::Tuple(_) => (f.as_usize().to_string(), "tuple".to_string()),
            _ => (f.as_usize().to_string(), String::new()),
        }
    }

    fn place(&self, body: &Body<'tcx>, p: Place<'tcx>) -> String {
        let mut pty = PlaceTy::from_ty(body.local_decls[p.local].ty);
        let mut projs = vec![];
        for elem in p.projection.iter() {
            let j = match elem {
                ProjectionElem::Deref => obj(vec![("k", js("deref"))]),
                ProjectionElem::Field(f, fty) => {
                    let (name, on) = self.field_name(pty, f);
                    obj(vec![
                        ("k", js("field")),
                        ("i", jn(f.as_usize())),
                        ("n", js(&name)),
                        ("on", js(&on)),
                        ("ty", js(&self.tys(fty))),
                    ])
                }
                ProjectionElem::Index(l) => obj(vec![("k", js("index")), ("l", jn(l.as_usize()))]),
                ProjectionElem::ConstantIndex { offset, from_end, .. } => obj(vec![
                    ("k", js("cindex")),
                    ("i", jn(offset)),
                    ("from_end", jb(from_end)),
                ]),
                ProjectionElem::Subslice { from, to, from_end } => obj(vec![
                    ("k", js("subslice")),
                    ("from", jn(from)),
                    ("to", jn(to)),
                    ("from_end", jb(from_end)),
                ]),
                ProjectionElem::Downcast(name, vi) => {
                    let n = match name {
                        Some(s) => s.to_string(),
                        None => match pty.ty.kind() {
                            ty::Adt(adt, _) if adt.is_enum() => adt.variant(vi).name.to_string(),
                            _ => vi.as_usize().to_string(),
                        },
                    };
                    obj(vec![("k", js("downcast")), ("n", js(&n)), ("vi", jn(vi.as_usize()))])
                }
                _ => obj(vec![("k", js("other")), ("s", js(&format!("{:?}", elem)))]),
            };
            projs.push(j);
            pty = pty.projection_ty(self.tcx, elem);
        }
        obj(vec![("l", jn(p.local.as_usize())), ("p", arr(projs)), ("ty", js(&self.tys(pty.ty)))])
    }

    fn constant(&self, owner: DefId, c: &ConstOperand<'tcx>) -> String {
        let ty = c.const_.ty();
        let mut pairs = vec![("k", js("const")), ("ty", js(&self.tys(ty)))];
        if let ty::FnDef(def_id, args) = ty.kind() {
            pairs.push(("fn", js(&self.path(*def_id))));
            pairs.push(("fn_dp", js(&self.dp(*def_id))));
            pairs.push(("gargs", arr(args.iter().map(|a| js(&self.fix(format!("{}", a)))).collect())));
            return obj(pairs);
        }
        if let Const::Unevaluated(uv, _) = c.const_ {
            if let Some(p) = uv.promoted {
                pairs.push(("promoted", jn(p.as_usize())));
                return obj(pairs);
            }
        }
        let env = ty::TypingEnv::post_analysis(self.tcx, owner);
        let scalar_ok = matches!(
            ty.kind(),
            ty::Bool | ty::Char | ty::Int(_) | ty::Uint(_) | ty::Float(_)
        );
        if scalar_ok {
            if let Some(si) = c.const_.try_eval_scalar_int(self.tcx, env) {
                let bits: u128 = si.to_bits_unchecked();
                pairs.push(("bits", js(&bits.to_string())));
            }
        }
        // a named constant of tuple type with scalar fields (`const EMPTY: (u32, u32) = (0, 0)`): its field values
        if let ty::Tuple(tys) = ty.kind() {
            if !tys.is_empty() && tys.iter().all(|t| matches!(t.kind(), ty::Bool | ty::Char | ty::Int(_) | ty::Uint(_))) {
                if let Ok(val) = c.const_.eval(self.tcx, env, c.span) {
                    if let Some(d) = self.tcx.try_destructure_mir_constant_for_user_output(val, ty) {
                        let mut fs: Vec<String> = Vec::new();
                        for (fv, fty) in d.fields.iter() {
                            if let Some(si) = fv.try_to_scalar_int() {
                                let bits: u128 = si.to_bits_unchecked();
                                fs.push(obj(vec![("ty", js(&self.tys(*fty))), ("bits", js(&bits.to_string()))]));
                            }
                        }
                        if fs.len() == tys.len() {
                            pairs.push(("tuple", arr(fs)));
                        }
                    }
                }
            }
        }
        pairs.push(("s", js(&self.fix(format!("{}", c.const_)))));
        obj(pairs)
    }

    fn operand(&self, owner: DefId, body: &Body<'tcx>, o: &Operand<'tcx>) -> String {
        match o {
            Operand::Copy(p) => obj(vec![("k", js("copy")), ("pl", self.place(body, *p))]),
            Operand::Move(p) => obj(vec![("k", js("move")), ("pl", self.place(body, *p))]),
            Operand::Constant(c) => self.constant(owner, c),
            #[allow(unreachable_patterns)]
            _ => obj(vec![("k", js("other")), ("s", js(&format!("{:?}", o)))]),
        }
    }

    fn rvalue(&self, owner: DefId, body: &Body<'tcx>, rv: &Rvalue<'tcx>) -> String {
        match rv {
            Rvalue::Use(o, ..) => obj(vec![("k", js("use")), ("o", self.operand(owner, body, o))]),
            Rvalue::CopyForDeref(p) => obj(vec![
                ("k", js("use")),
                ("o", obj(vec![("k", js("copy")), ("pl", self.place(body, *p))])),
            ]),
            Rvalue::Ref(_, bk, p) => obj(vec![
                ("k", js("ref")),
                ("mut", jb(matches!(bk, BorrowKind::Mut { .. }))),
                ("pl", self.place(body, *p)),
            ]),
            Rvalue::RawPtr(_, p) => obj(vec![("k", js("rawptr")), ("pl", self.place(body, *p))]),
            Rvalue::BinaryOp(op, ab) => obj(vec![
                ("k", js("bin")),
                ("op", js(&format!("{:?}", op))),
                ("a", self.operand(owner, body, &ab.0)),
                ("b", self.operand(owner, body, &ab.1)),
            ]),
            Rvalue::UnaryOp(op, a) => obj(vec![
                ("k", js("un")),
                ("op", js(&format!("{:?}", op))),
                ("a", self.operand(owner, body, a)),
            ]),
            Rvalue::Cast(kind, o, ty) => obj(vec![
                ("k", js("cast")),
                ("ck", js(&format!("{:?}", kind))),
                ("o", self.operand(owner, body, o)),
                ("ty", js(&self.tys(*ty))),
            ]),
            Rvalue::Discriminant(p) => obj(vec![("k", js("discr")), ("pl", self.place(body, *p))]),
            Rvalue::Repeat(o, n) => obj(vec![
                ("k", js("repeat")),
                ("o", self.operand(owner, body, o)),
                ("n", js(&format!("{}", n))),
            ]),
            Rvalue::Aggregate(kind, ops) => {
                let opsj: Vec<String> = ops.iter().map(|o| self.operand(owner, body, o)).collect();
                let mut pairs = vec![("k", js("agg"))];
                match &**kind {
                    AggregateKind::Array(t) => {
                        pairs.push(("ak", js("array")));
                        pairs.push(("ety", js(&self.tys(*t))));
                    }
                    AggregateKind::Tuple => pairs.push(("ak", js("tuple"))),
                    AggregateKind::Adt(did, vi, _, _, active) => {
                        pairs.push(("ak", js("adt")));
                        pairs.push(("adt", js(&self.path(*did))));
                        let adt = self.tcx.adt_def(*did);
                        let var = adt.variant(*vi);
                        pairs.push(("variant", js(&var.name.to_string())));
                        let names: Vec<String> = if let Some(a) = active {
                            vec![js(&var.fields[*a].name.to_string())]
                        } else {
                            var.fields.iter().map(|f| js(&f.name.to_string())).collect()
                        };
                        pairs.push(("fields", arr(names)));
                    }
                    AggregateKind::Closure(did, _) => {
                        pairs.push(("ak", js("closure")));
                        pairs.push(("closure", js(&self.path(*did))));
                        pairs.push(("closure_dp", js(&self.dp(*did))));
                        let mut names = vec![];
                        if let Some(l) = did.as_local() {
                            for c in self.tcx.closure_captures(l) {
                                names.push(js(&c.to_string(self.tcx)));
                            }
                        }
                        pairs.push(("fields", arr(names)));
                    }
                    other => {
                        pairs.push(("ak", js("other")));
                        pairs.push(("s", js(&format!("{:?}", other))));
                    }
                }
                pairs.push(("ops", arr(opsj)));
                obj(pairs)
            }
            other => obj(vec![("k", js("other")), ("s", js(&format!("{:?}", other)))]),
        }
    }

    fn assert_kind(&self, m: &AssertMessage<'tcx>) -> String {
        match m {
            AssertKind::BoundsCheck { .. } => "BoundsCheck".into(),
            AssertKind::Overflow(op, ..) => format!("Overflow({:?})", op),
            AssertKind::OverflowNeg(..) => "OverflowNeg".into(),
            AssertKind::DivisionByZero(..) => "DivisionByZero".into(),
            AssertKind::RemainderByZero(..) => "RemainderByZero".into(),
            _ => "Other".into(),
        }
    }

    fn terminator(&self, owner: DefId, body: &Body<'tcx>, t: &Terminator<'tcx>) -> String {
        let sp = self.span(t.source_info.span);
        let bbn = |b: BasicBlock| jn(b.as_usize());
        let unw = |u: &UnwindAction| match u {
            UnwindAction::Cleanup(b) => jn(b.as_usize()),
            _ => "null".to_string(),
        };
        match &t.kind {
            TerminatorKind::Goto { target } => {
                obj(vec![("k", js("goto")), ("t", bbn(*target)), ("sp", sp)])
            }
            TerminatorKind::SwitchInt { discr, targets } => {
                let mut ts = vec![];
                for (v, b) in targets.iter() {
                    ts.push(arr(vec![js(&v.to_string()), bbn(b)]));
                }
                obj(vec![
                    ("k", js("switch")),
                    ("d", self.operand(owner, body, discr)),
                    ("dty", js(&self.tys(discr.ty(body, self.tcx)))),
                    ("ts", arr(ts)),
                    ("o", bbn(targets.otherwise())),
                    ("sp", sp),
                ])
            }
            TerminatorKind::Return => obj(vec![("k", js("return")), ("sp", sp)]),
            TerminatorKind::Unreachable => obj(vec![("k", js("unreachable")), ("sp", sp)]),
            TerminatorKind::UnwindResume => obj(vec![("k", js("resume")), ("sp", sp)]),
            TerminatorKind::Drop { place, target, unwind, .. } => obj(vec![
                ("k", js("drop")),
                ("pl", self.place(body, *place)),
                ("t", bbn(*target)),
                ("u", unw(unwind)),
                ("sp", sp),
            ]),
            TerminatorKind::Assert { cond, expected, msg, target, unwind } => obj(vec![
                ("k", js("assert")),
                ("c", self.operand(owner, body, cond)),
                ("e", jb(*expected)),
                ("m", js(&self.assert_kind(msg))),
                ("t", bbn(*target)),
                ("u", unw(unwind)),
                ("sp", sp),
            ]),
            TerminatorKind::Call { func, args, destination, target, unwind, .. } => {
                let mut pairs = vec![("k", js("call"))];
                pairs.push(("f", self.operand(owner, body, func)));
                let fty = func.ty(body, self.tcx);
                if let ty::FnDef(def_id, gargs) = fty.kind() {
                    pairs.push(("callee", js(&self.path(*def_id))));
                    pairs.push(("callee_dp", js(&self.dp(*def_id))));
                    pairs.push(("callee_local", jb(def_id.is_local())));
                    pairs.push(("callee_crate", js(self.tcx.crate_name(def_id.krate).as_str())));
                    pairs.push(("callee_name", js(self.tcx.item_name(*def_id).as_str())));
                    let formals: Vec<String> = self
                        .tcx
                        .fn_arg_idents(*def_id)
                        .iter()
                        .map(|i| match i {
                            Some(id) => js(id.name.as_str()),
                            None => js("_"),
                        })
                        .collect();
                    pairs.push(("formals", arr(formals)));
                    let env = ty::TypingEnv::post_analysis(self.tcx, owner);
                    if let Ok(Some(inst)) = ty::Instance::try_resolve(self.tcx, env, *def_id, gargs) {
                        let rd = inst.def_id();
                        pairs.push(("resolved", js(&self.path(rd))));
                        pairs.push(("resolved_dp", js(&self.dp(rd))));
                        pairs.push(("resolved_local", jb(rd.is_local())));
                        pairs.push((
                            "resolved_kind",
                            js(match inst.def {
                                ty::InstanceKind::Item(_) => "item",
                                ty::InstanceKind::Virtual(..) => "virtual",
                                ty::InstanceKind::Intrinsic(_) => "intrinsic",
                                _ => "shim",
                            }),
                        ));
                    }
                    if let Some(tr) = self.tcx.trait_of_assoc(*def_id) {
                        pairs.push(("trait", js(&self.path(tr))));
                    }
                }
                let argsj: Vec<String> =
                    args.iter().map(|a| self.operand(owner, body, &a.node)).collect();
                pairs.push(("args", arr(argsj)));
                pairs.push(("dest", self.place(body, *destination)));
                pairs.push(("t", match target { Some(b) => bbn(*b), None => "null".into() }));
                pairs.push(("u", unw(unwind)));
                pairs.push(("sp", sp));
                obj(pairs)
            }
            other => obj(vec![
                ("k", js("other")),
                ("s", js(&format!("{:?}", other))),
                ("succ", arr(t.successors().map(|b| bbn(b)).collect())),
                ("sp", sp),
            ]),
        }
    }

    fn body(&self, owner: DefId, body: &Body<'tcx>) -> Vec<(&'static str, String)> {
        let mut locals = vec![];
        for (l, d) in body.local_decls.iter_enumerated() {
            locals.push(obj(vec![
                ("i", jn(l.as_usize())),
                ("ty", js(&self.tys(d.ty))),
                ("mut", jb(d.mutability.is_mut())),
            ]));
        }
        let mut dbg = vec![];
        for v in body.var_debug_info.iter() {
            if let VarDebugInfoContents::Place(p) = v.value {
                dbg.push(obj(vec![
                    ("name", js(v.name.as_str())),
                    ("pl", self.place(body, p)),
                    ("arg", match v.argument_index { Some(i) => jn(i), None => "null".into() }),
                ]));
            }
        }
        let mut blocks = vec![];
        for (bb, data) in body.basic_blocks.iter_enumerated() {
            let mut stmts = vec![];
            for s in data.statements.iter() {
                match &s.kind {
                    StatementKind::Assign(b) => {
                        let (pl, rv) = &**b;
                        stmts.push(obj(vec![
                            ("k", js("assign")),
                            ("pl", self.place(body, *pl)),
                            ("rv", self.rvalue(owner, body, rv)),
                            ("sp", self.span(s.source_info.span)),
                        ]));
                    }
                    StatementKind::SetDiscriminant { place, variant_index } => {
                        stmts.push(obj(vec![
                            ("k", js("setdiscr")),
                            ("pl", self.place(body, **place)),
                            ("vi", jn(variant_index.as_usize())),
                            ("sp", self.span(s.source_info.span)),
                        ]));
                    }
                    _ => {}
                }
            }
            let term = match &data.terminator {
                Some(t) => self.terminator(owner, body, t),
                None => "null".to_string(),
            };
            blocks.push(obj(vec![
                ("i", jn(bb.as_usize())),
                ("cleanup", jb(data.is_cleanup)),
                ("stmts", arr(stmts)),
                ("term", term),
            ]));
        }
        vec![
            ("arg_count", jn(body.arg_count)),
            ("locals", arr(locals)),
            ("debug", arr(dbg)),
            ("blocks", arr(blocks)),
        ]
    }

    fn function(&self, def_id: DefId) -> Option<String> {
        let tcx = self.tcx;
        let kind = tcx.def_kind(def_id);
        if !tcx.is_mir_available(def_id) {
            return None;
        }
        let body = tcx.optimized_mir(def_id);
        let mut pairs: Vec<(&str, String)> = vec![];
        pairs.push(("path", js(&self.path(def_id))));
        pairs.push(("dp", js(&self.dp(def_id))));
        pairs.push(("kind", js(&format!("{:?}", kind))));
        let name = match kind {
            DefKind::Closure => "{closure}".to_string(),
            _ => tcx.item_name(def_id).to_string(),
        };
        pairs.push(("name", js(&name)));
        pairs.push(("span", self.span(tcx.def_span(def_id))));
        let root = tcx.typeck_root_def_id(def_id);
        pairs.push(("root", js(&self.path(root))));
        if matches!(kind, DefKind::Fn | DefKind::AssocFn) {
            pairs.push(("pub", jb(tcx.visibility(def_id).is_public())));
            let sig = tcx.fn_sig(def_id).instantiate_identity().skip_norm_wip();
            pairs.push(("sig", js(&self.fix(format!("{}", sig)))));
            let formals: Vec<String> = tcx
                .fn_arg_idents(def_id)
                .iter()
                .map(|i| match i {
                    Some(id) => js(id.name.as_str()),
                    None => js("_"),
                })
                .collect();
            pairs.push(("params", arr(formals)));
            pairs.push(("doc", js(&self.docs(def_id))));
            pairs.push(("attrs", arr(self.attr_snippets(def_id))));
        }
        if kind == DefKind::AssocFn {
            let parent = tcx.parent(def_id);
            if let DefKind::Impl { of_trait } = tcx.def_kind(parent) {
                let self_ty = tcx.type_of(parent).instantiate_identity().skip_norm_wip();
                pairs.push(("impl_self", js(&self.tys(self_ty))));
                if let ty::Adt(adt, _) = self_ty.kind() {
                    pairs.push(("impl_adt", js(&self.path(adt.did()))));
                }
                if of_trait {
                    let tr = tcx.impl_trait_ref(parent).instantiate_identity().skip_norm_wip();
                    pairs.push(("impl_trait", js(&self.path(tr.def_id))));
                }
            } else if let DefKind::Trait = tcx.def_kind(parent) {
                pairs.push(("in_trait", js(&self.path(parent))));
            }
        }
        pairs.extend(self.body(def_id, body));
        let mut proms = vec![];
        for p in tcx.promoted_mir(def_id).iter() {
            proms.push(obj(self.body(def_id, p)));
        }
        pairs.push(("promoted", arr(proms)));
        Some(obj(pairs))
    }

    fn adt(&self, def_id: DefId) -> String {
        let tcx = self.tcx;
        let adt = tcx.adt_def(def_id);
        let mut variants = vec![];
        for (vi, v) in adt.variants().iter_enumerated() {
            let mut fields = vec![];
            for f in v.fields.iter() {
                let fty = tcx.type_of(f.did).instantiate_identity().skip_norm_wip();
                fields.push(obj(vec![
                    ("name", js(&f.name.to_string())),
                    ("ty", js(&self.tys(fty))),
                    ("pub", jb(f.vis.is_public())),
                    ("attrs", arr(self.attr_snippets(f.did))),
                    ("doc", js(&self.docs(f.did))),
                ]));
            }
            let discr = if adt.is_enum() { adt.discriminant_for_variant(tcx, vi).val.to_string() } else { String::from("0") };
            variants.push(obj(vec![
                ("name", js(&v.name.to_string())),
                ("idx", jn(vi.as_usize())),
                ("discr", js(&discr)),
                ("fields", arr(fields)),
            ]));
        }
        obj(vec![
            ("path", js(&self.path(def_id))),
            ("kind", js(if adt.is_enum() { "enum" } else if adt.is_union() { "union" } else { "struct" })),
            ("pub", jb(tcx.visibility(def_id).is_public())),
            ("attrs", arr(self.attr_snippets(def_id))),
            ("doc", js(&self.docs(def_id))),
            ("span", self.span(tcx.def_span(def_id))),
            ("variants", arr(variants)),
        ])
    }
}

fn dump(tcx: TyCtxt<'_>) {
    let dir = match std::env::var("BOURSE_FACTS_DIR") {
        Ok(d) => d,
        Err(_) => return,
    };
    let krate = tcx.crate_name(LOCAL_CRATE).to_string();
    let cx = Cx { tcx, krate: krate.clone() };
    let is_test = tcx.sess.opts.test;
    let crate_types: Vec<String> =
        tcx.crate_types().iter().map(|c| js(&format!("{:?}", c))).collect();

    let mut fns = vec![];
    let mut adts = vec![];
    let mut impls = vec![];
    let mut statics = vec![];
    for ldid in tcx.hir_body_owners() {
        let def_id = ldid.to_def_id();
        if let DefKind::Fn | DefKind::AssocFn | DefKind::Closure = tcx.def_kind(def_id) {
            if let Some(f) = cx.function(def_id) {
                fns.push(f);
            }
        }
    }
    let items = tcx.hir_crate_items(());
    for ldid in items.definitions() {
        let def_id = ldid.to_def_id();
        match tcx.def_kind(def_id) {
            DefKind::Struct | DefKind::Enum | DefKind::Union => adts.push(cx.adt(def_id)),
            DefKind::Impl { of_trait: true } => {
                let tr = tcx.impl_trait_ref(def_id).instantiate_identity().skip_norm_wip();
                let self_ty = tcx.type_of(def_id).instantiate_identity().skip_norm_wip();
                impls.push(obj(vec![
                    ("trait", js(&cx.path(tr.def_id))),
                    ("self", js(&cx.tys(self_ty))),
                    ("span", cx.span(tcx.def_span(def_id))),
                ]));
            }
            DefKind::Static { .. } => {
                let t = tcx.type_of(def_id).instantiate_identity().skip_norm_wip();
                statics.push(obj(vec![("path", js(&cx.path(def_id))), ("ty", js(&cx.tys(t)))]));
            }
            _ => {}
        }
    }

    let src = format!("{}", tcx.sess.local_crate_source_file().and_then(|f| f.local_path().map(|p| p.display().to_string())).unwrap_or_default());
    let out = obj(vec![
        ("crate", js(&krate)),
        ("is_test", jb(is_test)),
        ("crate_types", arr(crate_types)),
        ("src", js(&src)),
        ("fns", arr(fns)),
        ("adts", arr(adts)),
        ("impls", arr(impls)),
        ("statics", arr(statics)),
    ]);
    // one file per rustc process; name made unique by crate, kind and pid
    let kind = if is_test { "test" } else { "lib" };
    let stem = std::path::Path::new(&src)
        .file_stem()
        .map(|s| s.to_string_lossy().to_string())
        .unwrap_or_default();
    let fname = format!("{}/{}.{}.{}.{}.json", dir, krate, stem, kind, std::process::id());
    let tmp = format!("{}.tmp", fname);
    std::fs::write(&tmp, out).expect("write facts");
    std::fs::rename(&tmp, &fname).expect("rename facts");
}

struct Cb;

impl rustc_driver::Callbacks for Cb {
    fn after_analysis<'tcx>(
        &mut self,
        _compiler: &rustc_interface::interface::Compiler,
        tcx: TyCtxt<'tcx>,
    ) -> Compilation {
        ty::print::with_no_trimmed_paths!(ty::print::with_crate_prefix!(dump(tcx)));
        Compilation::Continue
    }
}

fn main() {
    let mut args: Vec<String> = std::env::args().collect();
    // RUSTC_WORKSPACE_WRAPPER protocol: argv[1] is the real rustc; drop it.
    if args.len() > 1 && (args[1].ends_with("rustc") || args[1].contains("/rustc")) {
        args.remove(1);
    }
    rustc_driver::run_compiler(&args, &mut Cb);
}
