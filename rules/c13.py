"""C13 – while trading is disabled nothing trades; market orders are rejected (DESIGN.md §4 C13)."""
from analysis.origin import render, field_chain, walk
from analysis.typestate import same
from .model import Model, fld, status_const, opposite
from .c04 import run_typestate

LEVEL = "other"
MIN_OBLIGATIONS = 25
EXPLANATION = (
    "Flag dominance on the call graph: on every call chain from a public OrderBook entry to the trade writer some call "
    "site is control-dependent on the true outcome of a test of the book's trading field. On the false outcome a market "
    "order gets Rejected + end_time and the effect set of that slice is exactly those two fields; limit placement and "
    "replacement skip only the matching call (typestate: the order is still queued Active). The flag's only writers are "
    "enable/disable (constants) which write nothing else; no second bool field exists on book/market/environments; the "
    "Market/Env/MarketEnv toggles fan out to every book with no iterator adapter and to the same-named toggle. After "
    "re-enabling, matching is the usual path (the same guarded calls).")


def trading_true(m, atoms):
    return any(a[0] == "bool" and a[2] is True and fld(a[1], m.f_trading) and field_chain(a[1])[0][0] == "param" for a in atoms)


def trading_false(m, atoms):
    return any(a[0] == "bool" and a[2] is False and fld(a[1], m.f_trading) and field_chain(a[1])[0][0] == "param" for a in atoms)


def run(ctx):
    m = Model(ctx)
    tw = m.trade_writers()
    if len(tw) != 1:
        ctx.lost("dominance", "expected one trade writer, found %d" % len(tw))
        return
    twf = tw[0][0]
    # ---------------------------------------------------------------- flag dominance on call chains
    n_chains = 0
    for root in m.book_pub_fns():
        chains = m.w.call_chains(root, lambda f: f.path == twf.path)
        for ch in chains:
            n_chains += 1
            guarded = [(q, c) for (q, c) in ch if trading_true(m, c.guards)]
            path = " -> ".join([root.name] + [c.name for (_q, c) in ch])
            ctx.check(bool(guarded), "dominance", "chain|" + path, ch[-1][1].loc(),
                      "chain %s: call `%s` is guarded by trading == true" % (path, guarded[0][1].name if guarded else "?"),
                      "a trade can be written with trading disabled: no call on the chain %s is guarded by the trading flag" % path)
    ctx.check(n_chains >= 6, "dominance", "census", "-", "%d call chains from public entries to the trade writer" % n_chains)
    # every call of a matching loop is guarded (the loops are the only callers of the trade writer)
    matchers = {f.path: s for (f, s, _c) in m.matchers()}
    n = 0
    for f in m.book_all_fns():
        q = m.q(f)
        for c in q.calls():
            if c.target is not None and c.target.path in matchers:
                n += 1
                ctx.check(trading_true(m, c.guards), "dominance", "matcher-call|%s|%s" % (f.short(), c.name), c.loc(),
                          "matching call %s is control-dependent on trading == true" % c.name, "matching call %s in %s is not guarded by the trading flag" % (c.name, f.short()))
    ctx.check(n >= 6, "dominance", "matcher-calls", "-", "%d matching-loop call sites" % n)
    callers = {f.path for f in m.book_all_fns() for c in m.q(f).calls(twf.name) if c.target is not None and c.target.path == twf.path}
    ctx.check(callers <= set(matchers), "dominance", "writer-callers", "-", "the trade writer is called only from the matching loops",
              "the trade writer is also called from %s" % sorted(callers - set(matchers)))

    # ---------------------------------------------------------------- false outcome
    summ_sites = {}
    place = m.book_fn("place_order")
    pq = m.q(place)
    market_callees = []
    for c in pq.calls():
        if c.target is None:
            continue
        is_mkt = any(a[0] == "cmp" and a[1] == "eq" and a[2][0] == "field" and a[2][2] == "price" and a[3][0] == "const" and a[3][3] in (0, 0xFFFFFFFF) for a in c.guards)
        is_lim = any(a[0] == "cmp" and a[1] == "ne" and a[2][0] == "field" and a[2][2] == "price" and a[3][0] == "const" and a[3][3] in (0, 0xFFFFFFFF) for a in c.guards)
        if is_mkt:
            market_callees.append(c.target)
    ctx.check(len(market_callees) == 2, "reject", "market-placers", ctx.loc(place), "place_order dispatches market orders (price == sentinel) to 2 functions",
              "found %d market-placement callees" % len(market_callees))
    for f in market_callees:
        q = m.qi(f)       # inlined view: a private helper that writes status + end time is seen through
        f = q.fn
        s = m.w.effects.summary(f)
        off = []
        for blk in f.body.blocks:
            t = blk.term
            if blk.cleanup or not t or t.k != "switch":
                continue
            for sx in set(f.body.succs(blk.i)):
                if trading_false(m, q.cfg.edge_atoms(blk.i, sx)):
                    off.append((blk.i, sx))
        ctx.check(len(off) == 1, "reject", "branch|" + f.short(), ctx.loc(f), "%s branches on the trading flag" % f.name)
        if len(off) != 1:
            continue
        b, sx = off[0]
        # blocks only reachable through the false edge
        slice_blocks = {x for x in q.cfg.reach_from(sx) if (b, sx) in q.cfg.controlling_edges(x)}
        ws = [w for w in q.writes() if w.b in slice_blocks]
        calls = [c for c in q.calls() if c.b in slice_blocks]
        fields = sorted(w.field for w in ws)
        # (that the rejected order's end time is stamped - here or by the caller - is C04's exit-state rule)
        okw = set(fields) <= {"end_time", "status"} and "status" in fields and all(w.owner.endswith("Order") for w in ws) and any(status_const(w.val) == "Rejected" for w in ws)
        ctx.check(okw and not calls, "reject", "slice|" + f.short(), q.loc(f.body.blocks[sx].stmts[0].sp if f.body.blocks[sx].stmts else f.span),
                  "trading off: the market order is only marked Rejected with its end time (no call, no other write)",
                  "trading off: market placement writes %s and calls %s" % (fields, [c.name for c in calls]))
    # limit placement / replacement with trading off: typestate shows the order still ends queued
    ts, roots, _ld = run_typestate(ctx, m)
    for v in ts.violations.values():
        if v.rule in ("insert", "remove", "exit-invariant", "state-machine", "typestate-anchor"):
            ctx.bad("ts-" + v.rule, v.key, v.where, v.what)
    # insertion sites are NOT control-dependent on the flag (limit orders rest either way)
    for f in m.w.reachable([place, m.book_fn("modify_order")]):
        if f.crate.name != "bourse_book":
            continue
        q = m.q(f)
        for (c, side) in m.side_op_calls(q, "insert_order"):
            ctx.check(not trading_true(m, c.guards) and not trading_false(m, c.guards), "rest", "%s|%s" % (f.short(), side), c.loc(),
                      "the %s-side insertion does not depend on the trading flag (orders rest with trading on or off)" % side,
                      "the %s-side insertion is conditional on the trading flag: [%s]" % (side, c.gtext()))

    # ---------------------------------------------------------------- with trading on, matching is unconditional
    # (the flag is the ONLY condition: after re-enabling every arriving / re-priced order matches by the usual rules)
    from .c02 import never_crossed
    never_crossed(ctx, m)

    # ---------------------------------------------------------------- flag writers
    en, dis = m.book_fn("enable_trading"), m.book_fn("disable_trading")
    for f, val in ((en, 1), (dis, 0)):
        s = m.w.effects.summary(f)
        ws = m.q(f).writes(field=m.f_trading)
        ok = s["writes"] == {(1, (m.f_trading,))} and len(ws) == 1 and ws[0].val[0] == "const" and ws[0].val[3] == val and not ws[0].guards
        ctx.check(ok, "toggle", f.name, ctx.loc(f), "%s writes only trading := %s" % (f.name, "true" if val else "false"),
                  "%s writes %s / %s" % (f.name, sorted(s["writes"]), "; ".join(w.text() for w in ws)))
    for f in ctx.prog.units():
        if f.path in (en.path, dis.path):
            continue
        for w in m.q(f).writes(field=m.f_trading, owner="OrderBook"):
            ctx.bad("toggle", "other-writer|" + f.short(), w.loc(), "trading flag written outside enable/disable: " + w.text())
    for adt in ("bourse_book::market::Market", "bourse_de::env::Env", "bourse_de::market_env::MarketEnv"):
        bools = [x["name"] for x in ctx.prog.adt_fields(adt) if x["ty"] == "bool"]
        ctx.check(not bools, "toggle", "copy|" + adt, "-", "%s keeps no copy of the flag (no bool field)" % adt.split("::")[-1], "%s has bool field(s) %s" % (adt, bools))
    # ---------------------------------------------------------------- fan-out
    for name in ("enable_trading", "disable_trading"):
        f = m.market_fn(name)
        q = m.qi(f)
        from .stepmodel import fanout_ok
        ok, c0, detail = fanout_ok(m, q, m.market_books_field(), name)
        ctx.check(ok, "fan-out", "Market::" + name, ctx.loc(f), "Market::%s calls OrderBook::%s for every book (%s)" % (name, name, detail),
                  "Market::%s does not toggle every book: %s" % (name, detail))
        for (getter, owner_field, tgt) in ((m.env_fn, "order_book", m.book_fn(name)), (m.menv_fn, "market", m.market_fn(name))):
            g = getter(name)
            gq = m.q(g)
            cc = [c for c in gq.calls() if c.target is not None]
            ok = len(cc) == 1 and cc[0].target.path == tgt.path and not cc[0].guards and fld(cc[0].args[0], owner_field)
            ctx.check(ok, "fan-out", g.short(), ctx.loc(g), "%s forwards to %s on self.%s" % (g.short().split("::")[-2] + "::" + name, tgt.short().split("::")[-2] + "::" + name, owner_field),
                      "%s does not forward (only) to the same-named toggle" % g.short())
    ctx.note("the crossed-book behaviour of mid_price with trading disabled is C02's query-totality rule")
