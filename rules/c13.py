"""C13 – while trading is disabled nothing trades; market orders are rejected (DESIGN.md §4 C13)."""
from analysis.origin import render, field_chain, walk
from analysis.typestate import same
from .model import Model, fld, status_const, opposite
from .c04 import run_typestate

LEVEL = "other"
MIN_OBLIGATIONS = 25
EXPLANATION = (
    "Flag dominance on the call graph: on every call chain from a public OrderBook entry to the trade writer some call "
    "site is control-dependent on the true outcome of a test of the book's trading field. On the false outcome a market "
    "order gets Rejected + end_time and the effect set of that slice is exactly those two fields; limit placement and "
    "replacement skip only the matching call (typestate: the order is still queued Active). The flag's only writers are "
    "enable/disable (constants) which write nothing else; no second bool field exists on book/market/environments; the "
    "Market/Env/MarketEnv toggles fan out to every book with no iterator adapter and to the same-named toggle. After "
    "re-enabling, matching is the usual path (the same guarded calls).")


def trading_true(m, atoms):
    return any(a[0] == "bool" and a[2] is True and fld(a[1], m.f_trading) and field_chain(a[1])[0][0] == "param" for a in atoms)


def trading_false(m, atoms):
    return any(a[0] == "bool" and a[2] is False and fld(a[1], m.f_trading) and field_chain(a[1])[0][0] == "param" for a in atoms)


def run(ctx):
    m = Model(ctx)
    tw = m.trade_writers()
    if len(tw) != 1:
        ctx.lost("dominance", "expected one trade writer, found %d" % len(tw))
        return
    twf = tw[0][0]
    # ---------------------------------------------------------------- flag dominance
    # Judged on whole-operation views (every private helper spliced in; the trade writer stays a call): in every public
    # operation of the book, each call of the trade writer is control-dependent on trading == true and sits inside a
    # matching loop; each matching loop is entered only under trading == true.
    n_tw = n_loops = 0
    for root in m.book_pub_fns():
        q = m.ov(root)
        loops = m.ov_matching_loops(q)
        bodies = [q.body.loop_body(h) for (h, _sd, _c) in loops]
        for c in q.calls(twf.name):
            if c.target is None or c.target.path != twf.path:
                continue
            n_tw += 1
            ctx.check(trading_true(m, c.guards), "dominance", "writer|" + root.short(), c.loc(),
                      "%s: the trade writer is called only under trading == true" % root.name,
                      "a trade can be written with trading disabled: the call of %s reached from %s is not guarded by the trading flag" % (twf.name, root.name))
            ctx.check(any(c.b in b_ for b_ in bodies), "dominance", "writer-in-loop|" + root.short(), c.loc(),
                      "%s: the trade writer is called from inside a matching loop" % root.name, "the trade writer is called outside the matching loops (from %s)" % root.name)
        for (h, sd, c) in loops:
            n_loops += 1
            ctx.check(trading_true(m, q.cfg.guards(h)), "dominance", "matcher|%s|%s" % (root.short(), sd), c.loc(),
                      "%s: the %s-side matching loop is control-dependent on trading == true" % (root.name, sd),
                      "the %s-side matching loop reached from %s is not guarded by the trading flag" % (sd, root.name))
    ctx.check(n_tw >= 4, "dominance", "census", "-", "%d trade-writer call contexts in the whole-operation views" % n_tw)
    ctx.check(n_loops >= 4, "dominance", "matcher-calls", "-", "%d matching-loop contexts in the whole-operation views" % n_loops)

    # ---------------------------------------------------------------- false outcome
    place = m.book_fn("place_order")

    def kind_of(atoms):
        for a in atoms:
            if a[0] == "cmp" and a[1] in ("eq", "ne") and a[2][0] == "field" and a[2][2] == "price" and a[3][0] == "phi" and len(a[3][1]) == 2 \
                    and all(x[0] == "const" and x[3] in (0, 0xFFFFFFFF) for x in a[3][1]):
                return "market" if a[1] == "eq" else "limit"    # price == match side { Bid => MAX, Ask => 0 }
            if a[0] == "cmp" and a[1] in ("eq", "ne") and a[2][0] == "field" and a[2][2] == "price" and a[3][0] == "const" and a[3][3] in (0, 0xFFFFFFFF):
                return "market" if a[1] == "eq" else "limit"
            if a[0] == "bool" and a[1][0] == "phi" and all(x[0] == "bin" and x[1] == "Eq" and x[2][0] == "field" and x[2][2] == "price" and x[3][0] == "const" and x[3][3] in (0, 0xFFFFFFFF) for x in a[1][1]):
                return "market" if a[2] else "limit"
        return None
    sides_covered = set()
    n_off = 0
    for (S_, q) in [(S_, m.sv(place, S_)) for S_ in ("Bid", "Ask")]:
      for blk in q.body.blocks:
        t = blk.term
        if blk.cleanup or not t or t.k != "switch":
            continue
        for sx in set(q.body.succs(blk.i)):
            if not trading_false(m, q.cfg.edge_atoms(blk.i, sx)):
                continue
            g = q.cfg.guards(blk.i) + list(q.cfg.edge_atoms(blk.i, sx))
            kind = kind_of(g)
            b = blk.i
            # blocks only reachable through the false edge
            slice_blocks = {x for x in q.cfg.reach_from(sx) if (b, sx) in q.cfg.controlling_edges(x)}
            ws = [w for w in q.writes() if w.b in slice_blocks]
            calls = [c for c in q.calls() if c.b in slice_blocks]
            fields = sorted(w.field for w in ws)
            where = q.loc(t.sp)
            if kind == "market":
                n_off += 1
                sd = [(S_,)]
                sides_covered.add(S_)
                # (that the rejected order's end time is stamped - here or later - is C04's exit-state rule)
                okw = set(fields) <= {"end_time", "status"} and "status" in fields and all(w.owner.endswith("Order") for w in ws) and any(status_const(w.val) == "Rejected" for w in ws)
                ctx.check(okw and not calls, "reject", "slice|market|" + "".join(sorted(set(sd[0]) if sd else {"Bid", "Ask"})), where,
                          "trading off: the market order is only marked Rejected with its end time (no call, no other write)",
                          "trading off: market placement writes %s and calls %s" % (fields, [c.name for c in calls]))
            else:
                # limit (or kind-independent) placement: nothing special happens with trading off - the order goes on to rest
                ctx.check(not ws and not calls, "reject", "slice|%s|bb" % (kind or "any"), where,
                          "trading off: limit placement only skips matching (no write, no call on the `false` branch)",
                          "trading off: %s placement additionally writes %s / calls %s" % (kind or "order", fields, [c.name for c in calls]))
    ctx.check(n_off >= 1 and sides_covered == {"Bid", "Ask"}, "reject", "market-placers", ctx.loc(place),
              "place_order: market orders of both sides branch on the trading flag (%d `trading == false` branch(es) on market paths)" % n_off,
              "found %d `trading == false` branches on market-order paths covering sides %s" % (n_off, sorted(sides_covered)))
    # limit placement / replacement with trading off: typestate shows the order still ends queued
    ts, roots, _ld = run_typestate(ctx, m)
    for v in ts.violations.values():
        if v.rule in ("insert", "remove", "exit-invariant", "state-machine", "typestate-anchor"):
            ctx.bad("ts-" + v.rule, v.key, v.where, v.what)
    # insertion sites are NOT control-dependent on the flag (limit orders rest either way)
    for (f, q) in [(f_, m.sv(f_, S_)) for f_ in (place, m.book_fn("modify_order")) for S_ in ("Bid", "Ask")]:
        live = q.cfg.reach_from(0)
        for (c, side) in m.side_op_calls(q, "insert_order"):
            if c.b not in live:
                continue
            ctx.check(not trading_true(m, c.guards) and not trading_false(m, c.guards), "rest", "%s|%s" % (f.short(), side), c.loc(),
                      "the %s-side insertion does not depend on the trading flag (orders rest with trading on or off)" % side,
                      "the %s-side insertion is conditional on the trading flag: [%s]" % (side, c.gtext()))

    # ---------------------------------------------------------------- with trading on, matching is unconditional
    # (the flag is the ONLY condition: after re-enabling every arriving / re-priced order matches by the usual rules)
    from .c02 import never_crossed
    never_crossed(ctx, m)

    # ---------------------------------------------------------------- the flag is read when the order ARRIVES
    # a market order is rejected iff trading is disabled at placement: creation decides nothing (an order created while
    # disabled and placed after re-enabling matches), and Rejected is written only under `trading == false` in place_order
    from .c10 import creation_outcome_rules
    from .c04 import rejected_rules
    creation_outcome_rules(ctx, m, rule="arrival")
    rejected_rules(ctx, m, rule="arrival")
    # "once trading is enabled again every new or RE-PRICED order matches by the usual rules": a modification that names a price (or
    # raises / restates the volume) goes through the replacement path - taken out of its queue, re-matched, re-queued - in every case,
    # also when the named value equals the current one (C06's per-case dispatch rules on modify_order)
    from .c06 import modify_rules, _Prefixed
    modify_rules(_Prefixed(ctx, "rematch-"), m, with_typestate=False)
    # ---------------------------------------------------------------- flag writers
    en, dis = m.book_fn("enable_trading"), m.book_fn("disable_trading")
    for f, val in ((en, 1), (dis, 0)):
        s = m.w.effects.summary(f)
        ws = m.q(f).writes(field=m.f_trading)
        ok = s["writes"] == {(1, (m.f_trading,))} and len(ws) == 1 and ws[0].val[0] == "const" and ws[0].val[3] == val and not ws[0].guards
        ctx.check(ok, "toggle", f.name, ctx.loc(f), "%s writes only trading := %s" % (f.name, "true" if val else "false"),
                  "%s writes %s / %s" % (f.name, sorted(s["writes"]), "; ".join(w.text() for w in ws)))
    for f in ctx.prog.units():
        if f.path in (en.path, dis.path):
            continue
        for w in m.q(f).writes(field=m.f_trading, owner="OrderBook"):
            ctx.bad("toggle", "other-writer|" + f.short(), w.loc(), "trading flag written outside enable/disable: " + w.text())
    for adt in ("bourse_book::market::Market", "bourse_de::env::Env", "bourse_de::market_env::MarketEnv"):
        bools = [x["name"] for x in ctx.prog.adt_fields(adt) if x["ty"] == "bool"]
        ctx.check(not bools, "toggle", "copy|" + adt, "-", "%s keeps no copy of the flag (no bool field)" % adt.split("::")[-1], "%s has bool field(s) %s" % (adt, bools))
    # ---------------------------------------------------------------- fan-out
    for name in ("enable_trading", "disable_trading"):
        f = m.market_fn(name)
        q = m.qi(f)
        from .stepmodel import fanout_ok
        ok, c0, detail = fanout_ok(m, q, m.market_books_field(), name)
        ctx.check(ok, "fan-out", "Market::" + name, ctx.loc(f), "Market::%s calls OrderBook::%s for every book (%s)" % (name, name, detail),
                  "Market::%s does not toggle every book: %s" % (name, detail))
        for (getter, owner_field, tgt) in ((m.env_fn, "order_book", m.book_fn(name)), (m.menv_fn, "market", m.market_fn(name))):
            g = getter(name)
            gq = m.q(g)
            cc = [c for c in gq.calls() if c.target is not None]
            ok = len(cc) == 1 and cc[0].target.path == tgt.path and not cc[0].guards and fld(cc[0].args[0], owner_field)
            ctx.check(ok, "fan-out", g.short(), ctx.loc(g), "%s forwards to %s on self.%s" % (g.short().split("::")[-2] + "::" + name, tgt.short().split("::")[-2] + "::" + name, owner_field),
                      "%s does not forward (only) to the same-named toggle" % g.short())
    ctx.note("the crossed-book behaviour of mid_price with trading disabled is C02's query-totality rule")
