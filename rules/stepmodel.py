"""Shared structural view of Env::step / MarketEnv::step (used by C08 C10 C11 C14 C15)."""
from analysis.origin import render, field_chain, walk, strip
from analysis.facts import FactsError
from .model import fld

ADAPTERS = ("take", "skip", "filter", "step_by", "zip", "chain", "take_while", "skip_while", "filter_map", "map",
            "rev", "peekable", "fuse", "cycle", "flat_map", "scan", "inspect", "dedup", "nth", "last")
REORDER = ("sort", "sort_by", "sort_by_key", "sort_unstable", "sort_unstable_by", "sort_unstable_by_key", "reverse", "swap",
           "rotate_left", "rotate_right", "retain", "retain_mut", "dedup", "dedup_by", "dedup_by_key", "drain", "truncate",
           "index_mut", "remove", "swap_remove", "pop", "insert", "split_off", "clear", "select_nth_unstable", "partial_shuffle",
           "push", "extend", "append")


class StepShape:
    """components of a step function; every attribute is None when not recognised"""

    def __init__(self, m, f, world_field):
        self.m = m
        self.f = f
        self.q = q = m.qi(f)   # inlined view: private helpers of the crate spliced in
        self.obj = world_field          # 'order_book' / 'market'
        self.problems = []

        def on_obj(c):
            return bool(c.args) and fld(c.args[0], world_field) and field_chain(c.args[0])[0][0] == "param"
        self.on_obj = on_obj
        # queue take
        self.queue_field = None
        self.take = None
        self.T = None
        for c in q.calls(("take", "replace")):
            if "mem::" in c.resolved and c.args and field_chain(c.args[0])[0][0] == "param" and len(field_chain(c.args[0])[1]) == 1:
                self.take = c
                self.queue_field = field_chain(c.args[0])[1][0]
                d = c.term.dest
                if d.is_local():
                    self.T = d.local
        # in-place form: `self.queue.shuffle(rng); for .. in self.queue.drain(..)` - the batch is the queue field itself, emptied by
        # the full-range drain the loop consumes (dropping a Drain removes whatever was not iterated)
        self.in_place = False
        if self.take is None:
            for c in q.calls("drain"):
                if len(c.args) == 2 and field_chain(c.args[0])[0][0] == "param" and len(field_chain(c.args[0])[1]) == 1 and "RangeFull" in render(c.args[1]) \
                        and "Vec" in (c.resolved or ""):
                    self.take = c
                    self.queue_field = field_chain(c.args[0])[1][0]
                    self.in_place = True
        # processing loop: the `next` call whose iterator derives from the batch
        self.loop_next = None
        self.chain = None
        for c in q.calls("next"):
            if not q.cfg.in_loop(c.b):
                continue
            ch = self.iter_chain(c)
            if ch is not None and self.has_batch() and self.is_batch(ch[-1]):
                self.loop_next = c
                self.chain = ch[:-1]
        if self.in_place and self.loop_next is None:
            # a full drain that does not feed the processing loop (e.g. collected into a vector) is not the in-place form
            self.take = None
            self.in_place = False
            self.queue_field = None
        self.head = None
        self.body = set()
        if self.loop_next is not None:
            hs = q.cfg.loops_containing(self.loop_next.b)
            # innermost = smallest body
            hs = sorted(hs, key=lambda h: len(q.body.loop_body(h)))
            self.head = hs[0]
            self.body = q.body.loop_body(self.head)
        self.get_time = [c for c in q.calls("get_time") if on_obj(c)]
        self.set_times = [c for c in q.calls("set_time") if on_obj(c)]
        self.process = [c for c in q.calls("process_event") if on_obj(c)]
        self.resets = [c for c in q.calls(("reset_trade_vol", "reset_trade_vols")) if on_obj(c)]
        self.shuffles = [c for c in q.calls() if c.name in ("shuffle", "partial_shuffle", "choose_multiple", "choose")]

    def has_batch(self):
        return self.T is not None or self.in_place

    def is_batch(self, e):
        """does e denote the batch of instructions this step processes (the local the queue was taken into, or - in-place form -
        the queue field itself)?"""
        if e is None:
            return False
        if self.T is not None:
            return e == ("local", self.T)
        if self.in_place:
            e = strip(e)
            root, names = field_chain(e)
            return root[0] == "param" and names == [self.queue_field] and fld(e, self.queue_field)
        return False

    def mentions_batch(self, e):
        return self.is_batch(e) or (isinstance(e, tuple) and e and e[0] != "const" and any(self.is_batch(y) for y in walk(e) if isinstance(y, tuple)))

    def iter_chain(self, next_call):
        """names of the adapter calls between the iterated collection and `next`: returns
        [name, name, ..., base expr] or None"""
        q = self.q
        a = next_call.args[0] if next_call.args else None
        if a is None:
            return None
        # receiver is a memory local holding the iterator: find its single definition
        root, _n = field_chain(a)
        if root[0] != "local":
            return None
        defs = q.ev.def_sites().get(root[1], [])
        if len(defs) != 1:
            return None
        d = defs[0]
        if d[0] == "c":
            e = strip(q.ev.call_expr(d[1]))
        else:
            st = q.body.blocks[d[1]].stmts[d[2]]
            e = strip(q.ev.rvalue(st.rv, (d[1], d[2])))
        names = []
        self.zip_partner = None
        while e[0] == "call" and e[2] and (e[4] in ADAPTERS or e[4] in ("into_iter", "iter", "iter_mut", "enumerate", "by_ref") or
                                           (self.in_place and e[4] == "drain" and len(e[2]) == 2 and self.is_batch(e[2][0]) and "RangeFull" in render(e[2][1]))):
            if e[4] == "drain":
                names.append("into_iter")     # the full-range drain yields every element, front to back, by value
                e = e[2][0]
                continue
            names.append(e[4])
            if e[4] == "zip" and len(e[2]) == 2 and self.has_batch():
                # `clock_values.zip(batch)`: the batch may be either operand; remember the other one and which tuple
                # component carries the batch item
                def leads_to_T(x):
                    while x[0] == "call" and x[2] and x[4] in ("into_iter", "iter", "iter_mut", "by_ref"):
                        x = x[2][0]
                    return self.is_batch(x)
                if not leads_to_T(e[2][0]) and leads_to_T(e[2][1]):
                    self.zip_partner = (e[2][0], "1")
                    e = e[2][1]
                    continue
                self.zip_partner = (e[2][1], "0")
            e = e[2][0]
        names.append(e)
        return names

    def zip_clock(self, start):
        """the loop pairs the batch with the unbounded range `start..` (element i = start + i): returns the tuple component
        (as a string) that carries the batch ITEM, or None"""
        zp = getattr(self, "zip_partner", None)
        if zp is None:
            return None
        p = zp[0]
        while p[0] == "call" and p[2] and p[4] in ("into_iter", "iter"):
            p = p[2][0]
        if p[0] == "agg" and p[1] == "adt" and p[2].split("::")[-1] == "RangeFrom" and len(p[3]) == 1 and p[3][0] == start:
            return zp[1]
        return None

    def item(self, *path):
        """expression `(next as Some).0.<path>` of the processing loop"""
        res = self.loop_next.result
        e = ("field", ("downcast", res, "Some"), "0", "std::option::Option")
        for p in path:
            e = ("field", e, p, "")
        return e


def benign_batch_guard(atom, T, for_shuffle=False):
    """a condition on the taken batch `T` under which skipping the guarded code changes nothing:
    `!T.is_empty()` / `T.len() > 0` / `T.len() != 0` (an empty batch has nothing to process and nothing to shuffle), and for
    the shuffle alone also `T.len() > 1` / `T.len() >= 2` (rand 0.8.5 draws nothing for fewer than two elements)."""
    if isinstance(T, StepShape):
        is_b = T.is_batch
    else:
        is_b = lambda e: e == ("local", T)  # noqa: E731

    def is_len(e):
        return e[0] == "call" and e[4] == "len" and e[2] and is_b(e[2][0])
    if atom[0] == "bool" and atom[2] is False and atom[1][0] == "call" and atom[1][4] == "is_empty" and atom[1][2] and is_b(atom[1][2][0]):
        return True
    if atom[0] == "cmp" and is_len(atom[2]) and atom[3][0] == "const":
        k = atom[3][3]
        if (atom[1], k) in (("gt", 0), ("ne", 0), ("ge", 1)):
            return True
        if for_shuffle and (atom[1], k) in (("gt", 1), ("ge", 2)):
            return True
    return False


def loop_counter(q, head, e):
    """is expression e the value of an explicit position counter of the loop `head`: a local that is 0 before the loop and
    incremented by exactly 1 once on every iteration, read BEFORE this iteration's increment (so it equals the number of
    completed iterations = the 0-based position of the current item)?  Returns the local or None."""
    while e[0] in ("conv", "cast"):
        e = e[1] if e[0] == "conv" else e[2]
    if e[0] != "phi" or len(e[1]) != 2:
        return None
    zero = [a for a in e[1] if a[0] == "const" and a[3] == 0]
    inc = [a for a in e[1] if a[0] != "const"]
    if len(zero) != 1 or len(inc) != 1:
        return None
    a = inc[0]
    if a[0] == "field" and a[2] == "0" and a[1][0] == "bin" and a[1][1] == "AddWithOverflow":
        a = a[1]
    if not (a[0] == "bin" and a[1] in ("Add", "AddWithOverflow")):
        return None
    x, y = a[2], a[3]
    if not (y[0] == "const" and y[3] == 1 and x[0] == "cycle"):
        if not (x[0] == "const" and x[3] == 1 and y[0] == "cycle"):
            return None
        x = y
    l = x[1]
    body = q.body.loop_body(head)
    defs = q.ev.def_sites().get(l, [])
    inside = [d for d in defs if d[1] in body]
    outside = [d for d in defs if d[1] not in body]
    if len(inside) != 1 or len(outside) != 1 or inside[0][0] != "s" or outside[0][0] != "s":
        return None
    if not q.body.dominates(outside[0][1], head):
        return None
    ib = inside[0][1]
    # once per iteration: not inside a nested loop, and every path from the head back to the head passes the increment
    inner = [h for h in q.body.loop_heads() if h != head and h in body and ib in q.body.loop_body(h)]
    if inner:
        return None
    outside_blocks = [b for b in range(len(q.body.blocks)) if b not in body]
    for s0 in q.body.succs(head):
        if s0 in body and head in q.cfg.reach_from(s0, cut_blocks=set(outside_blocks) | {ib}) and s0 != ib:
            return None
    return l


def fanout_ok(m, q, books_field, target):
    """does q call OrderBook::<target> on EVERY element of self.<books_field>?  Accepted idioms:
    `for b in self.books.iter_mut() { b.target(..) }` (no adapter) and
    `for i in 0..ASSETS { self.books[i].target(..) }`.  Returns (ok, call or None, detail)"""
    # `self.books.iter_mut().for_each(op)` (possibly through a private helper taking the operation: inlined view)
    for fe in q.calls("for_each"):
        if fe.guards or len(fe.args) != 2:
            continue
        src, op = fe.args
        # `for_each(&mut f)` with f a closure held in a (borrowed) local: its single definition
        hops = 0
        while op[0] == "local" and hops < 4:
            hops += 1
            defs = q.ev.def_sites().get(op[1], [])
            if len(defs) != 1 or defs[0][0] != "s":
                break
            st_ = q.fn.body.blocks[defs[0][1]].stmts[defs[0][2]]
            op = strip(q.ev.rvalue(st_.rv, (defs[0][1], defs[0][2])))
        names = []
        e = src
        while e[0] == "call" and e[2] and e[4] in ("iter_mut", "into_iter", "iter", "deref_mut", "as_mut_slice"):
            names.append(e[4])
            e = e[2][0]
        if not (fld(e, books_field) and field_chain(e)[0][0] == "param"):
            continue
        if op[0] == "fn":
            if op[1].split("::")[-1] == target and "OrderBook" in op[1]:
                return True, fe, "iter_mut().for_each(OrderBook::%s) over all books" % target
            return False, fe, "for_each applies %s" % op[1]
        if op[0] == "agg" and op[1] == "closure":
            from analysis.beta import closure_fn
            cf = closure_fn(m.w, op)
            if cf is not None:
                cq = m.w.q(cf)
                cc = [c for c in cq.calls(target) if c.target is not None and (c.target.impl_adt or "").endswith("orderbook::OrderBook")]
                if len(cc) == 1 and not cc[0].guards and not cq.cfg.in_loop(cc[0].b) and cc[0].args and cc[0].args[0][0] == "param" and cc[0].args[0][1] == 2:
                    # arguments of the inner call with the closure's captures replaced by the captured operands
                    from analysis.beta import subst_expr
                    ops, cnames = op[3], op[4]

                    def cap(e):
                        if e[0] == "field" and e[1][0] == "param" and e[1][1] == 1:
                            for i, n in enumerate(cnames):
                                if n.lstrip("*") == e[2].lstrip("*") and i < len(ops):
                                    return ops[i]
                        return None

                    class Inner:
                        pass
                    ic = Inner()
                    ic.args = [subst_expr(a, cap) for a in cc[0].args]
                    ic.loc = fe.loc
                    return True, ic, "iter_mut().for_each(|book| book.%s(..)) over all books" % target
                return False, fe, "for_each closure does not call %s on its item exactly once, unconditionally" % target
    cs = [c for c in q.calls(target) if c.target is not None and (c.target.impl_adt or "").endswith("orderbook::OrderBook")]
    if len(cs) != 1 or not q.cfg.in_loop(cs[0].b):
        return False, (cs[0] if cs else None), "%d calls of %s in a loop" % (len(cs), target)
    c = cs[0]
    if not all(a[0] == "variant" and a[2] == ("Some",) for a in c.guards):
        return False, c, "call conditional on [%s]" % c.gtext()
    nx = [x for x in q.calls("next") if q.cfg.in_loop(x.b)]
    if len(nx) != 1:
        return False, c, "%d loops" % len(nx)
    s = StepShape.__new__(StepShape)
    s.q = q
    ch = StepShape.iter_chain(s, nx[0])
    if not ch:
        return False, c, "iterator not recognised"
    adapters = [n for n in ch[:-1] if n not in ("into_iter", "iter_mut", "iter")]
    if adapters:
        return False, c, "iterator adapters %s" % adapters
    base = ch[-1]
    item = ("field", ("downcast", nx[0].result, "Some"), "0", "std::option::Option")
    recv = c.args[0]
    if fld(base, books_field) or any(x[0] == "field" and x[2] == books_field for x in walk(base)):
        # element iteration: receiver is the loop item
        if any(x == nx[0].result for x in walk(recv)):
            return True, c, "iter_mut loop over all books"
        return False, c, "receiver %s is not the loop item" % render(recv)
    if base[0] == "agg" and base[2].endswith("Range::Range"):
        lo, hi = base[3]
        full = lo[0] == "const" and lo[3] == 0 and hi[0] == "const" and "ASSETS" in str(hi[2])
        ix = [x for x in walk(recv) if x[0] == "index" and any(y[0] == "field" and y[2] == books_field for y in walk(x[1]))]
        if full and len(ix) == 1 and ix[0][2] == item:
            return True, c, "index loop over 0..ASSETS"
        return False, c, "index loop does not cover 0..ASSETS with the loop variable"
    return False, c, "loop base %s" % render(base)
