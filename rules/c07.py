"""C07 – a JSON snapshot restores a behaviourally identical book / market (DESIGN.md §4 C07)."""
from analysis.origin import render, field_chain, walk
from analysis.typestate import same
from analysis.panics import panic_sites
from .model import Model, fld, BOOK
from .c04 import run_typestate

LEVEL = "other"
MIN_OBLIGATIONS = 40
EXPLANATION = (
    "Writer/reader table agreement read from the *generated* serde code (MIR of the derive output): the keys and fields the "
    "Serialize impl of OrderBook emits equal, by name and type, the keys the reader struct's field visitor accepts; no field "
    "of any serialised type is skipped, renamed or defaulted beyond the two side indexes and the stamp counter (every reader "
    "has one missing_field error per field, no Default call). Loader (try_from): every non-index field of the rebuilt book "
    "originates from the same-named reader field; the indexes are rebuilt by filing exactly the stored entries whose status is "
    "Active, on the order's own side, under the stored key with the stored id and remaining volume, visiting all entries "
    "(typestate in loader mode establishes invariant I from the order table alone); the stamp counter is restored above all "
    "stored queue times. save/load of book and market are siblings, `pretty` selects only the writer, errors are propagated. "
    "No undischarged panic site is reachable from load_json through repository code. Value-level round-trip equality and "
    "serde_json's rejection of truncated input are trusted, not computed.")


def str_consts(f):
    out = set()
    for blk in f.body.blocks:
        for st in blk.stmts:
            if st.k == "assign":
                for o in st.rv.ops:
                    if o.is_const() and "str" in (o.const_ty() or "") and o.const_str() and o.const_str().startswith('"'):
                        out.add(o.const_str().strip('"'))
        t = blk.term
        if t and t.k == "call":
            for o in t.args:
                if o.is_const() and "str" in (o.const_ty() or "") and o.const_str() and o.const_str().startswith('"'):
                    out.add(o.const_str().strip('"'))
    return out


import re


def is_for(path, adt):
    """path is an item of `impl <trait> for <adt><..>`"""
    return re.search(r"for " + re.escape(adt) + r"(<[^<>]*>)?>::", path) is not None


def try_only(c):
    """controlled only by the success of earlier `?` steps"""
    return all(a[0] == "variant" and a[2] == ("Continue",) and a[1][0] == "call" and a[1][4] == "branch" for a in c.guards)


def serde_fns(ctx, adt_path, trait, name):
    """generated impl functions `name` of `trait` for the ADT"""
    out = []
    for f in ctx.prog.units():
        if f.name != name or f.crate.name != "bourse_book":
            continue
        p = f.path
        if ("_serde::%s" % trait) in p and is_for(p, adt_path) and p.endswith("::" + name):
            out.append(f)
    return out


def run(ctx):
    m = Model(ctx)
    prog = ctx.prog
    structs = {
        "bourse_book::types::Order": None, "bourse_book::orderbook::OrderEntry": None, "bourse_book::types::Trade": None,
    }
    # ------------------------------------------------------------ writer tables
    def writer_table(adt):
        fs = [f for f in serde_fns(ctx, adt, "Serialize", "serialize") if "__SerializeWith" not in f.path]
        if len(fs) != 1:
            ctx.lost("tables", "Serialize impl of %s (found %d)" % (adt, len(fs)))
            return None
        q = m.q(fs[0])
        tab = []
        for c in q.calls("serialize_field"):
            key = c.args[1]
            src = c.args[2]
            tab.append((str(key[2]).strip('"') if key[0] == "const" else render(key), src, c))
        return fs[0], tab

    def reader_keys(adt):
        vs = [f for f in prog.units() if f.name == "visit_str" and "__FieldVisitor" in f.path and is_for(f.path, adt)]
        vm = [f for f in prog.units() if f.name == "visit_map" and "__Visitor" in f.path and is_for(f.path, adt) and "__DeserializeWith" not in f.path]
        if len(vs) != 1 or len(vm) != 1:
            ctx.lost("tables", "Deserialize visitor of %s (visit_str %d, visit_map %d)" % (adt, len(vs), len(vm)))
            return None
        keys = str_consts(vs[0])
        q = m.q(vm[0])
        missing = len(q.calls("missing_field"))
        defaults = [c for c in q.calls() if c.name in ("default", "unwrap_or_default", "unwrap_or_else", "unwrap_or")]
        return vs[0], keys, missing, defaults, vm[0]

    state_adt = "bourse_book::orderbook::OrderBookState"
    # OrderBook writer
    wt = writer_table(BOOK)
    bf = m.book_fields
    if wt:
        f, tab = wt
        skipped = {m.f_ask, m.f_bid} | ({m.f_stamp} if m.f_stamp else set())
        want = [n for n in bf if n not in skipped]
        keys = [k for k, _s, _c in tab]
        ctx.check(keys == want, "tables", "writer|OrderBook", ctx.loc(f),
                  "OrderBook serialises exactly %s (indexes%s rebuilt on load)" % (want, " and stamp counter" if m.f_stamp else ""),
                  "OrderBook serialises %s, expected %s" % (keys, want))
        for k, src, c in tab:
            ok = fld(src, k) and field_chain(src)[0][0] == "param" and try_only(c)
            ctx.check(ok, "tables", "writer|OrderBook|" + k, c.loc(), 'key "%s" <- self.%s, unconditionally' % (k, k), 'key "%s" is fed from %s [%s]' % (k, render(src), c.gtext()))
        rk = reader_keys(state_adt)
        if rk:
            vs, rkeys, missing, defaults, vm = rk
            sfields = {x["name"]: x["ty"] for x in prog.adt_fields(state_adt)}
            ctx.check(rkeys == set(sfields) == set(keys), "tables", "reader|OrderBookState", ctx.loc(vs),
                      "reader accepts exactly the keys the writer emits: %s" % sorted(rkeys),
                      "reader keys %s / reader fields %s / writer keys %s differ" % (sorted(rkeys), sorted(sfields), sorted(keys)))
            tyok = all(sfields.get(k) == bf.get(k) for k in keys)
            ctx.check(tyok, "tables", "types|OrderBookState", ctx.loc(vs), "reader field types equal the book's field types",
                      "type mismatch: %s" % [(k, sfields.get(k), bf.get(k)) for k in keys if sfields.get(k) != bf.get(k)])
            ctx.check(missing == len(sfields) and not defaults, "tables", "no-default|OrderBookState", ctx.loc(vm),
                      "every reader field is mandatory (%d missing_field errors, no default)" % missing,
                      "reader has %d missing_field sites for %d fields, defaults: %s" % (missing, len(sfields), [c.name for c in defaults]))
    # plain structs
    for adt in structs:
        wt = writer_table(adt)
        rk = reader_keys(adt)
        fields = [x["name"] for x in prog.adt_fields(adt)]
        if wt:
            f, tab = wt
            keys = [k for k, _s, _c in tab]
            ok = keys == fields and all(fld(src, k) and try_only(c) for k, src, c in tab)
            ctx.check(ok, "tables", "writer|" + adt.split("::")[-1], ctx.loc(f), "%s serialises all %d fields under their own names" % (adt.split("::")[-1], len(fields)),
                      "%s serialises %s (fields: %s)" % (adt.split("::")[-1], keys, fields))
        if rk:
            vs, rkeys, missing, defaults, vm = rk
            ctx.check(rkeys == set(fields) and missing == len(fields) and not defaults, "tables", "reader|" + adt.split("::")[-1], ctx.loc(vs),
                      "%s reader: keys = fields, all mandatory" % adt.split("::")[-1],
                      "%s reader keys %s, %d mandatory of %d, defaults %s" % (adt.split("::")[-1], sorted(rkeys), missing, len(fields), [c.name for c in defaults]))
    # enums: unit variants by name
    for adt in ("bourse_book::types::Side", "bourse_book::types::Status"):
        vnames = [v["name"] for v in prog.adts[adt]["variants"]]
        fs = serde_fns(ctx, adt, "Serialize", "serialize")
        if len(fs) == 1:
            q = m.q(fs[0])
            got = [(c.args[2][3] if c.args[2][0] == "const" else None, str(c.args[3][2]).strip('"')) for c in q.calls("serialize_unit_variant")]
            ok = sorted(got) == sorted((i, n) for i, n in enumerate(vnames))
            ctx.check(ok, "tables", "writer|" + adt.split("::")[-1], ctx.loc(fs[0]), "%s variants serialised as %s" % (adt.split("::")[-1], vnames),
                      "%s variants serialised as %s" % (adt.split("::")[-1], got))
        else:
            ctx.lost("tables", "Serialize impl of " + adt)
        vs = [f for f in prog.units() if f.name == "visit_str" and "__FieldVisitor" in f.path and is_for(f.path, adt)]
        if len(vs) == 1:
            ctx.check(str_consts(vs[0]) == set(vnames), "tables", "reader|" + adt.split("::")[-1], ctx.loc(vs[0]), "%s reader accepts %s" % (adt.split("::")[-1], vnames),
                      "%s reader accepts %s" % (adt.split("::")[-1], sorted(str_consts(vs[0]))))
        else:
            ctx.lost("tables", "Deserialize visitor of " + adt)
    # Market
    wt = writer_table("bourse_book::market::Market")
    rk = reader_keys("bourse_book::market::Market")
    mfields = [x["name"] for x in prog.adt_fields("bourse_book::market::Market")]
    if wt and rk:
        keys = [k for k, _s, _c in wt[1]]
        ctx.check(len(keys) == len(mfields) and rk[1] == set(keys) and rk[2] == len(mfields) and not rk[3], "tables", "Market", ctx.loc(wt[0]),
                  "Market serialises and reads back its book array under the same key %s" % keys, "Market writer keys %s reader keys %s (fields %s)" % (keys, sorted(rk[1]), mfields))

    # ------------------------------------------------------------ OrderBook::deserialize goes through the reader + loader
    ds = [f for f in serde_fns(ctx, BOOK, "Deserialize<'de>", "deserialize")]
    ts, roots, loaders = run_typestate(ctx, m)
    if len(ds) == 1 and len(loaders) == 1:
        q = m.q(ds[0])
        inner = [c for c in q.calls("deserialize") if "OrderBookState" in c.resolved]
        cl = q.closures()
        conv = []
        for (cq, _o, _n, _b) in cl:
            conv += [c for c in cq.calls("try_from") if c.target is not None and c.target.path == loaders[0].path]
            conv += [c for c in cq.calls("try_from") if "OrderBook" in c.resolved]
        ctx.check(len(inner) == 1 and bool(conv), "loader", "route", ctx.loc(ds[0]), "OrderBook::deserialize = OrderBookState::deserialize then try_from (the loader)",
                  "OrderBook::deserialize does not route through the reader struct and the loader")
    else:
        ctx.lost("loader", "OrderBook Deserialize impl / loader (found %d / %d)" % (len(ds), len(loaders)))
        return
    # ------------------------------------------------------------ loader
    ld = loaders[0]
    lq = m.qi(ld)     # (private helpers of the loader spliced in)
    for v in ts.violations.values():
        if v.where.split(" ")[-1].strip("()").startswith("<bourse_book::orderbook::OrderBook") or "try_from" in v.where:
            ctx.bad("loader-" + v.rule, v.key, v.where, v.what)
    lops = [o for o in ts.ops if "try_from" in o[0]]
    ctx.check(len(lops) == 2 and {o[2] for o in lops} == {"Bid", "Ask"}, "loader", "refile", ctx.loc(ld),
              "loader files stored entries on both sides: pre-state Active/unfiled/own side, stored key, stored id, remaining volume (typestate)",
              "loader insertion sites: %s" % [(o[1], o[2]) for o in lops])
    for o in lops:
        ctx.check({t[0] for t in o[4]} == {"Active"}, "loader", "active-only|" + str(o[2]), o[3], "only entries whose stored status is Active are filed (%s side)" % o[2])
    r = lq.ret()
    aggs = [x for x in walk(r) if x[0] == "agg" and x[1] == "adt" and x[2].endswith("OrderBook::OrderBook")]
    if aggs:
        fields = dict(zip(aggs[0][4], aggs[0][3]))
        for k, v in fields.items():
            if k in (m.f_ask, m.f_bid):
                ok = v[0] == "local" or v[0] == "load"
                ins = [c for (c, s) in m.side_op_calls(lq, "insert_order") if s == ("Ask" if k == m.f_ask else "Bid")]
                ok = bool(ins) and all(same(c.args[0], v) or c.args[0] == v for c in ins)
                ctx.check(ok, "loader", "field|" + k, ctx.loc(ld), "%s <- the side index rebuilt by the %s insertions" % (k, "Ask" if k == m.f_ask else "Bid"),
                          "%s is %s but insertions go to %s" % (k, render(v), [render(c.args[0]) for c in ins]))
            elif k == m.f_stamp:
                continue  # C05
            else:
                ok = fld(v, k) and field_chain(v)[0][0] == "param" and len(field_chain(v)[1]) == 1
                ctx.check(ok, "loader", "field|" + k, ctx.loc(ld), "%s <- state.%s" % (k, k), "%s <- %s (expected the same-named reader field)" % (k, render(v)))
    else:
        ctx.lost("loader", "loader does not build an OrderBook literal")
    # all entries visited: iteration over state.orders without adapters, insertions inside the loop
    iters = [c for c in lq.calls(("iter", "into_iter", "iter_mut")) if any(fld(x, m.f_orders) for x in walk(c.args[0]) if x[0] == "field") or fld(c.args[0], m.f_orders)]
    # (a status `filter` is accounted for by the typestate: skipped entries must not be Active)
    adapters = [c.name for c in lq.calls() if c.name in ("take", "skip", "step_by", "rev", "zip", "chain", "take_while", "skip_while", "nth", "last", "filter_map")]
    ctx.check(bool(iters) and not adapters, "loader", "visits-all", ctx.loc(ld), "the loader iterates over all stored entries (no iterator adapter)",
              "loader iteration uses adapters %s" % adapters)
    for (c, s) in m.side_op_calls(lq, "insert_order"):
        extra = [a for a in c.guards if not (a[0] == "variant" and a[2] in (("Some",), ("Bid",), ("Ask",))) and not (
            a[0] == "cmp" and a[1] == "eq" and a[2][0] == "field" and a[2][2] == "status")]
        ctx.check(not extra and lq.cfg.in_loop(c.b), "loader", "filter|" + str(s), c.loc(), "%s insertion conditioned only on status == Active and the order's side" % s,
                  "%s insertion additionally conditioned on %s" % (s, c.gtext()))
    if m.f_stamp:
        # a counter restored too low makes the reloaded book queue later orders AHEAD of stored ones
        from .c05 import loader_counter_rules
        loader_counter_rules(ctx, m, loaders)

    # ------------------------------------------------------------ save / load paths (book and market judged by one rule)
    # Judged on the inlined view (private / pub(super) helpers such as a shared `write_json` / `write_snapshot` spliced in),
    # by WHAT is done rather than by an exact call sequence:
    #   save: one serializer per value of `pretty` (writer-, vec- or string-flavoured), both given `self`; the bytes go to
    #         a file opened on `path` that is TRUNCATED (File::create, fs::write, or OpenOptions with truncate(true)):
    #         without truncation an existing longer file keeps trailing bytes and the snapshot no longer loads;
    #   load: the whole file at `path` is parsed by serde_json into Self;
    #   both: every fallible step's result is propagated (`?`) or returned, never dropped; no panic-capable site.
    SER = {"to_writer": "to_writer_pretty", "to_vec": "to_vec_pretty", "to_string": "to_string_pretty"}

    def has_call(e, name, res_part=None):
        return any(x[0] == "call" and x[4] == name and (res_part is None or res_part in x[1]) for x in walk(e))

    def path_param(e):
        return any(x[0] == "param" and x[2] == "path" for x in walk(e))

    def results_propagated(q, f):
        ret = q.ret()
        bad = []
        for c in q.calls():
            if not c.term.dest.ty.startswith("std::result::Result"):
                continue
            if c.name in ("from_residual",):
                continue
            r = c.result
            used = any(b2.args and any(y == r for y in walk(b2.args[0])) for b2 in q.calls("branch")) or any(y == r for y in walk(ret)) \
                or any(any(y == r for y in walk(a[1])) for blk_ in q.body.blocks if not blk_.cleanup and blk_.term is not None and blk_.term.k == "switch"
                       for s_ in set(q.body.succs(blk_.i)) for a in q.cfg.edge_atoms(blk_.i, s_) if a[0] == "variant")   # explicitly matched on
            if not used:
                bad.append(c.name)
        ctx.check(not bad, "save-load", "propagates|" + f.short(), ctx.loc(f), "%s: every fallible step is propagated with `?` or returned" % f.short(),
                  "%s drops the result of fallible call(s) %s (a failed write/parse would go unnoticed)" % (f.short(), bad))
        ps = panic_sites(q)
        ctx.check(not ps, "save-load", "no-panic|" + f.short(), ctx.loc(f), "%s has no panic-capable site (errors are propagated)" % f.short(),
                  "%s can abort: %s" % (f.short(), "; ".join(p.text() for p in ps)))

    for f in (m.book_fn("save_json"), m.market_fn("save_json")):
        q = m.qi(f)
        plain = [c for c in q.calls(tuple(SER)) if "serde_json" in c.resolved]
        pretty = [c for c in q.calls(tuple(SER.values())) if "serde_json" in c.resolved]
        ok = len(plain) == 1 and len(pretty) == 1 and SER.get(plain[0].name) == pretty[0].name
        detail = "serializer calls: %s" % [c.name for c in plain + pretty]
        if ok:
            cp, cy = plain[0], pretty[0]
            ok = cp.args[-1] == ("param", 1, "self") and cy.args[-1] == ("param", 1, "self")
            detail = "serialised values: %s / %s" % (render(cp.args[-1]), render(cy.args[-1]))
            if ok:
                def sel(c, val):
                    bs = [a for a in c.guards if a[0] == "bool"]
                    rest = [a for a in c.guards if a[0] not in ("bool",) and not (a[0] == "variant" and a[2] == ("Continue",))]
                    return len(bs) == 1 and bs[0][1][0] == "param" and bs[0][1][2] == "pretty" and bs[0][2] is val and not rest
                ok = sel(cy, True) and sel(cp, False)
                detail = "conditions: pretty writer under [%s], compact writer under [%s]" % (cy.gtext(), cp.gtext())
            if ok and cp.name == "to_writer":
                ok = cp.args[0] == cy.args[0]
                detail = "writers differ: %s / %s" % (render(cp.args[0])[:60], render(cy.args[0])[:60])
        ctx.check(ok, "save-load", "pretty|" + f.short(), ctx.loc(f), "`pretty` only selects the serde_json flavour; both serialise `self` into the same sink", "pretty/compact paths differ: " + detail)
        # the sink: a truncated file at `path`
        sink = None
        if plain and plain[0].name == "to_writer":
            w = plain[0].args[0]
            # `to_writer(&mut file, ..)` with `let mut file = BufWriter::new(File::create(path)?)`: a borrowed local that is
            # initialised once stands for its initialiser
            from analysis.origin import strip as _strip
            hops = 0
            while hops < 4:
                hops += 1
                w0 = _strip(w)
                if w0[0] != "local":
                    break
                defs = q.ev.def_sites().get(w0[1], [])
                if len(defs) != 1:
                    break
                d = defs[0]
                w = q.ev.call_expr(d[1]) if d[0] == "c" else q.ev.rvalue(q.body.blocks[d[1]].stmts[d[2]].rv, (d[1], d[2]))
            if has_call(w, "create", "fs::File") and path_param(w):
                sink = "File::create(path) (truncates)"
        elif plain:
            data_ok = False
            for c in q.calls(("write_all", "write")):
                if len(c.args) >= 2 and has_call(c.args[-1], plain[0].name) and has_call(c.args[-1], pretty[0].name if pretty else "?"):
                    data_ok = True
                    if c.name == "write" and "std::fs::write" in c.resolved and path_param(c.args[0]):
                        sink = "fs::write(path, bytes) (truncates)"
            if data_ok and sink is None:
                for c in q.calls(("create", "open")):
                    if c.name == "create" and "fs::File" in c.resolved and path_param(c.args[0]):
                        sink = "File::create(path) (truncates)"
                    if c.name == "open" and "OpenOptions" in c.resolved and len(c.args) == 2 and path_param(c.args[1]):
                        chain = [x for x in walk(c.args[0]) if x[0] == "call" and "OpenOptions" in x[1]]
                        flags = {x[4]: x[2][1] for x in chain if len(x[2]) == 2}
                        def on(n):
                            v = flags.get(n)
                            return v is not None and v[0] == "const" and v[3] == 1
                        if on("write") and on("truncate") and not on("append"):
                            sink = "OpenOptions.write(true).truncate(true).open(path)"
                        else:
                            sink = None
                            ctx.bad("save-load", "truncate|" + f.short(), c.loc(), "%s opens the snapshot file with OpenOptions flags %s: without write+truncate an existing longer file keeps its trailing bytes and the saved snapshot is rejected on load" % (
                                f.short(), sorted(k for k in flags if on(k))))
                            break
        ctx.check(sink is not None, "save-load", "sink|" + f.short(), ctx.loc(f), "%s writes the serialised bytes to %s" % (f.short(), sink), "%s: no truncating file sink on `path` recognised for the serialised bytes" % f.short())
        results_propagated(q, f)
    for f in (m.book_fn("load_json"), m.market_fn("load_json")):
        q = m.qi(f)
        fr = [c for c in q.calls(("from_reader", "from_slice", "from_str")) if "serde_json" in c.resolved]
        ok = len(fr) == 1 and not [a for a in fr[0].guards if not (a[0] == "variant" and a[2] in (("Continue",), ("Ok",)))]
        if ok:
            src = fr[0].args[0]
            ok = path_param(src) and (has_call(src, "open", "fs::File") or has_call(src, "read") or has_call(src, "read_to_string"))
            ok = ok and (f.impl_adt or "").split("::")[-1].split("<")[0] in fr[0].term.dest.ty
        ctx.check(ok, "save-load", "reader|" + f.short(), ctx.loc(f), "%s parses the whole file at `path` with serde_json into Self" % f.short(),
                  "%s does not parse the file at `path` with one unconditional serde_json reader call" % f.short())
        results_propagated(q, f)

    # ------------------------------------------------------------ truncation / abort freedom on the load path
    roots_f = [m.book_fn("load_json"), m.market_fn("load_json"), ld] + ds
    for f in prog.units():
        if f.crate.name == "bourse_book" and "_serde::Deserialize" in f.path or (f.crate.name == "bourse_book" and "_serde::de::Visitor" in f.path):
            roots_f.append(f)
    reach = [f for f in m.w.reachable(roots_f) if f.crate.name == "bourse_book"]
    n = 0
    for f in reach:
        q = m.q(f)
        for p in panic_sites(q):
            n += 1
            reason = None
            inner = f.impl_adt and f.impl_adt.endswith("OrderBookSide")
            if inner and p.kind.startswith("overflow:Add"):
                reason = "sums of stored remaining volumes / counts on one side stay below 2^32 for snapshots written from a valid book"
            if reason is None and p.kind in ("index", "bounds") and p.expr is not None:
                reason = index_within_len(q, p)
            key = "%s|%s" % (f.short(), p.kind)
            if reason:
                ctx.ok("load-abort-free", p.loc(), "%s -- discharged: %s" % (p.text(), reason))
            else:
                ctx.bad("load-abort-free", key, p.loc(), "the load path can abort: %s in %s (reachable from load_json / Deserialize)" % (p.text(), f.short()))
    ctx.check(len(reach) >= 20, "load-abort-free", "census", "-", "%d repository functions on the load path scanned, %d panic-capable sites" % (len(reach), n))
    ctx.assume("serde_json 1.0.114 rejects every strict prefix of a JSON object document (trusted)")
    ctx.assume("tie caveat: equal keys in stored data are impossible after the C05 stamp rule")


def index_within_len(q, p):
    """`for i in 0..c.len() { .. c[i] .. }`: the index is the item of a loop over the range 0..len(c) of the very container indexed"""
    from analysis.iterelem import iterator_expr, is_range
    from analysis.typestate import same
    from analysis.origin import strip
    e = p.expr
    if p.kind == "index" and e[0] == "index":
        cont, idx = strip(e[1]), strip(e[2])
    elif p.kind == "bounds" and e[0] == "bin" and e[1] == "Lt" and e[3][0] == "call" and e[3][4] == "len" and e[3][2]:
        cont, idx = strip(e[3][2][0]), strip(e[2])
    else:
        return None
    for c in q.calls("next"):
        item = ("field", ("downcast", c.result, "Some"), "0", "std::option::Option")
        if not same(strip(idx), strip(item)):
            continue
        it = iterator_expr(q, c)
        while it is not None and it[0] == "call" and it[2] and it[4] in ("into_iter", "iter"):
            it = it[2][0]
        if it is not None and is_range(it):
            lo, hi = it[3]
            if lo[0] == "const" and lo[3] == 0 and hi[0] == "call" and hi[4] == "len" and hi[2] and same(strip(hi[2][0]), cont):
                return "index is the item of a loop over 0..len() of the indexed container"
    return None
