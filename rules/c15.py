"""C15 – processing order is an unbiased, seed-driven shuffle (DESIGN.md §4 C15)."""
import hashlib
import os
import re
from analysis.origin import render, field_chain, walk
from .model import Model, fld
from .stepmodel import StepShape, REORDER, ADAPTERS

LEVEL = "other"
MIN_OBLIGATIONS = 16
EXPLANATION = (
    "Reduction to the trusted library, decided from the code's shape: in each step exactly one call resolves to "
    "rand::seq::SliceRandom::shuffle on the *whole* taken batch (deref_mut of the taken vector: no slice, no "
    "partial_shuffle), with the step's own generator parameter, unconditionally and dominating the processing loop; between "
    "the shuffle and the end of the loop nothing can reorder or drop elements of the batch (deny list on calls taking the "
    "batch, iterator adapters as in C08); no other randomness source is reachable from step; Cargo.lock pins rand 0.8.5 "
    "(checksum recorded) whose shuffle is Fisher-Yates and is generic in the element type without any bound on it "
    "(content-oblivious by parametricity). Uniformity of Fisher-Yates over gen_range and the generator's quality are "
    "trusted; no frequencies are measured.")


def lock_entry(repo, name):
    try:
        s = open(os.path.join(repo, "Cargo.lock")).read()
    except OSError:
        return None
    out = []
    for blk in s.split("[[package]]"):
        mm = re.search(r'name = "%s"\s+version = "([^"]+)"(?:\s+source = "[^"]+")?(?:\s+checksum = "([^"]+)")?' % re.escape(name), blk)
        if mm:
            out.append((mm.group(1), mm.group(2)))
    return out


def run(ctx):
    m = Model(ctx)
    for owner, getter, obj in (("Env", m.env_fn, "order_book"), ("MarketEnv", m.menv_fn, "market")):
        f = getter("step")
        s = StepShape(m, f, obj)
        q = s.q
        tag = owner + "::step"
        if not s.has_batch() or s.loop_next is None:
            ctx.lost("shuffle", "%s: taken batch / processing loop not recognised" % tag)
            continue
        # "every instruction is equally likely at every position": the batch that is shuffled and processed is everything that was
        # queued - taken whole, once, nothing split off, filtered or put back (C08's queue rules)
        from . import c08
        from .c06 import _Prefixed
        c08.queue_rules(_Prefixed(ctx, "whole-"), m, owner, s)
        sh = [c for c in q.calls("shuffle")]
        ok = len(sh) == 1 and sh[0].term.j.get("callee_dp") == "rand::seq::SliceRandom::shuffle" and sh[0].term.j.get("callee_crate") == "rand" \
            and sh[0].resolved.startswith("<[T] as ") and (sh[0].term.j.get("resolved_dp") or "").startswith("rand::seq::")
        ctx.check(ok, "shuffle", tag + "|single", sh[0].loc() if sh else ctx.loc(f), "exactly one shuffle call, resolved to rand::seq::SliceRandom::shuffle (%s)" % (sh[0].resolved if sh else "-"),
                  "step has %d shuffle calls%s" % (len(sh), "" if not sh else " / resolved to " + sh[0].resolved))
        if len(sh) != 1:
            continue
        c = sh[0]
        recv = c.args[0]
        whole = s.is_batch(recv)
        raw = c.raw[0]
        sliced = any(x[0] == "call" and x[4] in ("index", "index_mut", "get_mut", "split_at_mut", "first_mut", "last_mut", "chunks_mut", "get") for x in walk(raw)) or \
            any(x[0] in ("index", "cindex") for x in walk(raw))
        ctx.check(whole and not sliced, "shuffle", tag + "|whole-batch", c.loc(), "the shuffle receives the whole taken batch", "the shuffle receives %s" % render(recv))
        rng = c.args[1] if len(c.args) > 1 else None
        ctx.check(rng is not None and rng[0] == "param" and rng[2] == "rng", "shuffle", tag + "|generator", c.loc(), "the shuffle draws from the step's generator parameter",
                  "the shuffle draws from %s" % (render(rng) if rng else "?"))
        from .stepmodel import benign_batch_guard
        real = [a for a in c.guards if not benign_batch_guard(a, s, for_shuffle=True)]
        # with a benign emptiness guard the shuffle need not dominate the loop head, but every path that enters the loop body
        # with a non-empty batch passes it: the loop is under the same guard or the shuffle dominates the loop
        dom = q.body.dominates(c.b, s.head) or (len(c.guards) > 0 and not real and all(
            any(benign_batch_guard(a, s, for_shuffle=False) for a in x.guards) or q.body.dominates(c.b, x.b) for x in [s.loop_next]))
        ctx.check(not real and not q.cfg.in_loop(c.b) and dom, "shuffle", tag + "|unconditional", c.loc(),
                  "the shuffle runs whenever there is something to shuffle (conditions: %s) and precedes the processing loop" % (c.gtext() or "none"),
                  "the shuffle is conditional on [%s] or does not dominate the loop" % c.gtext())
        if s.in_place:
            ctx.check(q.body.dominates(c.b, s.take.b) and c.b != s.take.b, "shuffle", tag + "|after-take", c.loc(), "the queue is shuffled in place before the loop drains it")
        else:
            ctx.check(q.cfg.strictly_after(s.take.b, c.b), "shuffle", tag + "|after-take", c.loc(), "the shuffle happens after the batch is taken")
        # nothing reorders/drops between the shuffle and the end of the loop
        region = q.cfg.reach_from(c.b) if True else set()
        bad = []
        for x in q.calls():
            if x.b == c.b or x.b not in region:
                continue
            touches = any(s.mentions_batch(a) for a in x.args)
            if touches and x.name in REORDER and not (s.in_place and x is s.take):
                bad.append(x)
        ctx.check(not bad, "shuffle", tag + "|no-reorder", ctx.loc(f), "no call after the shuffle can reorder or drop batch elements",
                  "after the shuffle the batch is passed to %s" % ", ".join(x.name for x in bad))
        chain = [n for n in s.chain if n in ADAPTERS]
        s.iter_chain(s.loop_next)
        if chain == ["zip"] and len(s.get_time) == 1 and s.zip_clock(s.get_time[0].result) is not None:
            chain = []        # paired with the unbounded clock range `start..`: order and length of the batch untouched
        ctx.check(not chain, "shuffle", tag + "|no-adapter", s.loop_next.loc(), "the loop consumes the shuffled batch front to back (no reordering adapter)",
                  "the loop iterates through %s" % chain)
        # other randomness in step
        other = [x for x in q.calls() if x.b != c.b and (x.term.j.get("callee_crate") in ("rand", "rand_core", "rand_xoshiro", "rand_distr", "getrandom"))]
        ctx.check(not other, "shuffle", tag + "|only-randomness", ctx.loc(f), "the shuffle is the only use of randomness in step", "step also calls %s" % ", ".join(x.name for x in other))
    # sibling
    # library pin
    ents = lock_entry(ctx.repo, "rand")
    ok = ents is not None and len(ents) == 1 and ents[0][0] == "0.8.5" and ents[0][1]
    ctx.check(ok, "library", "rand-pin", "Cargo.lock", "Cargo.lock pins rand %s (checksum %s...)" % (ents[0][0], (ents[0][1] or "")[:16]) if ok else "rand pinned",
              "Cargo.lock does not pin exactly rand 0.8.5: %s" % ents)
    ctx.extra["rand_lock"] = ents
    # the position an instruction is processed at is decided by the shuffle alone: a submission only creates a New record, its
    # outcome is not decided early (an order decided at submission is in effect always processed first) - C10's creation rule
    from .c10 import creation_outcome_rules
    creation_outcome_rules(ctx, m, rule="no-early-decision")

    ctx.assume("rand 0.8.5 SliceRandom::shuffle is a Fisher-Yates shuffle driven only by the passed generator (trusted library)")
    ctx.assume("shuffle<R>(&mut self, rng) is generic over the element type without bounds: the permutation cannot depend on instruction contents")
