"""C01 – strict price-time priority (DESIGN.md §4 C01): premises K1–K6."""
from analysis.origin import render, field_chain, walk
from analysis.typestate import same
from .model import Model, fld, opposite, is_max_u32
from .c04 import run_typestate
from . import c02, c03

LEVEL = "other"
MIN_OBLIGATIONS = 50
EXPLANATION = (
    "Decides the premises from which equality with a reference price-time engine follows by induction over operations "
    "(given invariant I and BTreeMap ordering): K1 every priority key's price component is the order's price (through the "
    "side transform), K2 the transform is monotone (ask identity, bid MAX-price; wrappers mirror), K3 the key's time "
    "component is the book clock / the strictly increasing queue stamp at the call, never a stored field or constant, K4 "
    "each matching loop pops the head of the opposite side while `aggressor.vol > 0 && limit admits best price` and exits "
    "only when a conjunct fails or the side is empty, K5 the fill is min(volumes) at the passive price, K6 typestate exit "
    "states: a limit remainder is queued on its own side iff not Filled, a market remainder never rests, K7 a Modify event "
    "reduces in place exactly for a pure strict volume reduction and otherwise re-enters the order (C06's dispatch rules). The induction "
    "itself is an informal argument; no numeric history is evaluated.")


def bin_of(v):
    return c02.bin_of(v)


def stamp_fn(m):
    return m.stamp_fn()


def is_clock_like(m, e, stamp):
    """clock read of the receiver book, or the result of the stamp method"""
    if fld(e, m.f_clock) and field_chain(e)[0][0] == "param":
        return "clock"
    if stamp is not None and e[0] == "call" and e[4] == stamp.name and e[2] and e[2][0][0] == "param":
        return "stamp"
    return None


def read_after(q, raw, addr, write):
    """every load of `addr` inside the (unstripped) value `raw` happens after the write `write` (same block later, or a
    block the write's block dominates)"""
    from analysis.origin import strip
    if raw is None:
        return False
    pts = [x[2] for x in walk(raw) if x[0] == "load" and same(strip(x[1]), addr)]
    if not pts:
        return False
    wi = write.i if write.i is not None else 1 << 20
    for (b, i) in pts:
        if b == write.b:
            if i <= wi:
                return False
        elif not q.body.dominates(write.b, b):
            return False
    return True


KEY_BUILDERS = {"get_bid_key": "Bid", "get_ask_key": "Ask"}


def key_write_rules(ctx, m, op_roots, k1="K1-key-price", k3="K3-queue-time"):
    """K1 / K3 on every priority-key write in the whole-operation views of `op_roots` (a key may be rebuilt in a helper
    shared by placement and replacement); returns the number of key writes judged"""
    key_builders = KEY_BUILDERS
    stamp = stamp_fn(m)
    n_key = 0
    for (f, q) in [(f_, m.sv(f_, S_)) for f_ in op_roots for S_ in ("Bid", "Ask")]:
        price_writes = q.writes(field="price", owner="Order")
        for w in q.writes(field="key", owner="OrderEntry"):
            n_key += 1
            X = w.addr[1]
            v = w.val
            tcomp = pcomp = None
            side = None
            if v[0] == "agg" and v[1] == "tuple" and len(v[3]) == 3:
                side = v[3][0][2].split("::")[-1] if v[3][0][0] == "agg" else None
                pcomp, tcomp = ("raw", v[3][1]), v[3][2]
            elif v[0] == "call" and v[4] in key_builders:
                side = key_builders[v[4]]
                tcomp = v[2][0]
                pcomp = ("price", v[2][1])
            else:
                ctx.bad(k1, "shape|" + f.short(), w.loc(), "priority key written with an unrecognised value: " + w.text())
                continue
            # K3
            kind = is_clock_like(m, tcomp, stamp)
            if stamp is not None and kind == "clock":
                kind = None  # mixing raw clock values with stamps breaks their monotone order (a stamp may run ahead of the clock)
            ctx.check(kind is not None, k3, f.short() + "|" + str(side), w.loc(),
                      "key time component <- %s (%s)" % (render(tcomp), "book clock at the call" if kind == "clock" else "strictly increasing queue stamp >= clock"),
                      "key time component is %s: must be the %s at the call, never a stored order field, a constant%s" % (
                          render(tcomp), "queue stamp" if stamp is not None else "book clock", " or the raw clock (stamps may run ahead of it)" if stamp is not None else ""))
            # K1
            if pcomp[0] == "raw":
                ok = same(pcomp[1], ("field", ("field", X, "key", ""), "1", "")) and not [p for p in price_writes if same(p.addr[1], ("field", X, "order", "")) and q.cfg.can_reach(p.b, w.b)]
                ctx.check(ok, k1, f.short() + "|keep|" + str(side), w.loc(),
                          "key price component kept from the stored key (price not rewritten earlier in this operation)",
                          "key price component is %s (expected the stored key's price component, with the price unchanged)" % render(pcomp[1]))
            else:
                pw = [p for p in price_writes if same(p.addr[1], ("field", X, "order", "")) and q.cfg.can_reach(p.b, w.b)]
                own_price = ("field", ("field", X, "order", ""), "price", "")
                ok = (len(pw) == 1 and pw[0].val == pcomp[1] and q.body.dominates(pw[0].b, w.b)) or \
                     (same(pcomp[1], own_price) and all(read_after(q, w.rawval, own_price, p) for p in pw))
                ctx.check(ok, k1, f.short() + "|new|" + str(side), w.loc(),
                          "key price component <- %s-side transform of the value assigned to the order's price (%s)" % (side, render(pcomp[1])),
                          "key built from %s but the order's price is %s" % (render(pcomp[1]), "; ".join(p.text() for p in pw) or "not written here"))
    return n_key


def fresh_stamp_rules(ctx, m, op_roots, rule="K3-fresh-stamp"):
    """an order that is queued by an operation goes "behind every order already at that price": the queue time it is filed under
    is taken in the SAME operation (the key handed to the insertion carries a stamp / clock read of this call, not a value stored
    earlier - e.g. at creation). Judged at every live insertion site of the side views; returns the number of sites."""
    stamp = stamp_fn(m)
    n = 0
    for f in op_roots:
        for S in ("Bid", "Ask"):
            q = m.sv(f, S)
            live = q.cfg.reach_from(0)
            for c in q.calls("insert_order"):
                if c.b not in live or len(c.args) < 2:
                    continue
                n += 1
                v = c.args[1]
                tcomp = None
                if v[0] == "agg" and v[1] == "tuple" and len(v[3]) == 3:
                    tcomp = v[3][2]
                elif v[0] == "call" and v[4] in KEY_BUILDERS and v[2]:
                    tcomp = v[2][0]
                kind = is_clock_like(m, tcomp, stamp) if tcomp is not None else None
                if stamp is not None and kind == "clock":
                    kind = None
                if kind is None and v[0] == "field" and v[2] == "key":
                    # the stored key, re-written earlier in this operation on every path to the insertion (the value written
                    # there is judged by the key-write rule K3-queue-time)
                    kw = [w for w in q.writes(field="key", owner="OrderEntry") if same(w.addr[1], v[1]) and w.b in live and
                          (q.body.dominates(w.b, c.b) or q.cfg.all_paths_pass(0, c.b, [w.b]))]
                    if kw:
                        kind = "rewritten"
                ctx.check(kind is not None, rule, "%s|%s|%s" % (f.short(), S, c.sp["line"] if hasattr(c, "sp") else c.b), c.loc(),
                          "%s-side insertion in %s files the order under a queue time taken in this operation (%s)" % (S, f.name, "key re-written in this operation" if kind == "rewritten" else (render(tcomp) if tcomp is not None else "?")),
                          "%s-side insertion in %s files the order under %s: the queue time is not taken in this operation (an order created early and placed late would "
                          "jump ahead of orders already resting at its price)" % (S, f.name, render(v)[:120]))
    return n


def matching_loop_rules(ctx, m, RULE="K4-loop"):
    """loop condition / exits / termination / progress / fresh best price of every matching-loop context (side views)"""
    # ---------------------------------------------------------------- K4 matching loops
    # (judged on the side-specialised whole-operation views of place_order / modify_order: the loop may be written once per
    #  passive side, or once for both with the passive side chosen from the aggressor's side, and its condition may live in
    #  a helper returning the next passive id)
    loopsites = []
    for root_ in (m.book_fn("place_order"), m.book_fn("modify_order")):
        for S_ in ("Bid", "Ask"):
            q_ = m.sv(root_, S_)
            live_ = q_.cfg.reach_from(0)
            for (h_, sd_, c_) in m.ov_matching_loops(q_):
                if h_ in live_:
                    loopsites.append((q_, h_, sd_, c_, root_, S_))
    ctx.check(len(loopsites) >= 2 and {x[2] for x in loopsites} == {"Bid", "Ask"}, RULE, "matchers", "-",
              "%d matching-loop contexts over both passive sides" % len(loopsites), "expected matching loops over both passive sides, found %s" % sorted({x[2] for x in loopsites}))
    tw_paths = {t_[0].path for t_ in m.trade_writers()}

    def is_agg(e):
        """an expression over the aggressor: not derived from the passive queue head"""
        return not any(x[0] == "call" and x[4] == "best_order_idx" for x in walk(e))
    for (q, head, r, c, root_, S_) in loopsites:
        f = root_
        pre = "%s|%s" % (root_.short(), r)
        body = q.body.loop_body(head)
        # conditions under which the passive order is acquired AND used: those on the queue-head query plus those on the fill
        # (a condition may be tested on the way from one to the other: `best_order_idx().filter(|_| limit admits ..)`)
        g = list(c.guards)
        for x_ in q.calls():
            if x_.b in body and x_.target is not None and x_.target.path in tw_paths:
                g += [a for a in x_.guards if a not in g]
        vol_atoms = [a for a in g if a[0] == "cmp" and a[1] in ("gt", "ne") and a[2][0] == "field" and a[2][2] == "vol" and a[3][0] == "const" and a[3][3] == 0
                     and is_agg(a[2])]
        ctx.check(len(vol_atoms) >= 1, RULE, pre + "|vol", c.loc(), "passive order acquired only while aggressor.vol > 0",
                  "loop condition lacks `aggressor.vol > 0` (conditions: %s)" % c.gtext())
        price_ok = False
        for a in g:
            if a[0] == "cmp" and a[1] == "le":
                lo, hi = a[2], a[3]
                if r == "Ask":
                    # best ask <= aggressor limit
                    if lo[0] == "call" and lo[4] == "best_price" and "AskSide" in lo[1] and hi[0] == "field" and hi[2] == "price" and is_agg(hi):
                        price_ok = True
                else:
                    if hi[0] == "call" and hi[4] == "best_price" and "BidSide" in hi[1] and lo[0] == "field" and lo[2] == "price" and is_agg(lo):
                        price_ok = True
        ctx.check(price_ok, RULE, pre + "|limit", c.loc(),
                  "passive order acquired only while the limit admits the best %s price (%s)" % (r.lower(), "limit >= best ask" if r == "Ask" else "limit <= best bid"),
                  "loop condition lacks the non-strict limit test against the %s side's best price (conditions: %s)" % (r, c.gtext()))
        # the best price the limit is tested against is CURRENT: nothing may change the passive side between the query and
        # the test that uses it (a cached `best_price` refreshed before the filled head order is removed is stale by one order)
        limit_blocks = set()
        for b_ in sorted(body):
            t_ = q.body.blocks[b_].term
            if t_ is None or t_.k != "switch":
                continue
            for s_ in set(q.body.succs(b_)):
                for a in q.cfg.edge_atoms(b_, s_):
                    if a[0] == "cmp" and a[1] in ("le", "lt", "ge", "gt") and any(x[0] == "call" and x[4] == "best_price" and (r + "Side") in x[1] for x in (a[2], a[3])):
                        limit_blocks.add(b_)
        live_ = q.cfg.reach_from(0)
        bps = [x for x in q.calls("best_price") if x.b in live_ and (r + "Side") in x.resolved]
        for S_blk in sorted(limit_blocks):
            for x in bps:
                others = [y.b for y in bps if y.b != x.b]
                if S_blk in q.cfg.reach_from(x.b, cut_blocks=[y for y in others if y != S_blk]):
                    fresh = q.cfg.pure_path(x.b, S_blk, cut=tuple(others))
                    ctx.check(fresh, RULE, pre + "|fresh-best-price", x.loc(), "the best %s price tested by the loop is read with nothing in between that changes the side" % r.lower(),
                              "the %s side can change (an order removed / volume taken) between this best_price() query and the loop's limit test: the limit is tested against a stale price" % r)
        # same entity in both atoms
        if vol_atoms and price_ok:
            e1 = vol_atoms[0][2][1]
            e2s = [a for a in g if a[0] == "cmp" and a[1] == "le"]
            ent_ok = any(same(x[1], e1) for a in e2s for x in (a[2], a[3]) if x[0] == "field" and x[2] == "price")
            ctx.check(ent_ok, RULE, pre + "|same-order", c.loc(), "volume and limit tests refer to the same (aggressor) order")

        def is_best(x):
            return x[0] == "call" and x[4] == "best_price" and (r + "Side") in x[1]

        def is_limit(x):
            return x[0] == "field" and x[2] == "price" and is_agg(x)

        def is_cond_conj(x):
            """x is one of the two conjuncts of the loop condition (as an expression)"""
            if x[0] != "bin":
                return False
            if x[1] in ("Gt", "Ne", "Lt") and any(y[0] == "field" and y[2] == "vol" for y in (x[2], x[3])) and any(y[0] == "const" and y[3] == 0 for y in (x[2], x[3])):
                return True
            return x[1] in ("Ge", "Le") and ((is_best(x[2]) and is_limit(x[3])) or (is_best(x[3]) and is_limit(x[2])))

        def legit(atoms):
            """a reason for which the loop may be left, among the branch atoms `atoms`"""
            for a in atoms:
                if a[0] == "bool" and a[2] is False and a[1][0] == "bin" and a[1][1] == "BitAnd" and is_cond_conj(a[1][2]) and is_cond_conj(a[1][3]):
                    return "loop condition false"
                if a[0] == "cmp" and a[1] in ("eq", "le") and a[2][0] == "field" and a[2][2] == "vol" and a[3][0] == "const" and a[3][3] == 0 and is_agg(a[2]):
                    return "aggressor exhausted (vol == 0)"
                if a[0] == "cmp" and a[1] == "lt" and ((r == "Ask" and is_limit(a[2]) and is_best(a[3])) or (r == "Bid" and is_best(a[2]) and is_limit(a[3]))):
                    return "limit no longer admits the best %s price" % r.lower()
                if a[0] == "variant" and a[2] == ("None",) and a[1][0] == "call" and a[1][4] == "best_order_idx":
                    return "opposite side empty (best_order_idx is None)"
                if a[0] == "variant" and a[2] == ("None",) and a[1][0] == "call" and a[1][4] == "filter" and len(a[1][2]) == 2 \
                        and a[1][2][0][0] == "call" and a[1][2][0][4] == "best_order_idx" and a[1][2][1][0] == "agg" and a[1][2][1][1] == "closure":
                    # best_order_idx().filter(|_| cond) is None: the side is empty or cond is false - cond must be the loop condition
                    from analysis.cfg import closure_apply
                    pred = closure_apply(ctx.prog, a[1][2][1], [("field", ("downcast", a[1][2][0], "Some"), "0", "")])
                    if pred is not None and ((pred[0] == "bin" and pred[1] == "BitAnd" and is_cond_conj(pred[2]) and is_cond_conj(pred[3])) or is_cond_conj(pred)):
                        return "opposite side empty or loop condition false"
            return None

        def none_sources(b):
            """for a switch on an Option that is NOT directly the queue head: where its `None` can come from - each source must
            itself be a reason to stop (the queue-head call returning None, or a None built under a legitimate condition)"""
            defs = q.cfg.switch_value_defs(b)
            if not defs:
                return None
            out = []
            for d in defs:
                if d[0] == "call" and d[2] == "best_order_idx":
                    out.append("opposite side empty (best_order_idx is None)")
                elif d[0] == "agg" and d[2] == "None":
                    why = legit(q.cfg.guards(d[1]))
                    if why is None:
                        return None
                    out.append(why)
                elif d[0] == "agg" and d[2] == "Some":
                    continue
                else:
                    return None
            return out
        # exits
        exits = []
        for b in sorted(body):
            for s_ in q.body.succs(b):
                if s_ not in body and not q.body.blocks[s_].cleanup and q.body.blocks[s_].term.k != "unreachable":
                    exits.append((b, s_))
        for (b, s_) in exits:
            t = q.body.blocks[b].term
            atoms = q.cfg.edge_atoms(b, s_) if t.k == "switch" else None
            ok = False
            why = ""
            if atoms is not None:
                why = legit(atoms)
                ok = why is not None
                if not ok and any(a[0] == "variant" and a[2] == ("None",) for a in atoms):
                    srcs = none_sources(b)
                    if srcs:
                        ok = True
                        why = "next passive id is None: " + " / ".join(sorted(set(srcs)))
            ctx.check(ok, RULE, "%s|exit-bb%d" % (pre, 0 if ok else b), q.loc(t.sp),
                      "loop exit: %s" % why, "matching loop can be left for another reason: %s" % (" && ".join(render_atom_safe(a) for a in (atoms or [])) or t.k))
        ctx.check(len(exits) >= 1, RULE, pre + "|exits", c.loc(), "%d loop exits analysed" % len(exits))
        # termination: when the opposite side is empty (best_order_idx is None) the loop must be LEFT – otherwise a
        # market order (whose sentinel price always admits the empty side's sentinel best price) spins forever
        none_edges = []
        for b in sorted(body):
            t = q.body.blocks[b].term
            if t.k != "switch":
                continue
            for s2 in set(q.body.succs(b)):
                ats = q.cfg.edge_atoms(b, s2)
                def head_or_filtered(x):
                    # the queue-head query itself, or `best_order_idx().filter(..)` (None whenever the query is None)
                    if x[0] == "call" and x[4] == "filter" and len(x[2]) == 2:
                        x = x[2][0]
                    return x[0] == "call" and x[4] == "best_order_idx"
                if any(a[0] == "variant" and a[2] == ("None",) and head_or_filtered(a[1]) for a in ats):
                    none_edges.append((b, s2))
                elif any(a[0] == "variant" and a[2] == ("None",) for a in ats):
                    defs = q.cfg.switch_value_defs(b) or []
                    if any(d[0] == "call" and d[2] == "best_order_idx" for d in defs):
                        none_edges.append((b, s2))
        outside = [x for x in range(len(q.body.blocks)) if x not in body]
        leaves = bool(none_edges) and all(s2 not in body or head not in q.cfg.reach_from(s2, cut_blocks=outside) for (_b, s2) in none_edges)
        ctx.check(leaves, RULE, pre + "|empty-side-exit", c.loc(), "when the %s side is empty (no best order) the matching loop is left" % r.lower(),
                  "with the %s side empty the loop is not left (no path from the `None` arm leaves it before the next iteration): an unfillable market order never terminates" % r.lower())
        # progress: every iteration that acquires a passive order calls the trade writer (fill >= 1 by K5 / vol > 0)
        tw = [x for x in q.calls() if x.b in body and x.target is not None and x.target.path in tw_paths]
        succ_c = [x for x in q.body.succs(c.b) if not q.body.blocks[x].cleanup]
        prog_ok = bool(tw) and bool(succ_c) and (head not in q.cfg.reach_from(succ_c[0], cut_blocks=set(outside) | {x.b for x in tw} | {s2 for (_b, s2) in none_edges if s2 != head}))
        ctx.check(prog_ok, RULE, pre + "|progress", c.loc(), "every iteration either fills (trade writer called) or leaves the loop",
                  "an iteration can return to the loop head without a fill and without leaving")
        # aggressor side = opposite(r) in every calling context
        # (the typestate runs on whole-operation views: the contexts are the fills it meets, see `K4-fill-sides` below)


def run(ctx):
    m = Model(ctx)
    stamp = stamp_fn(m)
    if stamp is not None:
        from .c05 import stamp_rules
        stamp_rules(ctx, m, prefix="K3-stamp")
    ts, roots, _ld = run_typestate(ctx, m)

    # ---------------------------------------------------------------- K1 / K3: key writes
    key_builders = KEY_BUILDERS
    op_roots = [f_ for f_ in m.book_pub_fns() if f_.params and f_.params[0] == "self"]
    n_key = key_write_rules(ctx, m, op_roots)
    ctx.check(n_key >= 4, "K1-key-price", "census", "-", "%d live key writes analysed" % n_key)
    n_ins = fresh_stamp_rules(ctx, m, [m.book_fn("place_order"), m.book_fn("modify_order")])
    ctx.check(n_ins >= 4, "K3-fresh-stamp", "census", "-", "%d live insertion sites analysed (place_order / modify_order, both sides)" % n_ins)
    # creation: key = side key-builder(order.price) for the side the order is created on (judged on the views of
    # create_order specialised to either value of its side parameter: the builder may be chosen in a helper)
    create = m.book_fn("create_order")
    for S in ("Bid", "Ask"):
        cq = m.sv(create, S)
        live = cq.cfg.reach_from(0)
        kb = [c for c in cq.calls(tuple(key_builders)) if c.b in live]
        ctx.check(len(kb) >= 1 and all(key_builders[c.name] == S for c in kb), "K1-key-price", "create|builders|" + S, ctx.loc(create),
                  "create_order builds the key of a %s order with the %s-side key-builder" % (S, S),
                  "create_order builds the key of a %s order with %s" % (S, sorted({c.name for c in kb}) or "no key-builder"))
        for c in kb:
            a_price = c.arg_named("price")
            ok = a_price is not None and a_price[0] == "field" and a_price[2] == "price"
            ctx.check(ok, "K1-key-price", "create|" + S, c.loc(), "create_order: %s-side key from the new order's own price" % S,
                      "create_order: %s(%s)" % (c.name, render(a_price) if a_price else "?"))
        pushes = [c for c in cq.calls("push") if c.b in live and fld(c.args[0], m.f_orders)]
        ctx.check(len(pushes) == 1, "K1-key-price", "create|push|" + S, ctx.loc(create), "create_order stores exactly one entry")
        if len(pushes) == 1:
            ent = pushes[0].args[1]
            ok = ent[0] == "agg" and ent[2].endswith("OrderEntry::OrderEntry")
            if ok:
                fields = dict(zip(ent[4], ent[3]))
                korig = fields["key"]
                alts = korig[1] if korig[0] == "phi" else (korig,)
                oalts = fields["order"][1] if fields["order"][0] == "phi" else (fields["order"],)

                def of_stored_order(x):
                    # the key's price operand is `<o>.price` with <o> the stored order (or one of its joined alternatives)
                    return same(x, fields["order"]) or any(same(x, o) for o in oalts)
                ok = all(a[0] == "call" and a[4] in key_builders and key_builders[a[4]] == S and a[2][1][0] == "field" and a[2][1][2] == "price" and of_stored_order(a[2][1][1]) for a in alts)
                # the stored order itself is made by the constructors of side S
                ctors = [y[4] for o in oalts for y in walk(o) if y[0] == "call" and y[4] in ("buy_limit", "buy_market", "sell_limit", "sell_market")]
                ok = ok and bool(ctors) and all(("buy" in c_) == (S == "Bid") for c_ in ctors)
            ctx.check(ok, "K1-key-price", "create|entry|" + S, pushes[0].loc(), "the stored entry pairs the %s order with the key built from that order's price" % S,
                      "the stored entry's key is not built from the stored order's price (or the order is not built by the %s-side constructors)" % S)
    # price writes: only where the key is rebuilt afterwards
    for (f, q) in [(f_, m.sv(f_, S_)) for f_ in op_roots for S_ in ("Bid", "Ask")]:
        for pw in q.writes(field="price", owner="Order"):
            E = pw.addr[1]
            X = E[1] if E[0] == "field" and E[2] == "order" else None
            kws = [w for w in q.writes(field="key", owner="OrderEntry") if X is not None and same(w.addr[1], X) and q.cfg.can_reach(pw.b, w.b)]
            ins = [c for (c, _s) in m.side_op_calls(q, "insert_order") if q.cfg.can_reach(pw.b, c.b)]
            ok = bool(kws) and all(any(q.body.dominates(w.b, c.b) for w in kws) for c in ins)
            ctx.check(ok, "K1-key-price", "price-write|" + f.short(), pw.loc(), "price rewrite is followed by a key rebuild before every re-insertion",
                      "order price rewritten (%s) but a later insertion is not dominated by a key rebuild" % pw.text())

    # ---------------------------------------------------------------- K2
    c02.wrappers(ctx, m)
    c02.lockstep(ctx, m)       # the priority map is keyed (key.1, key.2) -> id; queries read its FIRST entry
    c02.writeback(ctx, m)      # the working copy of the order is stored back on every modifying path

    # ---------------------------------------------------------------- K4 matching loops
    matching_loop_rules(ctx, m)
    # aggressor and passive order of every fill are on opposite sides (typestate side attribute at each trade-writer call)
    tws = {f_.path for (f_, _c) in m.trade_writers()}
    n_fill = 0
    for (caller, callee, ent, where) in ts.calls:
        if callee.path not in tws:
            continue
        n_fill += 1
        ss = [set(v) for v in ent.values()]
        ok = len(ss) == 2 and all(len(x) == 1 for x in ss) and ss[0] != ss[1]
        ctx.check(ok, "K4-fill-sides", "%s|%s" % (caller.short(), where.split(" (")[0].split(":")[-1] if False else caller.short()), where,
                  "the two orders of a fill are on opposite sides (%s)" % {k: sorted(v) for k, v in ent.items()},
                  "a fill can pair orders whose sides are %s (aggressor and passive must be on opposite sides)" % {k: sorted(v) for k, v in ent.items()})
    ctx.check(n_fill >= 2, "K4-fill-sides", "census", "-", "%d fill contexts examined by the typestate" % n_fill)
    # ---------------------------------------------------------------- K4-run: the loop runs whenever trading is on
    # An incoming / re-priced order must be offered to the opposite side on EVERY path (given trading): the only
    # conditions a matching call may depend on are the trading flag, the order's own side / kind / status
    # discriminants.  Any price/volume/market-data dependent shortcut ("cannot cross, skip matching") is a violation.
    # Judged as a must-pass rule on the whole-operation view of place_order (replacements always re-insert, so for them
    # `K4-match-before-rest` below is the same statement): for either side S of the incoming order, every path from the
    # entry to a normal return that does not see trading == false and does not bail out on the order's status passes
    # through a matching loop whose passive side is opposite(S).
    pf = m.book_fn("place_order")
    n_loops_run = 0
    for S in ("Bid", "Ask"):
        q = m.sv(pf, S)
        live0 = q.cfg.reach_from(0)
        loops = [x for x in m.ov_matching_loops(q) if x[0] in live0]
        n_loops_run += len(loops)
        heads_all = {h for (h, _sd, _c) in loops}
        rets = q.body.return_blocks()
        cut_edges = []
        for blk in q.body.blocks:
            t = blk.term
            if blk.cleanup or not t or t.k != "switch":
                continue
            for s2 in set(q.body.succs(blk.i)):
                for a in q.cfg.edge_atoms(blk.i, s2):
                    if a[0] == "bool" and a[2] is False and fld(a[1], m.f_trading):
                        cut_edges.append((blk.i, s2))
                    elif a[0] == "cmp" and a[1] in ("eq", "ne") and any(x[0] == "field" and x[2] == "status" for x in (a[2], a[3])) \
                            and not (q.cfg.reach_from(s2) & heads_all):
                        cut_edges.append((blk.i, s2))     # bail-out on the order's status (already placed)
        good = {h for (h, sd, _c) in loops if sd == opposite(S)}
        reach = q.cfg.reach_from(0, cut_edges=cut_edges, cut_blocks=good)
        skipped = [rb for rb in rets if rb in reach]
        ctx.check(bool(good) and not skipped, "K4-run", "place_order|" + S, ctx.loc(pf),
                  "a new %s order is offered to the %s side's matching loop on every path with trading on" % (S, opposite(S)),
                  "place_order can return for a new %s order with trading on without entering the %s-side matching loop: an order that crosses can rest (or a market order go unmatched) without trading" % (S, opposite(S)))
        wrong = [h for (h, sd, _c) in loops if sd == S and h in reach]
        ctx.check(not wrong, "K4-run", "place_order|wrong-side|" + S, ctx.loc(pf), "a new %s order never enters the %s-side (its own side's) matching loop" % (S, S),
                  "a new %s order can enter the matching loop over its own side" % S)
    ctx.check(n_loops_run >= 2, "K4-run", "census", ctx.loc(pf), "%d matching loops inside the side-specialised whole-operation views of place_order" % n_loops_run)
    c02.never_crossed(ctx, m, rule="K4-match-before-rest")

    # ---------------------------------------------------------------- K5 fill rule
    r5 = c03.fill_rules(ctx, m, census=False)
    if r5 is not None:
        twf, tq, push, pas, agg, tparam, delta = r5
        for (f, fq) in [(f_, m.sv(f_, S_)) for f_ in (m.book_fn("place_order"), m.book_fn("modify_order")) for S_ in ("Bid", "Ask")]:
            live = fq.cfg.reach_from(0)
            for c in fq.calls(twf.name):
                if c.target is None or c.target.path != twf.path or c.b not in live:
                    continue
                a_p = c.arg_named(pas)
                from_best = a_p is not None and any(x[0] == "call" and x[4] == "best_order_idx" for x in walk(a_p))
                ctx.check(from_best, "K5-fill", "passive|" + f.short(), c.loc(), "the passive parameter receives the head of the opposite queue (best_order_idx)",
                          "the passive parameter `%s` receives %s" % (pas, render(a_p) if a_p else "?"))
    # ---------------------------------------------------------------- K6 remainder (typestate)
    for v in ts.violations.values():
        if v.rule in ("insert", "remove", "exit-invariant", "key-side", "state-machine", "typestate-anchor"):
            ctx.bad("K6-" + v.rule, v.key, v.where, v.what)
    res = roots["place_order"]
    f = m.book_fn("place_order")
    rel = set()
    for k, vs in res["exit"].items():
        for t in vs:
            if t[4] == "New":
                rel.add((t[5], t[0], t[1], t[2]))
    lim = {(st, inm) for (kd, st, inm, sd) in rel if kd == "limit"}
    mkt = {(st, inm) for (kd, st, inm, sd) in rel if kd == "market"}
    ctx.check(lim == {("Active", True), ("Filled", False)}, "K6-remainder", "limit", ctx.loc(f),
              "a placed limit order ends queued+Active or unqueued+Filled", "a placed limit order may end as %s" % sorted(lim))
    ctx.check(mkt and all(not inm and st in ("Filled", "Cancelled", "Rejected") for st, inm in mkt), "K6-remainder", "market", ctx.loc(f),
              "a placed market order ends Filled/Cancelled/Rejected and is never queued", "a placed market order may end as %s" % sorted(mkt))
    ins_sides = [(o[2], o[3], {t[2] for t in o[4]}) for o in ts.ops if o[1] == "insert"]
    ctx.check(all(sd == {s} for (s, _w, sd) in ins_sides) and len(ins_sides) >= 6, "K6-remainder", "own-side", "-",
              "all %d insertion sites file the order on its own side" % len(ins_sides))
    # ---------------------------------------------------------------- K7 modification events (process_event replays them)
    from .c06 import modify_rules, _Prefixed
    modify_rules(_Prefixed(ctx, "K7-modify-"), m, with_typestate=False)
    ctx.assume("valid histories: clock non-decreasing; limit prices strictly between 0 and 2^32-1; equal-time ties are C05's subject")


def render_atom_safe(a):
    from analysis.cfg import render_atom
    try:
        return render_atom(a)
    except Exception:
        return repr(a)
