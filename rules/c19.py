"""C19 – Python-facing arrays, dictionaries and data frames laid out as documented (DESIGN.md §4 C19)."""
import ast
import os
import re

from analysis.origin import render, field_chain, walk, strip
from .model import Model

LEVEL = "translation_validation"
MIN_OBLIGATIONS = 60
EXPLANATION = (
    "Static conformance (translation validation) between each Python-facing builder and the repository's own "
    "documentation of it: the sequence of element origins of the four observation-array builders (array literal, vec! "
    "prefix and the ordered pushes of the level loop with its constant range) is compared index by index with the table in "
    "the same function's doc comment and with the docstring of base_agent.py; lengths 9 and 5 + 4*10; the keys of both "
    "get_market_data dictionaries (string constants and decoded format! templates) are compared with the documented key "
    "list and each key must be bound to the series of the same side and quantity; the data-frame helpers' column lists "
    "(Python ast) are compared with the tuple layouts of cast_trade / cast_order and with their docstring bullets. "
    "Array contents for concrete states are not computed: only layout is decided.")

# ------------------------------------------------------------------------------------- descriptors
def describe_doc(text):
    t = text.lower().strip()
    side = "bid" if ("bid" in t or "buy" in t) else ("ask" if ("ask" in t or "sell" in t) else None)
    if "trade vol" in t or "trade_vol" in t:
        return ("trade_vol",)
    if "touch price" in t:
        return (side, "price")
    if "total vol" in t:
        return (side, "vol")
    if "touch vol" in t:
        return (side, "level_vol", 0)
    if "orders at touch" in t:
        return (side, "level_count", 0)
    if "volume at level" in t:
        return (side, "level_vol", "n")
    if "orders at level" in t:
        return (side, "level_count", "n")
    return ("?", text.strip())


def describe_code(e):
    """descriptor of an element origin expression"""
    if any(x[0] == "call" and x[4] == "get_trade_vol" for x in walk(e)):
        return ("trade_vol",)
    root, names = field_chain(e)
    names = [n for n in names if not n.startswith("as ")]
    txt = ".".join(names)
    mm = re.search(r"(bid|ask)_price_levels\.\[(\d+|)\]\.([01])$", txt.replace("[]", "[]"))
    if "price_levels" in txt:
        side = "bid" if "bid_price_levels" in txt else "ask"
        comp = names[-1]
        idx = None
        for x in walk(e):
            if x[0] == "index":
                idx = x[2]
            if x[0] == "cindex":
                idx = ("const", "usize", str(x[2]), x[2])
        if idx is None:
            return ("?", render(e))
        lvl = idx[3] if idx[0] == "const" else "n"
        return (side, "level_vol" if comp == "0" else "level_count", lvl)
    if names and names[-1] in ("bid_price", "ask_price"):
        return (names[-1][:3], "price")
    if names and names[-1] in ("bid_vol", "ask_vol"):
        return (names[-1][:3], "vol")
    return ("?", render(e))


def doc_tables(doc):
    """-> (indexed rows {idx: text}, unindexed rows [text]) from an RST grid table doc comment"""
    idx = {}
    plain = []
    for line in doc.splitlines():
        line = line.strip()
        mm = re.match(r"^\|\s*(\d+)\s*\|\s*(.+?)\s*\|$", line)
        if mm:
            idx[int(mm.group(1))] = mm.group(2)
            continue
        mm = re.match(r"^\|\s*([A-Za-z][^|]+?)\s*\|$", line)
        if mm:
            plain.append(mm.group(1))
    return idx, plain


_VIEW = {}
PYCLASSES = ("OrderBook", "StepEnv", "StepEnvNumpy")


def builder_view(m, f):
    """inlined view of a PyO3 builder: free helper functions of the extension crate (shared `flatten_..` / summary helpers)
    and private methods are spliced in; the #[pymethods] themselves are never inlined into one another"""
    from analysis.inline import Inliner
    from analysis.query import FnQ
    if "inl" not in _VIEW or _VIEW.get("prog") is not m.prog:
        def policy(caller, callee):
            # free functions, private methods, and methods of helper types that are not Python classes
            return callee is not None and callee.crate.name == caller.crate.name == "bourse" and callee.impl_trait is None and \
                (callee.kind == "Fn" or (callee.kind == "AssocFn" and (not callee.pub or (callee.impl_adt or "").split("::")[-1].split("<")[0] not in PYCLASSES)))
        _VIEW["inl"] = Inliner(m.prog, policy)
        _VIEW["prog"] = m.prog
        _VIEW["q"] = {}
    if f.path not in _VIEW["q"]:
        m.ctx.analysed_fns.add(f.path)
        _VIEW["q"][f.path] = FnQ(m.w, _VIEW["inl"].inlined(f))
    return _VIEW["q"][f.path]


APPENDERS = ("push", "extend", "extend_from_slice")
MUTATORS = ("resize", "resize_with", "truncate", "insert", "remove", "append", "swap", "clear", "drain", "retain", "fill", "reverse", "sort", "pop", "set_len",
            "split_off", "dedup", "rotate_left", "rotate_right", "swap_remove")


def iterator_sequence(m, q, e):
    """(prefix elems, per-level elems, level range) of an iterator expression built from an array literal chained with a
    per-level `map` / `flat_map` over the level arrays; None if not of that form"""
    from analysis.iterelem import sym_item, rewrite_with
    from analysis.beta import closure_fn
    if e[0] != "call" or not e[2]:
        return None
    n, a = e[4], e[2]
    if n in ("into_iter", "iter", "copied", "cloned") and len(a) == 1:
        x = a[0]
        if x[0] == "agg" and x[1] == "array":
            return list(x[3]), [], None
        return iterator_sequence(m, q, x)
    if n == "chain" and len(a) == 2:
        l, r = iterator_sequence(m, q, a[0]), iterator_sequence(m, q, a[1])
        if l is None or r is None or l[1]:
            return None      # (nothing may follow the per-level block)
        return l[0] + r[0], r[1], r[2]
    if n in ("flat_map", "map") and len(a) == 2 and a[1][0] == "agg" and a[1][1] == "closure":
        bounds = []
        sy = sym_item(a[0], bounds)
        cf = closure_fn(m.w, a[1])
        if sy is None or cf is None:
            return None
        body = m.w.q(cf).ret()
        body = rewrite_with(body, lambda y: y[0] == "param" and y[1] == 2, sy)
        if n == "flat_map":
            if not (body[0] == "agg" and body[1] == "array"):
                return None
            els = list(body[3])
        else:
            els = [body]
        takes = [b for b in bounds if b[0] == "take"]
        colls = [b for b in bounds if b[0] == "coll"]
        rngs = [b for b in bounds if b[0] == "range"]
        rng = None
        if colls and all("price_levels" in ".".join(field_chain(b[1])[1]) for b in colls) and not rngs:
            rng = (0, takes[0][1][3]) if takes and takes[0][1][0] == "const" else ((0, 10) if not takes else None)
        elif rngs and not colls and not takes and rngs[0][1][0] == "const" and rngs[0][2][0] == "const":
            rng = (rngs[0][1][3], rngs[0][2][3])
        return [], els, rng
    return None


def array_elements(m, f):
    """Abstract contents of the array an observation builder hands to `to_pyarray`:
    (prefix element exprs, per-level element exprs, (lo, hi) level range or None, problems).

    The array is either an array literal (level-1 builders) or a Vec that starts from a literal / `to_vec()` of one / empty
    and is then appended to: appends outside a loop extend the prefix, appends inside THE level loop form the per-level
    block (`push(x)` or `extend([a, b, c, d])`), read through the loop's symbolic item (index loop, `iter().zip().enumerate()`,
    `take(k)` ...).  Any other mutation of the vector, a second loop, an early loop exit or a conditional append is a
    problem (reported by the caller)."""
    from analysis.iterelem import loop_item, rewrite
    q = builder_view(m, f)
    problems = []
    sinks = [c for c in q.calls("to_pyarray")]
    if len(sinks) != 1:
        return None, [], None, ["%d to_pyarray calls" % len(sinks)]
    recv = sinks[0].args[0]

    def lit_elems(e):
        for x in walk(e):
            if x[0] == "agg" and x[1] == "array":
                return list(x[3])
        return None
    if recv[0] == "call" and recv[4] == "collect" and recv[2]:
        r = iterator_sequence(m, q, recv[2][0])
        if r is not None:
            return r[0], r[1], r[2], []
    if recv[0] != "local":
        els = lit_elems(recv)
        return els, [], None, ([] if els is not None else ["array value %s not understood" % render(recv)[:80]])
    V = recv[1]
    # initial contents: the definition of V
    defs = q.ev.def_sites().get(V, [])
    prefix = None
    if len(defs) == 1:
        d = defs[0]
        e = strip(q.ev.call_expr(d[1])) if d[0] == "c" else strip(q.ev.rvalue(q.fn.body.blocks[d[1]].stmts[d[2]].rv, (d[1], d[2])))
        if e[0] == "agg" and e[1] == "array":
            return list(e[3]), [], None, []
        if e[0] == "call" and e[4] in ("new", "with_capacity") and "Vec" in e[1]:
            prefix = []
        elif e[0] == "call" and e[4] == "collect":
            # pure iterator construction: `literal.into_iter().chain(levels.flat_map(|(b, a)| [..])).collect()`
            r = iterator_sequence(m, q, e[2][0])
            if r is not None:
                return r[0], r[1], r[2], []
            prefix = None
        else:
            prefix = lit_elems(e)
    if prefix is None:
        # vec![..] writes the literal into a box: the first array literal of the body
        for blk in q.fn.body.blocks:
            if blk.cleanup or prefix is not None:
                continue
            for i, st in enumerate(blk.stmts):
                if st.k == "assign" and st.rv.k == "agg" and st.rv.j.get("ak") == "array" and len(st.rv.ops) >= 4 and not q.cfg.in_loop(blk.i):
                    prefix = list(strip(q.ev.rvalue(st.rv, (blk.i, i)))[3])
                    break
    if prefix is None:
        return None, [], None, ["initial contents of the vector not understood"]
    nxs = [c for c in q.calls("next") if q.cfg.in_loop(c.b)]
    heads = q.body.loop_heads()
    per_level = []
    rng = None
    sym = None
    if len(heads) > 1 or len(nxs) > 1:
        problems.append("%d loops" % len(heads))
    if len(nxs) == 1:
        sym, bounds = loop_item(q, nxs[0])
        if sym is None:
            problems.append("level loop iterator not understood (restricting / reordering adapter?)")
        else:
            rngs = [bd for bd in bounds if bd[0] == "range"]
            takes = [bd for bd in bounds if bd[0] == "take"]
            colls = [bd for bd in bounds if bd[0] == "coll"]
            if rngs and not takes and not colls:
                lo, hi = rngs[0][1], rngs[0][2]
                rng = (lo[3], hi[3]) if lo[0] == "const" and hi[0] == "const" else None
            elif colls and all("price_levels" in ".".join(field_chain(bd[1])[1]) for bd in colls) and not rngs:
                if takes:
                    k = takes[0][1]
                    rng = (0, k[3]) if k[0] == "const" else None
                else:
                    rng = (0, 10)     # every published level of Level2Data<10> (the environment's default LEVELS)
            if rng is None:
                problems.append("level loop bounds not understood")
        if not q.cfg.loop_runs_to_completion(list(heads)[0])[0]:
            problems.append("the level loop can be left early")
    for c in q.ordered(q.calls()):
        if not c.args or c.args[0] != ("local", V):
            continue
        if c.name in MUTATORS:
            problems.append("the vector is also modified by %s" % c.name)
            continue
        if c.name not in APPENDERS:
            continue
        els = [c.args[1]] if c.name == "push" else lit_elems(c.args[1])
        if els is None:
            problems.append("%s of %s not understood" % (c.name, render(c.args[1])[:60]))
            continue
        if q.cfg.in_loop(c.b):
            if [a for a in c.guards if not (a[0] == "variant" and a[2] == ("Some",))]:
                problems.append("append in the level loop is conditional on [%s]" % c.gtext())
            if sym is not None:
                els = [rewrite(x, nxs[0], sym) for x in els]
            per_level.extend(els)
        else:
            if c.guards:
                problems.append("append conditional on [%s]" % c.gtext())
            prefix.extend(els)
    return prefix, per_level, rng, problems


def run(ctx):
    m = Model(ctx)
    prog = ctx.prog
    builders = [("StepEnv", "level_1_data_array", 9, False), ("StepEnv", "level_2_data_array", 45, True),
                ("StepEnvNumpy", "level_1_data", 9, False), ("StepEnvNumpy", "level_2_data", 45, True)]
    programs = 0
    disagreements = 0
    samples = []
    for cls, name, length, leveled in builders:
        f = prog.method(cls, name, crate="bourse")
        programs += 1
        prefix, pushes, rng, problems = array_elements(m, f)
        idx, plain = doc_tables(f.doc)
        tag = "%s.%s" % (cls, name)
        if prefix is None or not idx:
            ctx.lost("layout", "%s: array construction (%s) / documented index table not found" % (tag, "; ".join(problems) or "ok"))
            continue
        ctx.check(not problems, "layout", tag + "|construction", ctx.loc(f), "the array is built only from a literal prefix and unconditional per-level appends of one complete level loop",
                  "array construction: %s (elements behind would not hold the documented quantities)" % "; ".join(problems))
        if not leveled and pushes and rng == (0, 1):
            # a shared builder called for a single level: level 0 spelled out
            from analysis.iterelem import rewrite_with, I
            zero = ("const", "usize", "0_usize", 0)
            prefix = prefix + [rewrite_with(x, lambda y: y == I, zero) for x in pushes]
            pushes = []
        code = [describe_code(e) for e in prefix]
        docrows = [describe_doc(idx[i]) for i in sorted(idx)]
        ctx.check(sorted(idx) == list(range(len(idx))), "layout", tag + "|doc-indices", ctx.loc(f), "documented indices are 0..%d without gaps" % (len(idx) - 1))
        n = max(len(code), len(docrows))
        for i in range(n):
            c = code[i] if i < len(code) else None
            d = docrows[i] if i < len(docrows) else None
            if leveled and i >= len(docrows):
                break
            ok = c is not None and d is not None and c == d
            if not ok:
                disagreements += 1
            ctx.check(ok, "layout", "%s|%d" % (tag, i), ctx.loc(f), "element %d = %s, documented as \"%s\"" % (i, c, idx.get(i, "")),
                      "element %d holds %s but the documentation assigns \"%s\" (%s) to index %d" % (i, c if c else "nothing (array too short)", idx.get(i, "-"), d, i))
        samples.append({"builder": tag, "code": [list(x) for x in code], "doc": [list(x) for x in docrows]})
        if not leveled:
            ctx.check(len(code) == length == len(docrows), "layout", tag + "|length", ctx.loc(f), "length %d as documented" % length,
                      "array has %d elements, documentation lists %d" % (len(code), len(docrows)))
            ctx.check(not pushes, "layout", tag + "|no-extra", ctx.loc(f), "no further elements are appended")
        else:
            ctx.check(len(code) == 5 == len(docrows), "layout", tag + "|prefix", ctx.loc(f), "5 leading scalar elements as documented", "%d leading elements, %d documented" % (len(code), len(docrows)))
            pc = [describe_code(e) for e in pushes]
            pd_ = [describe_doc(t) for t in plain]
            ok = pc == pd_ and len(pc) == 4
            if not ok:
                disagreements += 1
            ctx.check(ok, "layout", tag + "|per-level", ctx.loc(f), "per level: %s as documented" % [x[:2] for x in pc],
                      "per-level elements are %s but documented as %s" % (pc, pd_))
            ctx.check(rng == (0, 10), "layout", tag + "|levels", ctx.loc(f), "the level loop covers levels 0..10 (5 + 4*10 = 45 elements)", "level loop range is %s" % (rng,))
            # all per-level elements are indexed by the loop position
            ctx.check(all(x[2] == "n" for x in pc if len(x) == 3), "layout", tag + "|level-index", ctx.loc(f), "every per-level element is indexed by the loop variable")
    # base_agent.py docstring vs StepEnvNumpy.level_2_data
    pyf = os.path.join(ctx.repo, "src", "bourse", "step_sim", "agents", "base_agent.py")
    try:
        src = open(pyf).read()
        programs += 1
        rows = re.findall(r"^\s*-\s*(\d+):\s*(.+)$", src, re.M)
        pyidx = {int(i): t for i, t in rows}
        lvl_rows = [t for t in re.findall(r"^\s*-\s*((?:Bid|Ask|Number)[^\n]*at level)\s*$", src, re.M)]
        f = prog.method("StepEnvNumpy", "level_2_data", crate="bourse")
        prefix, pushes, rng, _problems = array_elements(m, f)
        code = [describe_code(e) for e in prefix or []]
        docrows = [describe_doc(pyidx[i]) for i in sorted(pyidx)]
        ok = code == docrows and len(docrows) == 5
        if not ok:
            disagreements += 1
        ctx.check(ok, "layout", "base_agent.py|prefix", "src/bourse/step_sim/agents/base_agent.py", "BaseAgent.update docstring indices 0..4 match StepEnvNumpy.level_2_data",
                  "BaseAgent.update documents %s but the array holds %s" % (docrows, code))
        pc = [describe_code(e) for e in pushes]
        pd_ = [describe_doc(t + " n") for t in lvl_rows]
        ctx.check(pc == pd_ and len(pc) == 4, "layout", "base_agent.py|per-level", "src/bourse/step_sim/agents/base_agent.py", "BaseAgent.update docstring per-level order matches the array",
                  "BaseAgent.update documents per-level %s but the array holds %s" % (pd_, pc))
    except OSError:
        ctx.lost("layout", "src/bourse/step_sim/agents/base_agent.py")

    # ---------------------------------------------------------------- market data dictionaries
    for cls in ("StepEnv", "StepEnvNumpy"):
        f = prog.method(cls, "get_market_data", crate="bourse")
        programs += 1
        q = builder_view(m, f)
        doc_templ = set(x + "_<N>" for x in re.findall(r"``(\w+?)_<N>``", f.doc))
        doc_plain = set(re.findall(r"``(\w+)``", f.doc))
        pairs = {}
        # plain keys: tuple(to_string("key"), to_pyarray(series))
        for x in walk(q.ev.call_expr(q.calls("from")[0].b) if q.calls("from") else ("unk",)):
            pass
        fr = [c for c in q.calls("from") if c.args and c.args[0][0] == "agg" and c.args[0][1] == "array"]
        inserts = [c for c in q.calls("insert") if len(c.args) == 3 and "HashMap" in (c.resolved or "")]

        def plain_key(k):
            for y in walk(k):
                if y[0] == "const" and isinstance(y[2], str) and y[2].startswith('"'):
                    return y[2].strip('"')
            return None
        templ = {}
        ins_sites = []
        if len(fr) != 1 and inserts:
            # second spelling: `let mut d = HashMap::new() / with_capacity(..); d.insert(key, series); ..` with the per-level
            # families inserted inside ONE loop over all levels (read through the loop's symbolic item)
            from analysis.iterelem import loop_item, rewrite, I as POS
            loops = {}
            for c in inserts:
                hs = q.cfg.loops_containing(c.b)
                if not hs:
                    pairs[plain_key(c.args[1])] = c.args[2]
                    ins_sites.append(c)
                    continue
                h = sorted(hs, key=lambda h_: len(q.body.loop_body(h_)))[0]
                loops.setdefault(h, []).append(c)
            for h, cs in loops.items():
                nxt = [c for c in q.calls("next") if c.b in q.body.loop_body(h) and q.cfg.loops_containing(c.b) and sorted(q.cfg.loops_containing(c.b), key=lambda h_: len(q.body.loop_body(h_)))[0] == h]
                sym, bounds = loop_item(q, nxt[0]) if len(nxt) == 1 else (None, [])
                full = sym is not None and not [b_ for b_ in bounds if b_[0] == "take"] and any(
                    b_[0] == "range" and "N_LEVELS" in render(b_[2]) or b_[0] == "coll" for b_ in bounds)
                for c in cs:
                    if not full:
                        templ["?%s" % render(c.args[1])[:40]] = (("unk",), None)
                        continue
                    k = rewrite(c.args[1], nxt[0], sym)
                    v = rewrite(c.args[2], nxt[0], sym)
                    templ[format_key(k, index_var=POS)] = (v, None)
                    ins_sites.append(c)
        elif len(fr) != 1:
            ctx.lost("dict", "%s.get_market_data: HashMap::from([...]) not found" % cls)
            continue
        else:
            for tup in fr[0].args[0][3]:
                if tup[0] == "agg" and tup[1] == "tuple" and len(tup[3]) == 2:
                    k, v = tup[3]
                    pairs[plain_key(k)] = v
        # per-level families: every `extend(dict, from_fn(..))`, read through the element expression at index i (closures
        # beta-reduced, a shared column-building helper inlined, constant prefixes substituted into the key template)
        from analysis.beta import from_fn_element
        exts = [c for c in q.calls("extend") if len(c.args) == 2]
        for c in exts:
            E = from_fn_element(m.w, c.args[1], ("var", "i"))
            if E is None:
                # `levels.iter().enumerate().map(|(i, h)| (key(i), h..)).collect()`
                x = c.args[1]
                while x[0] == "call" and x[4] in ("collect", "into_iter", "to_vec") and x[2]:
                    x = x[2][0]
                if x[0] == "call" and x[4] == "map" and len(x[2]) == 2 and x[2][1][0] == "agg" and x[2][1][1] == "closure":
                    from analysis.iterelem import sym_item, rewrite_with
                    from analysis.beta import apply_closure
                    bnds = []
                    sy = sym_item(x[2][0], bnds)
                    if sy is not None and not [b_ for b_ in bnds if b_[0] == "take"]:
                        body = apply_closure(m.w, x[2][1], [("param", 2, "_item")])
                        if body is not None:
                            E = rewrite_with(body, lambda y: y[0] == "param" and y[1] == 2, sy)
            if E is None or not (E[0] == "agg" and E[1] == "tuple" and len(E[3]) == 2):
                templ["?%s" % render(c.args[1])[:40]] = (("unk",), None)
                continue
            k, v = E[3]
            templ[format_key(k)] = (v, None)
        ok = set(pairs) == doc_plain and set(templ) == doc_templ
        if not ok:
            disagreements += 1
        ctx.check(ok, "dict", cls + "|keys", ctx.loc(f), "keys %s + templates %s_<N> exactly as documented" % (sorted(pairs), sorted(templ)),
                  "dictionary has keys %s / templates %s but the documentation lists %s / %s" % (sorted(pairs, key=str), sorted(templ, key=str), sorted(doc_plain), sorted(doc_templ)))
        for key, v in list(pairs.items()) + [(k, vv[0]) for k, vv in templ.items()]:
            want = series_for_key(key)
            got = series_of(v)
            ok = want is not None and got == want
            if not ok:
                disagreements += 1
            ctx.check(ok, "dict", "%s|%s" % (cls, key), ctx.loc(f), "key \"%s\" -> %s" % (key, got), "key \"%s\" is bound to %s (expected %s)" % (key, got, want))
        # the dictionary handed back is THIS one on every path: a single return, reached only through the literal and every
        # family extension, each unconditional (an early `return HashMap::new()` hands out a dictionary without the documented keys)
        live_ = q.cfg.reach_from(0)
        rets_ = [rb for rb in q.body.return_blocks() if rb in live_]
        sites_ = ([fr[0]] if len(fr) == 1 else []) + exts + ins_sites
        def dom_block(c_):
            # an insertion inside the (complete) level loop is reached on every path iff the loop is: judge the loop head
            hs_ = q.cfg.loops_containing(c_.b)
            return sorted(hs_, key=lambda h_: len(q.body.loop_body(h_)))[-1] if hs_ else c_.b
        complete = len(rets_) == 1 and all(q.body.dominates(dom_block(c_), rets_[0]) for c_ in sites_) and not any(
            [a for a in c_.guards if not (a[0] == "variant" and a[1][0] == "call" and a[1][4] == "next")] for c_ in sites_)
        if not complete:
            disagreements += 1
        ctx.check(complete, "dict", cls + "|every-path", ctx.loc(f), "every path returns the dictionary built from the literal and all family extensions (no early or conditional return)",
                  "%s.get_market_data can return without the documented entries: %d return sites; a key insertion is conditional or bypassed" % (cls, len(rets_)))
        n_ext = len(exts) if len(fr) == 1 else len([c for c in ins_sites if q.cfg.in_loop(c.b)])
        ctx.check(n_ext == len(templ) == 4, "dict", cls + "|extends", ctx.loc(f), "all %d per-level families are added to the dictionary" % n_ext, "%d families built, %d added" % (len(templ), n_ext))
        samples.append({"dict": cls, "keys": sorted(k for k in pairs if k), "templates": sorted(k for k in templ if k)})

    # ---------------------------------------------------------------- data frame helpers
    pyf = os.path.join(ctx.repo, "src", "bourse", "data_processing.py")
    try:
        tree = ast.parse(open(pyf).read())
    except (OSError, SyntaxError) as e:
        ctx.lost("columns", "src/bourse/data_processing.py (%s)" % e)
        tree = None
    layouts = {}
    for name in ("cast_trade", "cast_order"):
        f = prog.free_fn("bourse", name)
        r = m.q(f).ret()
        fields = []
        if r[0] == "agg" and r[1] == "tuple":
            for e in r[3]:
                root, names = field_chain(e[1] if e[0] == "conv" else e)
                fields.append(names[-1] if names else "?")
        layouts[name] = fields
    ALIAS = {"t": "time", "active_order_id": "active_id", "passive_order_id": "passive_id"}
    if tree is not None:
        for fn_name, cast in (("trades_to_dataframe", "cast_trade"), ("orders_to_dataframe", "cast_order")):
            programs += 1
            fdef = [n for n in tree.body if isinstance(n, ast.FunctionDef) and n.name == fn_name]
            if not fdef:
                ctx.lost("columns", fn_name)
                continue
            # the column list handed to `DataFrame.from_records(.., columns=<expr>)`: a list / tuple literal, a name bound once to one
            # in the function or at module level, possibly wrapped in list(..) / tuple(..)
            def py_seq(node, depth=0):
                if depth > 4 or node is None:
                    return None
                if isinstance(node, (ast.List, ast.Tuple)) and all(isinstance(e, ast.Constant) for e in node.elts):
                    return [e.value for e in node.elts]
                if isinstance(node, ast.Call) and isinstance(node.func, ast.Name) and node.func.id in ("list", "tuple") and len(node.args) == 1:
                    return py_seq(node.args[0], depth + 1)
                if isinstance(node, ast.Name):
                    binds = [n for scope in (fdef[0], tree) for n in (ast.walk(scope) if scope is fdef[0] else scope.body)
                             if isinstance(n, ast.Assign) and any(isinstance(t, ast.Name) and t.id == node.id for t in n.targets)]
                    if len(binds) == 1:
                        return py_seq(binds[0].value, depth + 1)
                return None
            cols = None
            fr = [n for n in ast.walk(fdef[0]) if isinstance(n, ast.Call) and isinstance(n.func, ast.Attribute) and n.func.attr == "from_records"]
            if len(fr) == 1:
                kw = [k.value for k in fr[0].keywords if k.arg == "columns"]
                cols = py_seq(kw[0]) if len(kw) == 1 else None
            want = [ALIAS.get(x, x) for x in layouts[cast]]
            where = "src/bourse/data_processing.py:%d (%s)" % (fdef[0].lineno, fn_name)
            if cols is None:
                ctx.lost("columns", fn_name + " column list")
                continue
            for i in range(max(len(cols), len(want))):
                c = cols[i] if i < len(cols) else None
                w = want[i] if i < len(want) else None
                ok = c == w
                if not ok:
                    disagreements += 1
                ctx.check(ok, "columns", "%s|%d" % (fn_name, i), where, "column %d \"%s\" holds %s field %s" % (i, c, cast, layouts[cast][i] if i < len(layouts[cast]) else "?"),
                          "column %d is named \"%s\" but holds the field %s (expected \"%s\")" % (i, c, layouts[cast][i] if i < len(layouts[cast]) else "nothing", w))
            doc = ast.get_docstring(fdef[0]) or ""
            dcols = re.findall(r"^\s*-\s*``(\w+)``:", doc, re.M)
            missing = [c for c in dcols if c not in cols]
            ctx.check(not missing, "columns", fn_name + "|doc", where, "every documented column exists in the frame", "documented columns %s are not produced" % missing)
            undocumented = [c for c in cols if c not in dcols]
            if undocumented:
                ctx.note("%s: columns %s are produced but not listed in the docstring (information only)" % (fn_name, undocumented))
            samples.append({"frame": fn_name, "columns": cols, "tuple_layout": layouts[cast]})
    # element 0 of the observation arrays is read live from the book's cumulative counter: it is "the volume traded in the last
    # step" only because every step resets that counter first, unconditionally (C11's rule for Env, which StepEnv wraps)
    from . import c11
    from .c06 import _Prefixed
    c11.step_rules(_Prefixed(ctx, "last-step-volume-"), m, (("Env", m.env_fn, "order_book"),))
    # "element k holds the quantity the documentation assigns to index k": the builders read the level-1 / level-2 records, so the
    # records must hold those quantities - every record field is the live book's query of the same side and quantity (views), the
    # per-level entries walk touch -/+ i*tick over all levels (level walk), and the bid wrappers differ from the ask wrappers only
    # by the price inversion (rules shared with C02)
    from . import c02
    c02.views(_Prefixed(ctx, "quantity-"), m)
    c02.level_walk(_Prefixed(ctx, "quantity-"), m)
    c02.wrappers(_Prefixed(ctx, "quantity-"), m)
    c02.side_queries(_Prefixed(ctx, "quantity-"), m)     # per-price / touch look-ups of the side structure return what is stored
    ctx.extra["programs"] = programs
    ctx.extra["disagreements_checked"] = sum(1 for o in ctx.obligations if o["rule"] in ("layout", "dict", "columns"))
    ctx.extra["samples"] = samples


def decode_template(s):
    """printable text of a format_args! template byte string such as b"\\x08bid_vol_\\xc0\\x00" """
    body = s[2:-1] if s.startswith('b"') else s
    body = re.sub(r"\\x[0-9a-fA-F]{2}", "", body)
    return body + "<N>"


def format_key(e, index_var=("var", "i")):
    """text of `format!(..)` key expression e with literal pieces kept, constant string arguments substituted and the
    index variable rendered as <N>; None if e is not a format call we understand.
    Template encoding (rustc format_args lowering): [len L][L literal bytes] | 0xC0 (= next argument) ..., 0x00 terminator."""
    fm = [x for x in walk(e) if x[0] == "call" and x[4] == "new" and x[2] and x[2][0][0] == "const" and isinstance(x[2][0][2], str) and x[2][0][2].startswith('b"')]
    if not fm:
        return None
    c = fm[0]
    raw = c[2][0][2][2:-1]
    # decode the escaped byte string
    bs = bytearray()
    i = 0
    while i < len(raw):
        if raw[i] == "\\" and i + 1 < len(raw):
            n = raw[i + 1]
            if n == "x":
                bs.append(int(raw[i + 2:i + 4], 16))
                i += 4
                continue
            bs.append({"n": 10, "t": 9, "r": 13, "0": 0, "\\": 92, '"': 34, "'": 39}.get(n, ord(n)))
            i += 2
            continue
        bs.append(ord(raw[i]))
        i += 1
    args = []
    if len(c[2]) > 1:
        for x in walk(c[2][1]):
            if x[0] == "call" and x[4].startswith("new_") and x[2]:
                args.append(x[2][0])
    out = ""
    k = 0
    ai = 0
    while k < len(bs):
        b = bs[k]
        if b == 0:
            break
        if b == 0xC0:
            a = args[ai] if ai < len(args) else None
            ai += 1
            if a is None:
                return None
            if a == index_var or (a[0] == "param" and a[1] == 2):
                out += "<N>"
            elif a[0] == "const" and isinstance(a[2], str) and a[2].startswith('"'):
                out += a[2].strip('"')
            else:
                out += "{%s}" % render(a)
            k += 1
            continue
        if b < 0x80:
            out += bs[k + 1:k + 1 + b].decode("utf8", "replace")
            k += 1 + b
            continue
        return None
    return out


def series_for_key(key):
    if key is None:
        return None
    if key == "trade_vol":
        return ("trade_vols",)
    side = "0" if "bid" in key else ("1" if "ask" in key else None)
    if key in ("bid_price", "ask_price"):
        return ("prices", side, None)
    if key in ("bid_vol", "ask_vol") :
        return ("volumes", side, None)
    if re.fullmatch(r"(bid|ask)_vol_<N>", key):
        return ("volumes_at_levels", side, "i")
    if re.fullmatch(r"n_(bid|ask)_<N>", key):
        return ("orders_at_levels", side, "i")
    return None


def series_of(v):
    """series descriptor of a value expression to_pyarray(<series>)"""
    if any(x[0] == "call" and x[4] in ("get_trade_volumes", "get_trade_vols") for x in walk(v)):
        return ("trade_vols",)
    src = v
    for x in walk(v):
        if x[0] == "call" and x[4] == "to_pyarray" and x[2]:
            src = x[2][0]
            break
    root, names = field_chain(src)
    txt = ".".join(names)
    for series in ("volumes_at_levels", "orders_at_levels", "prices", "volumes"):
        mm = re.search(r"(?:^|\.|\*data\.)%s\.([01])" % series, txt)
        if mm:
            lvl = None
            if series.endswith("_at_levels"):
                ix = [x for x in walk(src) if x[0] == "index"]
                lvl = "i" if ix and (ix[0][2][0] == "param" or ix[0][2] == ("var", "i")) else ("?" if not ix else render(ix[0][2]))
            return (series, mm.group(1), lvl)
    return ("?", txt)
