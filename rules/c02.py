"""C02 – market data equals resting orders; never crossed while trading (DESIGN.md §4 C02)."""
from analysis.origin import render, field_chain, walk
from analysis.typestate import same
from analysis.panics import panic_sites
from analysis.cfg import render_atom
from .model import Model, fld, opposite, is_max_u32
from .c04 import run_typestate

LEVEL = "other"
MIN_OBLIGATIONS = 60
EXPLANATION = (
    "Lock-step rules on the side structure (insert / remove / remove-volume move priority map, per-price (volume,count) and "
    "total together, by the same operand), caller-side accounting by the typestate analysis (every change of a filed order's "
    "volume is mirrored at its own price level before the API call returns; removals pass the volume the side still accounts "
    "for), bid/ask wrapper mirror (MAX-price inversion is the only difference), level walk origin check (touch -/+ i*tick), "
    "view agreement of Level1Data/Level2Data fields with the same-side getters, never-crossed premise (every live insertion "
    "is preceded on all paths by the trading test whose true branch runs the opposite-side matching loop), and a panic-site "
    "census of all &self queries with a discharge table. Decides these premises; numeric equality for particular states "
    "follows from them and invariant I, it is not computed.")

GETTERS = {  # public getter -> (side field role, side op)
    "bid_vol": ("Bid", "vol"), "ask_vol": ("Ask", "vol"),
    "bid_best_vol": ("Bid", "best_vol"), "ask_best_vol": ("Ask", "best_vol"),
    "bid_best_vol_and_orders": ("Bid", "best_vol_and_orders"), "ask_best_vol_and_orders": ("Ask", "best_vol_and_orders"),
}


def bin_of(v):
    """unwrap `(a op_with_overflow b).0` -> (op, a, b)"""
    if v[0] == "field" and v[1][0] == "bin":
        v = v[1]
    if v[0] == "bin":
        return (v[1].replace("WithOverflow", ""), v[2], v[3])
    # the payload of `a.checked_sub(b)` / `a.checked_add(b)` (it exists only when the operation does not overflow)
    if v[0] == "field" and v[2] == "0" and v[1][0] == "downcast" and v[1][2] == "Some" and v[1][1][0] == "call" and v[1][1][4] in ("checked_sub", "checked_add") \
            and len(v[1][1][2]) == 2:
        return ("Sub" if v[1][1][4] == "checked_sub" else "Add", v[1][1][2][0], v[1][1][2][1])
    return None


def run(ctx):
    m = Model(ctx)
    lockstep(ctx, m)
    wrappers(ctx, m)
    ts, roots, _ld = run_typestate(ctx, m)
    for v in ts.violations.values():
        if v.rule in ("accounting", "insert", "remove", "exit-invariant", "key-side", "typestate-anchor"):
            ctx.bad(v.rule, v.key, v.where, v.what)
    n_ops = {}
    for (fn, op, side, where, pre) in ts.ops:
        n_ops[op] = n_ops.get(op, 0) + 1
        ctx.ok("accounting", where, "%s on the %s side: entity state before = {%s}; key/volume/side arguments agree with the entity" % (
            op, side, ", ".join(sorted({"%s/%s" % (t[0], "filed" if t[1] else "unfiled") for t in pre}))))
    ctx.check(n_ops.get("insert", 0) >= 6 and n_ops.get("remove", 0) >= 6 and n_ops.get("remove_vol", 0) >= 4, "accounting", "op-census", "-",
              "side-op call sites analysed by the typestate: insert %d, remove %d, remove_vol %d" % (n_ops.get("insert", 0), n_ops.get("remove", 0), n_ops.get("remove_vol", 0)))
    writeback(ctx, m)
    level_walk(ctx, m)
    views(ctx, m)
    never_crossed(ctx, m)
    totality(ctx, m)
    ctx.assume("valid histories: per-side resting volume < 2^32, LEVELS * tick_size < 2^32, ids/asset indexes refer to existing orders/books")


# ---------------------------------------------------------------------------------- (1) lock-step
def occupied_entry(e, L, q=None):
    """key expression if e is the occupied entry of level map L at that key: `(L.entry(key) as Occupied).0`; else None"""
    from analysis.origin import strip
    e = strip(e)
    hops = 0
    while e[0] == "local" and q is not None and hops < 3:
        # `let Entry::Occupied(mut level) = ..`: the binding is a local initialised once from the payload
        hops += 1
        defs = q.ev.def_sites().get(e[1], [])
        if len(defs) != 1 or defs[0][0] != "s":
            return None
        st_ = q.body.blocks[defs[0][1]].stmts[defs[0][2]]
        e = strip(q.ev.rvalue(st_.rv, (defs[0][1], defs[0][2])))
    if e[0] == "field" and e[2] == "0" and e[1][0] == "downcast" and e[1][2] in ("Occupied", 1, "1"):
        c = strip(e[1][1])
        if c[0] == "call" and c[4] == "entry" and len(c[2]) == 2 and fld(c[2][0], L):
            return c[2][1]
    return None


def level_base(e, L, q=None):
    """if address/value expression e goes through a level-map entry, return (kind, key expr, default):
    kind 'get_mut' (existing entry) or 'or_insert' (entry created with `default` when absent)"""
    for x in walk(e):
        if x[0] == "call" and x[4] == "get_mut" and x[2] and fld(x[2][0], L):
            return ("get_mut", x[2][1], None)
        if x[0] == "call" and x[4] in ("get_mut", "into_mut") and len(x[2]) == 1 and occupied_entry(x[2][0], L, q) is not None:
            # `let Entry::Occupied(mut level) = L.entry(key) else { panic }; level.get_mut()`: the existing entry at `key`
            return ("get_mut", occupied_entry(x[2][0], L, q), None)
        if x[0] == "call" and x[4] in ("or_insert", "or_default") and x[2] and x[2][0][0] == "call" and x[2][0][4] == "entry" and fld(x[2][0][2][0], L):
            return ("or_insert", x[2][0][2][1], x[2][1] if len(x[2]) > 1 else ("agg", "tuple", "", (("const", "u32", "0", 0), ("const", "u32", "0", 0)), ()))
    return None


def level_updates(q, L):
    """writes to components of a level-map entry: list of (Write, component, op, operand, base)"""
    out = []
    for w in q.writes():
        base = level_base(w.addr, L, q)
        if base is None or w.field not in ("0", "1"):
            continue
        b = bin_of(w.val)
        if b is None:
            out.append((w, w.field, "?", w.val, base))
        else:
            out.append((w, w.field, b[0], b[2], base))
    return out


def is_const(e, v):
    return e[0] == "const" and e[3] == v


def lockstep(ctx, m):
    ins = m.side_inner("insert_order")
    rem = m.side_inner("remove_order")
    rvol = m.side_inner("remove_vol")
    P, L, T = m.s_prio, m.s_levels, m.s_total

    def map_calls(q, name, fieldname):
        return [c for c in q.calls(name) if c.args and fld(c.args[0], fieldname) and "BTreeMap" in c.resolved]

    def params(q):
        return [("param", i + 1, n) for i, n in enumerate(q.fn.params)]

    def kf(key, i):
        return ("field", key, str(i), "")

    def unconditional(x):
        return not x.guards

    def total_update(q, op, vol):
        tw = [w for w in q.writes(field=T) if w.root[0] == "param"]
        ok = len(tw) == 1 and unconditional(tw[0]) and bin_of(tw[0].val) and bin_of(tw[0].val)[0] == op and same(bin_of(tw[0].val)[2], vol) and fld(bin_of(tw[0].val)[1], T)
        return ok, tw

    # ---- insert
    q = m.q(ins)
    key, idx, vol = params(q)[1:4]
    pc = map_calls(q, "insert", P)
    ok = len(pc) == 1 and unconditional(pc[0]) and not q.cfg.in_loop(pc[0].b)
    if ok:
        k = pc[0].args[1]
        ok = k[0] == "agg" and k[1] == "tuple" and len(k[3]) == 2 and same(k[3][0], kf(key, 1)) and same(k[3][1], kf(key, 2)) and same(pc[0].args[2], idx)
    ctx.check(ok, "lockstep", "insert|prio", ctx.loc(ins), "insert: priority map gets (key.1, key.2) -> id, once, unconditionally",
              "insert: priority-map insertion is not `insert((key.1, key.2), idx)` exactly once")
    ups = level_updates(q, L)
    keyed = all(same(u[4][1], kf(key, 1)) for u in ups)
    vol_up = [u for u in ups if u[1] == "0" and u[2] == "Add" and same(u[3], vol)]
    cnt_up = [u for u in ups if u[1] == "1" and u[2] == "Add" and is_const(u[3], 1)]
    kinds = {u[4][0] for u in ups}
    new_level_ok = False
    if kinds == {"get_mut"}:
        # idiom A: existing level updated under Some, new level inserted as (vol, 1) under None
        lv_new = map_calls(q, "insert", L)
        new_level_ok = len(lv_new) == 1 and same(lv_new[0].args[1], kf(key, 1)) and lv_new[0].args[2][0] == "agg" and len(lv_new[0].args[2][3]) == 2 \
            and same(lv_new[0].args[2][3][0], vol) and is_const(lv_new[0].args[2][3][1], 1) \
            and any(a[0] == "variant" and a[2] == ("None",) for a in lv_new[0].guards) \
            and all(any(a[0] == "variant" and a[2] == ("Some",) for a in u[0].guards) for u in ups)
        how = "existing level: volume += vol, count += 1; absent level created as (vol, 1)"
    elif kinds == {"or_insert"}:
        # idiom B: entry(key.1).or_insert((0, 0)) then unconditional += on both components
        d = ups[0][4][2]
        new_level_ok = d[0] == "agg" and len(d[3]) == 2 and is_const(d[3][0], 0) and is_const(d[3][1], 0) and all(unconditional(u[0]) for u in ups) \
            and not map_calls(q, "insert", L)
        how = "entry(key.1).or_insert((0, 0)) then volume += vol, count += 1"
    else:
        how = "?"
    ctx.check(len(ups) == 2 and len(vol_up) == 1 and len(cnt_up) == 1 and keyed and new_level_ok, "lockstep", "insert|level", ctx.loc(ins),
              "insert: level at key.1 -- " + how, "insert: the level at key.1 is not updated by (volume += vol, count += 1) with an absent level starting from (vol, 1): %s" % "; ".join(u[0].text() for u in ups))
    ok, tw = total_update(q, "Add", vol)
    ctx.check(ok, "lockstep", "insert|total", ctx.loc(ins), "insert: side total += vol, unconditionally",
              "insert: side total is not increased by vol exactly once: %s" % "; ".join(w.text() for w in tw))

    # ---- remove
    q = m.qi(rem)       # (a private helper such as `take_from_level(price, vol)` is spliced in)
    key, vol = params(q)[1:3]
    pc = map_calls(q, "remove", P)
    ok = len(pc) == 1 and unconditional(pc[0])
    if ok:
        k = pc[0].args[1]
        ok = k[0] == "agg" and len(k[3]) == 2 and same(k[3][0], kf(key, 1)) and same(k[3][1], kf(key, 2))
    ctx.check(ok, "lockstep", "remove|prio", ctx.loc(rem), "remove: priority map entry (key.1, key.2) removed, once, unconditionally",
              "remove: priority-map removal is not `remove(&(key.1, key.2))` exactly once")
    # (a defensive `if the key was not filed { return }` is accepted: every update below may depend on the priority map's own
    #  removal having found the entry - all three structures then still move together)
    removed = pc[0].result if len(pc) == 1 else None

    def found_entry(a):
        # (the level being present - `Entry::Occupied`, the other arm aborts like `get_mut(..).unwrap()` - is no condition)
        if a[0] == "variant" and a[2] in (("Occupied",), (1,), ("1",)) and a[1][0] == "call" and a[1][4] == "entry" and a[1][2] and fld(a[1][2][0], L):
            return True
        if removed is None:
            return False
        if a[0] == "variant" and a[1] == removed and a[2] == ("Some",):
            return True
        if a[0] == "bool" and a[1][0] == "call" and a[1][2] and a[1][2][0] == removed:
            return (a[1][4] == "is_none" and a[2] is False) or (a[1][4] == "is_some" and a[2] is True)
        return False

    def unconditional(x):      # (shadows the strict version for the removal rules)
        return all(found_entry(a) for a in x.guards)
    ups = level_updates(q, L)
    keyed = all(same(u[4][1], kf(key, 1)) and u[4][0] == "get_mut" for u in ups)
    vol_up = [u for u in ups if u[1] == "0" and u[2] == "Sub" and same(u[3], vol) and unconditional(u[0])]
    cnt_up = [u for u in ups if u[1] == "1" and u[2] == "Sub" and is_const(u[3], 1) and unconditional(u[0])]
    ctx.check(len(ups) == 2 and len(vol_up) == 1 and len(cnt_up) == 1 and keyed, "lockstep", "remove|level", ctx.loc(rem),
              "remove: level at key.1 gets volume -= vol and count -= 1",
              "remove: level update is not (volume -= vol, count -= 1) at key.1: %s" % "; ".join(u[0].text() for u in ups))
    drop = map_calls(q, "remove", L)
    if not drop:
        # `level.remove()` on the occupied entry of the level map at key.1
        class _Drop:
            def __init__(self, c, key_):
                self.args = [c.args[0], key_]
                self.guards = c.guards
                self._c = c

            def gtext(self):
                return self._c.gtext()
        drop = [_Drop(c, occupied_entry(c.args[0], L, q)) for c in q.calls(("remove", "remove_entry")) if c.args and occupied_entry(c.args[0], L, q) is not None]

    def count_zero(a):
        # (`count == 0`, or `count <= 0` on the unsigned count - the negation of an early `count > 0`)
        if a[0] != "cmp" or a[1] not in ("eq", "le"):
            return False
        x, y = a[2], a[3]
        for u, v in ((x, y), (y, x)):
            if is_const(v, 0) and u[0] == "field" and u[2] == "1" and level_base(u, L, q) is not None:
                return True
        return False
    ok = len(drop) == 1 and same(drop[0].args[1], kf(key, 1)) and any(count_zero(a) for a in drop[0].guards) and all(count_zero(a) or found_entry(a) for a in drop[0].guards)
    ctx.check(ok, "lockstep", "remove|drop-level", ctx.loc(rem), "remove: the level is dropped only when its order count reached 0",
              "remove: level dropped under %s (expected: count == 0)" % (drop[0].gtext() if drop else "no drop site"))
    tw = [w for w in q.writes(field=T) if w.root[0] == "param"]
    ok = len(tw) == 1 and unconditional(tw[0]) and bin_of(tw[0].val) and bin_of(tw[0].val)[0] == "Sub" and same(bin_of(tw[0].val)[2], vol) and fld(bin_of(tw[0].val)[1], T)
    ctx.check(ok, "lockstep", "remove|total", ctx.loc(rem), "remove: side total -= vol, unconditionally",
              "remove: side total is not decreased by vol exactly once: %s" % "; ".join(w.text() for w in tw))

    # ---- remove volume
    def unconditional(x):
        return not x.guards
    q = m.q(rvol)
    price, vol = params(q)[1:3]
    ups = level_updates(q, L)
    ok = len(ups) == 1 and ups[0][1] == "0" and ups[0][2] == "Sub" and same(ups[0][3], vol) and unconditional(ups[0][0]) and same(ups[0][4][1], price) and ups[0][4][0] == "get_mut"
    ctx.check(ok, "lockstep", "remove_vol|level", ctx.loc(rvol), "remove_vol: level volume at `price` -= vol (count untouched)",
              "remove_vol: level update is not `volume -= vol` at price: %s" % "; ".join(u[0].text() for u in ups))
    tw = [w for w in q.writes(field=T) if w.root[0] == "param"]
    ok = len(tw) == 1 and unconditional(tw[0]) and bin_of(tw[0].val) and bin_of(tw[0].val)[0] == "Sub" and same(bin_of(tw[0].val)[2], vol)
    ctx.check(ok, "lockstep", "remove_vol|total", ctx.loc(rvol), "remove_vol: side total -= vol",
              "remove_vol: side total is not decreased by vol exactly once: %s" % "; ".join(w.text() for w in tw))
    membership = [c for c in q.calls(("insert", "remove", "pop_first", "pop_last", "clear", "retain", "entry")) if "BTreeMap" in c.resolved]
    ctx.check(not membership, "lockstep", "remove_vol|membership", ctx.loc(rvol), "remove_vol changes no map membership",
              "remove_vol changes map membership: %s" % "; ".join(c.text() for c in membership))
    # ---- the three maps/total have no other writers in the side struct
    allowed = {ins.path, rem.path, rvol.path}
    for f in ctx.prog.find(crate="bourse_book", adt="OrderBookSide"):
        s = m.w.effects.summary(f)
        if s["writes"] and f.path not in allowed:
            # a private helper called only from the three operations is part of them (judged on their inlined views)
            cs_ = m.w.callers(f)
            if not f.pub and cs_ and all(c_.path in allowed for c_ in cs_):
                continue
            ctx.bad("lockstep", "other-writer|" + f.short(), ctx.loc(f), "%s mutates the side structure outside insert/remove/remove_vol: %s" % (f.short(), sorted(s["writes"])))
    side_queries(ctx, m)


def side_queries(ctx, m):
    from analysis.beta import normalize
    P, L, T = m.s_prio, m.s_levels, m.s_total

    def alts_of(f):
        r = normalize(m.w, m.q(f).ret())
        # flatten nested phis
        out = []

        def fl(e):
            if e[0] == "phi":
                for a in e[1]:
                    fl(a)
            elif e not in out:
                out.append(e)
        fl(r)
        return r, out

    def first_of(e, fieldname):
        return any(x[0] == "call" and x[4] == "first_key_value" and fld(x[2][0], fieldname) for x in walk(e))
    # queries: best price / best id read the FIRST entry of the priority map
    for name, fieldname in (("best_price", P), ("best_order_idx", P), ("best_vol", L), ("best_vol_and_orders", L)):
        f = m.side_inner(name)
        reach = [g for g in m.w.reachable([f]) if g.crate.name == "bourse_book"]
        calls = [c for g in reach for c in m.q(g).calls() if "BTreeMap" in c.resolved]
        firsts = [c for c in calls if c.name == "first_key_value" and fld(c.args[0], fieldname)]
        others = [c for c in calls if c.name != "first_key_value"]
        ctx.check(len(firsts) >= 1 and not others, "lockstep", "query|" + name, ctx.loc(f), "%s reads the first entry of self.%s" % (name, fieldname),
                  "%s does not read (only) the first entry of self.%s: %s" % (name, fieldname, "; ".join(c.text() for c in calls)))
    f = m.side_inner("best_price")
    r, alts = alts_of(f)
    ok = len(alts) == 2 and any(is_max_u32(a) for a in alts) and any(a[0] == "field" and a[2] == "0" and a[1][0] == "field" and a[1][2] == "0" and first_of(a, P) for a in alts)
    ctx.check(ok, "lockstep", "query|best_price-value", ctx.loc(f), "best_price = price component of the first key, or MAX when empty", "best_price returns %s" % render(r))
    f = m.side_inner("best_vol")
    r, alts = alts_of(f)

    def first_level_component(a, comp):
        return a[0] == "field" and a[2] == comp and ((a[1][0] == "field" and a[1][2] == "1" and first_of(a, L)) or (a[1][0] == "call" and a[1][4] == "best_vol_and_orders"))
    ok = (len(alts) == 2 and any(a[0] == "const" and a[3] == 0 for a in alts) and any(first_level_component(a, "0") for a in alts)) or \
        (len(alts) == 1 and first_level_component(alts[0], "0"))
    ctx.check(ok, "lockstep", "query|best_vol-value", ctx.loc(f), "best_vol = volume component (.0) of the first level, or 0 when empty", "best_vol returns %s" % render(r))
    f = m.side_inner("best_vol_and_orders")
    r, alts = alts_of(f)
    ok = len(alts) == 2 and any(a[0] == "agg" and len(a[3]) == 2 and all(is_const(x, 0) for x in a[3]) for a in alts) and any(a[0] == "field" and a[2] == "1" and first_of(a, L) for a in alts)
    ctx.check(ok, "lockstep", "query|best_vol_and_orders-value", ctx.loc(f), "best_vol_and_orders = (volume, count) of the first level, or (0, 0) when empty", "best_vol_and_orders returns %s" % render(r))
    f = m.side_inner("vol")
    ctx.check(fld(m.q(f).ret(), T), "lockstep", "query|vol", ctx.loc(f), "vol() returns the side total", "vol() returns %s" % render(m.q(f).ret()))
    f = m.side_inner("vol_and_orders_at_price")
    q = m.q(f)
    gets = [c for c in q.calls("get") if fld(c.args[0], L) and c.args[1][0] == "param"]
    r, alts = alts_of(f)
    okv = len(alts) == 2 and any(a[0] == "agg" and len(a[3]) == 2 and all(is_const(x, 0) for x in a[3]) for a in alts)
    ctx.check(len(gets) == 1 and okv, "lockstep", "query|at_price", ctx.loc(f), "vol_and_orders_at_price looks up the level map at its price argument ((0, 0) when absent)",
              "vol_and_orders_at_price does not look up self.%s at the price argument: returns %s" % (L, render(r)))


# ---------------------------------------------------------------------------------- wrappers (K2 mirror)
def wrappers(ctx, m):
    from .model import SIDE_OPS
    for which in ("BidSide", "AskSide"):
        for op in SIDE_OPS:
            f = m.side_wrapper(which, op)
            q = m.q(f)
            inner = [c for c in q.calls(op) if c.target is not None and c.target.impl_adt and c.target.impl_adt.endswith("OrderBookSide")]
            if len(inner) != 1 or inner[0].guards:
                ctx.bad("wrapper", "%s|%s" % (which, op), ctx.loc(f), "%s::%s does not forward to OrderBookSide::%s exactly once" % (which, op, op))
                continue
            c = inner[0]
            params = [("param", i + 1, n) for i, n in enumerate(f.params)]
            # receiver self.0, remaining args = same parameters (bid price argument inverted for the level query)
            ok = c.args[0][0] == "field" and c.args[0][2] == "0" and c.args[0][1] == params[0]
            inv_arg = False
            for j in range(1, len(params)):
                a = c.args[j]
                if same(a, params[j]):
                    continue
                b = bin_of(a)
                if which == "BidSide" and op == "vol_and_orders_at_price" and b and b[0] == "Sub" and is_max_u32(b[1]) and same(b[2], params[j]):
                    inv_arg = True
                    continue
                ok = False
            r = q.ret()
            res = c.result
            inv_ret = False
            if same(r, res):
                pass
            else:
                b = bin_of(r)
                if which == "BidSide" and op == "best_price" and b and b[0] == "Sub" and is_max_u32(b[1]) and same(b[2], res):
                    inv_ret = True
                elif r == ("const", "()", "()", None) or (r[0] == "const" and r[1] == "()"):
                    pass
                else:
                    ok = False
            need_inv_arg = which == "BidSide" and op == "vol_and_orders_at_price"
            need_inv_ret = which == "BidSide" and op == "best_price"
            ok = ok and inv_arg == need_inv_arg and inv_ret == need_inv_ret
            ctx.check(ok, "wrapper", "%s|%s" % (which, op), ctx.loc(f),
                      "%s::%s forwards receiver/arguments unchanged%s" % (which, op, " with the MAX-price inversion" if (need_inv_arg or need_inv_ret) else ""),
                      "%s::%s is not a plain forwarder%s: call %s, returns %s" % (which, op, " with exactly the MAX-price inversion" if which == "BidSide" else " (ask side is the identity)", c.text(), render(r)))
    # key builders
    for name, side, inverted in (("get_bid_key", "Bid", True), ("get_ask_key", "Ask", False)):
        f = ctx.prog.free_fn("bourse_book", name)
        r = m.q(f).ret()
        ok = r[0] == "agg" and r[1] == "tuple" and len(r[3]) == 3 and r[3][0][0] == "agg" and r[3][0][2].endswith("Side::" + side)
        if ok:
            pr, tm = r[3][1], r[3][2]
            ok = tm[0] == "param" and tm[2] == "t"
            if inverted:
                b = bin_of(pr)
                ok = ok and b and b[0] == "Sub" and is_max_u32(b[1]) and b[2][0] == "param" and b[2][2] == "price"
            else:
                ok = ok and pr[0] == "param" and pr[2] == "price"
        ctx.check(ok, "wrapper", "key|" + name, ctx.loc(f), "%s = (%s, %s, t)" % (name, side, "MAX - price" if inverted else "price"), "%s returns %s" % (name, render(r)))


# ---------------------------------------------------------------------------------- dirty copies written back
def writeback(ctx, m):
    # place_order / modify_order, and any further public operation of the book that works on a local copy of a table entry
    # (e.g. an un-crossing pass added to enable_trading)
    apis = ["place_order", "modify_order"]
    for f_ in m.book_pub_fns():
        if f_.name in apis or not (f_.params and f_.params[0] == "self"):
            continue
        q_ = m.q(f_)
        if any(q_.body.local_ty(l).endswith("OrderEntry") and not q_.body.local_ty(l).startswith("&") and l in q_.ev.memory_locals() for l in q_.ev.def_sites()):
            apis.append(f_.name)
    for api in apis:
        f = m.book_fn(api)
        q = m.q(f)
        copies = []
        for l, defs in q.ev.def_sites().items():
            ty = q.body.local_ty(l)
            if ty.endswith("OrderEntry") and len(defs) == 1 and l in q.ev.memory_locals():
                copies.append(l)
        ctx.check(len(copies) == 1, "writeback", api + "|copy", ctx.loc(f), "%s works on one local copy of the table entry" % api,
                  "%s has %d local OrderEntry copies" % (api, len(copies)))
        if len(copies) != 1:
            continue
        l = copies[0]
        wbs = [w for w in q.writes() if w.val == ("local", l) and any(x[0] == "call" and x[4] == "index_mut" and fld(x[2][0], m.f_orders) for x in walk(w.addr))]
        if len(wbs) != 1:
            ctx.bad("writeback", api + "|store", ctx.loc(f), "%s does not store its working copy back to the order table exactly once" % api)
            continue
        wb = wbs[0]
        src_defs = q.ev.def_sites()[l]
        # the slot written is the slot copied
        from analysis.origin import strip
        d = src_defs[0]
        src = strip(q.ev.rvalue(q.body.blocks[d[1]].stmts[d[2]].rv, (d[1], d[2]))) if d[0] == "s" else None
        # (element access however spelled: orders[i], orders.get(i) matched as Some, orders.index_mut(i), ..)
        from analysis.typestate import _elem
        e1 = next((_elem(x) for x in (walk(src) if src else []) if isinstance(x, tuple) and x and x[0] in ("index", "call", "field") and _elem(x) is not None), None)
        e2 = next((_elem(x) for x in walk(wb.addr) if isinstance(x, tuple) and x and x[0] in ("index", "call", "field") and _elem(x) is not None), None)
        ctx.check(bool(e1 and e2 and same(strip(e1[0]), strip(e2[0])) and same(strip(e1[1]), strip(e2[1]))), "writeback", api + "|slot", wb.loc(), "the copy is stored back into the slot it was read from",
                  "copy read from %s but stored to %s" % (render(src) if src else "?", render(wb.addr)))
        # every path from a block that modifies the copy to a return passes the write-back
        summ = m.w.effects.summary(f)
        mods = {b for (loc, b, sp, what) in summ["sites"] if loc.root == ("local", l)}
        rets = q.body.return_blocks()
        bad = [b for b in mods for r in rets if not q.cfg.all_paths_pass(b, r, [wb.b]) and r in q.cfg.reach_from(b)]
        ctx.check(not bad and mods, "writeback", api + "|all-paths", wb.loc(), "every path that modifies the copy (%d sites) reaches the store-back before returning" % len(mods),
                  "a path modifies the working copy and returns without storing it back (from bb%s)" % (bad[0] if bad else "?"))


# ---------------------------------------------------------------------------------- level walk
def is_touch(m, e, side):
    """e reads the touch price of `side` of the receiver book: bid_ask().0/.1 or the side's own best_price()"""
    while e[0] in ("conv", "cast"):
        e = e[1] if e[0] == "conv" else e[2]
    if e[0] == "field" and e[2] == ("0" if side == "Bid" else "1") and e[1][0] == "call" and e[1][4] == "bid_ask" and e[1][2] and e[1][2][0] == ("param", 1, "self"):
        return True
    want = m.f_bid if side == "Bid" else m.f_ask
    return e[0] == "call" and e[4] == "best_price" and (side + "Side") in e[1] and e[2] and fld(e[2][0], want) and field_chain(e[2][0])[0] == ("param", 1, "self")


def level_walk(ctx, m):
    from analysis.beta import from_fn_element
    from analysis.iterelem import loop_item, rewrite, I
    for name, side, wrap in (("bid_levels", "Bid", "wrapping_sub"), ("ask_levels", "Ask", "wrapping_add")):
        f = m.book_fn(name)
        q = m.q(f)       # unit view: a shared generic `levels_from_touch(side, |offset| ..)` helper is spliced in
        for (cq, _o, _n, _b) in q.closures():
            ctx.analysed_fns.add(cq.fn.path)
        # element i of the returned array: `from_fn(|i| ..)`, or an array filled by `for (i, slot) in arr.iter_mut().enumerate()`
        r = from_fn_element(m.w, q.ret(), I)
        if r is None:
            nxs = [c for c in q.calls("next") if q.cfg.in_loop(c.b)]
            if len(nxs) == 1:
                sym, bounds = loop_item(q, nxs[0])
                ret = q.ret()
                if sym is not None and ret[0] == "local" and not [b_ for b_ in bounds if b_[0] == "take"] and q.cfg.loop_runs_to_completion(list(q.body.loop_heads())[0])[0]:
                    ws = [w for w in q.writes() if rewrite(w.addr, nxs[0], sym) == ("index", ret, I) and not [a for a in w.guards if not (a[0] == "variant" and a[2] == ("Some",))]]
                    if len(ws) == 1:
                        r = rewrite(ws[0].val, nxs[0], sym)
        if r is None:
            ctx.bad("level-walk", name + "|shape", ctx.loc(f), "%s is neither `from_fn(|i| ..)` nor an array filled position by position over all levels" % name)
            continue
        ok = r[0] == "call" and r[4] == "vol_and_orders_at_price" and (side + "Side") in r[1]
        recv_ok = price_ok = False
        if ok:
            want = m.f_bid if side == "Bid" else m.f_ask
            recv_ok = fld(r[2][0], want) and field_chain(r[2][0])[0] == ("param", 1, "self")
            pe = r[2][1]
            if pe[0] == "call" and pe[4] == wrap and len(pe[2]) == 2:
                step = bin_of(pe[2][1])
                idx_ok = tick_ok = False
                if step and step[0] == "Mul":
                    for a_, b_ in ((step[1], step[2]), (step[2], step[1])):
                        x = a_
                        while x[0] in ("conv", "cast"):
                            x = x[1] if x[0] == "conv" else x[2]
                        if x == I:
                            idx_ok = True
                            tick_ok = fld(b_, m.f_tick) and field_chain(b_)[0] == ("param", 1, "self")
                price_ok = idx_ok and tick_ok and is_touch(m, pe[2][0], side)
        ctx.check(ok and recv_ok and price_ok, "level-walk", name, ctx.loc(f),
                  "%s[i] = %s side level query at the %s touch %s i * tick_size" % (name, side, side.lower(), "-" if side == "Bid" else "+"),
                  "%s[i] is %s (expected the %s side queried at touch %s i*tick)" % (name, render(r)[:200], side, "-" if side == "Bid" else "+"))
    # mid price = mean of the two touch prices of this book, computed in floating point
    f = m.book_fn("mid_price")
    r = m.q(f).ret()
    from analysis.origin import const_float

    def touch(e, i):
        return is_touch(m, e, "Bid" if i == 0 else "Ask")
    okm = False
    if r[0] == "bin" and r[1] in ("Mul", "Div"):
        for a, b in ((r[2], r[3]), (r[3], r[2])):
            c = const_float(a)
            if b[0] == "bin" and b[1] == "Add" and ((touch(b[2], 0) and touch(b[3], 1)) or (touch(b[2], 1) and touch(b[3], 0))):
                if (r[1] == "Mul" and c == 0.5) or (r[1] == "Div" and a is r[3] and c == 2.0):
                    okm = True
    ctx.check(okm, "views", "mid_price", ctx.loc(f), "mid_price() = (bid + ask) / 2 of bid_ask(), in f64", "mid_price() returns %s" % render(r))
    f = m.book_fn("bid_ask")
    r = m.q(f).ret()
    ok = r[0] == "agg" and r[1] == "tuple" and len(r[3]) == 2 and all(x[0] == "call" and x[4] == "best_price" for x in r[3]) \
        and "BidSide" in r[3][0][1] and "AskSide" in r[3][1][1] and fld(r[3][0][2][0], m.f_bid) and fld(r[3][1][2][0], m.f_ask)
    ctx.check(ok, "views", "bid_ask", ctx.loc(f), "bid_ask() = (bid side best price, ask side best price)", "bid_ask() returns %s" % render(r))


# ---------------------------------------------------------------------------------- views
def views(ctx, m):
    for name, (side, op) in GETTERS.items():
        f = m.book_fn(name)
        r = m.q(f).ret()
        want = m.f_bid if side == "Bid" else m.f_ask
        ok = r[0] == "call" and r[4] == op and (side + "Side") in r[1] and fld(r[2][0], want)
        ctx.check(ok, "views", "getter|" + name, ctx.loc(f), "%s() = %s side %s()" % (name, side, op), "%s() returns %s" % (name, render(r)))

    def src_ok(field, e, idx_expr=None):
        """does expression e read the quantity that `field` names"""
        side = "bid" if field.startswith("bid") else "ask"

        def call_of(x, nm):
            return x[0] == "call" and x[4] == nm
        Side_ = "Bid" if side == "bid" else "Ask"

        def side_call(x, op):
            return x[0] == "call" and x[4] == op and (Side_ + "Side") in x[1]
        if field in ("bid_price", "ask_price") and is_touch(m, e, Side_):
            return True
        if field in ("bid_vol", "ask_vol") and side_call(e, "vol"):
            return True
        if field in ("bid_touch_vol", "ask_touch_vol") and e[0] == "field" and e[2] == "0" and side_call(e[1], "best_vol_and_orders"):
            return True
        if field in ("bid_touch_orders", "ask_touch_orders") and e[0] == "field" and e[2] == "1" and side_call(e[1], "best_vol_and_orders"):
            return True
        if field in ("bid_price", "ask_price"):
            return e[0] == "field" and e[2] == ("0" if side == "bid" else "1") and call_of(e[1], "bid_ask")
        if field in ("bid_vol", "ask_vol"):
            return call_of(e, field)
        if field in ("bid_touch_vol", "ask_touch_vol"):
            return e[0] == "field" and e[2] == "0" and call_of(e[1], side + "_best_vol_and_orders")
        if field in ("bid_touch_orders", "ask_touch_orders"):
            return e[0] == "field" and e[2] == "1" and call_of(e[1], side + "_best_vol_and_orders")
        if field in ("bid_price_levels", "ask_price_levels"):
            return call_of(e, side + "_levels")
        return False

    def same_book(e, recv):
        calls = [x for x in walk(e) if x[0] == "call" and x[4] in ("bid_ask", "bid_vol", "ask_vol", "bid_levels", "ask_levels",
                                                                  "bid_best_vol_and_orders", "ask_best_vol_and_orders")]
        direct = [x for x in walk(e) if x[0] == "call" and x[4] in ("best_price", "vol", "best_vol_and_orders") and "Side" in x[1]]
        return (all(same(c[2][0], recv) for c in calls) and all(field_chain(c[2][0])[0] == recv for c in direct)) and (calls or direct)

    for owner, fname in (("OrderBook", "level_1_data"), ("OrderBook", "level_2_data")):
        f = ctx.prog.method(owner, fname, crate="bourse_book")
        r = m.q(f).ret()
        if r[0] != "agg" or r[1] != "adt":
            ctx.bad("views", fname + "|shape", ctx.loc(f), "%s does not return a record literal" % fname)
            continue
        for nm, e in zip(r[4], r[3]):
            ctx.check(src_ok(nm, e) and same_book(e, ("param", 1, "self")), "views", "%s|%s" % (fname, nm), ctx.loc(f),
                      "%s.%s <- %s" % (fname, nm, render(e)), "%s.%s is fed from %s" % (fname, nm, render(e)))
    f = m.market_fn("level_2_data")
    q = m.qi(f)
    from analysis.beta import from_fn_element
    r = from_fn_element(m.w, q.ret(), ("var", "i"))   # element i of the returned array (closures beta-reduced, helpers inlined)
    for (cq, _ops, _names, _b) in q.closures():
        ctx.analysed_fns.add(cq.fn.path)
    if r is not None and r[0] == "agg" and r[1] == "adt":
        for nm, e in zip(r[4], r[3]):
            calls = [x for x in walk(e) if x[0] == "call" and x[4] in ("bid_ask", "bid_vol", "ask_vol", "bid_levels", "ask_levels")]
            idx_ok = all(c[2][0][0] == "index" and c[2][0][2] == ("var", "i") for c in calls) and bool(calls)
            ctx.check(src_ok(nm, e) and idx_ok, "views", "Market::level_2_data|" + nm, ctx.loc(f),
                      "Market::level_2_data[i].%s <- %s" % (nm, render(e)), "Market::level_2_data[i].%s is fed from %s" % (nm, render(e)))
    elif r is not None and r[0] == "call" and r[4] == "level_2_data" and "OrderBook" in r[1] and r[2] and r[2][0][0] == "index" and r[2][0][2] == ("var", "i"):
        ctx.ok("views", ctx.loc(f), "Market::level_2_data[i] <- order_books[i].level_2_data() (the book's own view, checked above)")
    else:
        ctx.bad("views", "Market::level_2_data|shape", ctx.loc(f), "Market::level_2_data is not from_fn over a Level2Data literal per index")


# ---------------------------------------------------------------------------------- never crossed
def never_crossed(ctx, m, rule="never-crossed"):
    """judged on the whole-operation views of place_order / modify_order specialised to either side S of the order
    (independent of how placement, matching and queueing are cut into helpers and of how often the side is re-tested):
    every path to an insertion has seen trading == false or has passed through the matching loop whose passive side is
    opposite(S); the loop over the order's own side is never entered"""
    n = 0
    n_loops = 0
    for root in (m.book_fn("place_order"), m.book_fn("modify_order")):
        for S in ("Bid", "Ask"):
            q = m.sv(root, S)
            live = q.cfg.reach_from(0)
            loops = [x for x in m.ov_matching_loops(q) if x[0] in live]
            n_loops += len(loops)
            # edges taken when trading is off
            off_edges = []
            for blk in q.body.blocks:
                t = blk.term
                if blk.cleanup or not t or t.k != "switch":
                    continue
                for s in set(q.body.succs(blk.i)):
                    for a in q.cfg.edge_atoms(blk.i, s):
                        if a[0] == "bool" and a[2] is False and fld(a[1], m.f_trading):
                            off_edges.append((blk.i, s))
            good = [(h, x) for (h, sd, x) in loops if sd == opposite(S)]
            wrong = [(h, x) for (h, sd, x) in loops if sd == S]
            ctx.check(not wrong, rule, "%s|own-side-loop|%s" % (root.short(), S), wrong[0][1].loc() if wrong else ctx.loc(root),
                      "%s of a %s order never enters the matching loop over the %s side" % (root.name, S, S),
                      "%s of a %s order can enter the matching loop over its own side" % (root.name, S))
            reach = q.cfg.reach_from(0, cut_edges=off_edges, cut_blocks=[h for (h, _x) in good])
            guarded = all(any(a[0] == "bool" and a[2] is True and fld(a[1], m.f_trading) for a in q.cfg.guards(h)) for (h, _x) in good)
            for (c, side) in m.side_op_calls(q, "insert_order"):
                if c.b not in live:
                    continue
                n += 1
                ok = bool(good) and c.b not in reach and guarded and side == S
                ctx.check(ok, rule, "%s|%s" % (root.short(), S), c.loc(),
                          "%s: every path to the %s-side insertion either saw trading == false or ran the %s-side matching loop first" % (root.name, S, opposite(S)),
                          "%s: a path reaches the %s-side insertion of a %s order with trading on and without running the %s-side matching loop" % (
                              root.name, side, S, opposite(S)))
    ctx.check(n_loops >= 4, rule, "matchers", "-", "%d matching loops inside the side-specialised whole-operation views of place_order / modify_order" % n_loops)
    ctx.check(n >= 4, rule, "census", "-", "%d insertion sites in the side-specialised whole-operation views of place_order / modify_order" % n)
    ctx.note("that the loop only exits when the limit no longer admits the opposite best price is premise K4 of C01")


# ---------------------------------------------------------------------------------- totality of queries
def totality(ctx, m):
    roots = []
    for owner in ("OrderBook", "Market"):
        for f in ctx.prog.find(crate="bourse_book", adt=owner):
            if f.pub and f.impl_trait is None and f.sig.startswith("for<'a> fn(&'a bourse_book") and f.name not in ("save_json", "load_json"):
                roots.append(f)
    fns = m.w.reachable(roots)
    n = 0
    n_dis = 0
    for f in fns:
        if f.crate.name != "bourse_book":
            continue
        q = m.q(f)
        is_fromfn_closure = f.kind == "Closure"
        for p in panic_sites(q):
            n += 1
            reason = discharge(m, q, p, is_fromfn_closure)
            key = "%s|%s" % (f.short(), p.kind)
            if reason:
                n_dis += 1
                ctx.ok("query-totality", p.loc(), "%s -- discharged: %s" % (p.text(), reason))
            else:
                ctx.bad("query-totality", key, p.loc(), "query can abort: %s is not discharged (reachable from a &self query of OrderBook/Market)" % p.text())
    ctx.check(n >= 8, "query-totality", "census", "-", "%d panic-capable sites in %d functions reachable from %d &self queries" % (n, len(fns), len(roots)))


def discharge(m, q, p, in_closure):
    e = p.expr
    if p.kind.startswith("overflow:Sub") and e and e[0] == "bin" and is_max_u32(e[2]):
        return "MAX - x cannot underflow on an unsigned value"
    if p.kind == "unwrap" and e and e[0] == "call" and e[4] == "try_from" and in_closure and e[2] and e[2][0][0] == "param" and e[2][0][1] == 2:
        return "u32::try_from(i) with i the from_fn index < LEVELS (assumption LEVELS < 2^32)"

    def enum_index(x):
        return any(y[0] == "call" and y[4] == "next" and "Enumerate" in y[1] for y in walk(x))
    if p.kind == "unwrap" and e and e[0] == "call" and e[4] == "try_from" and e[2] and enum_index(e[2][0]):
        return "u32::try_from(i) with i the position in an array of LEVELS entries (assumption LEVELS < 2^32)"
    if p.kind.startswith("overflow:Mul") and e and enum_index(e) and any(fld(x, m.f_tick) for x in walk(e) if x[0] == "field"):
        return "i * tick_size with i < LEVELS (assumption LEVELS * tick_size < 2^32)"
    if p.kind.startswith("overflow:Mul") and in_closure and e and any(x[0] == "param" and x[1] == 2 for x in walk(e)) and any(fld(x, m.f_tick) for x in walk(e) if x[0] == "field"):
        return "i * tick_size with i < LEVELS (assumption LEVELS * tick_size < 2^32)"
    if p.kind == "panic" and not in_closure:
        # `match c.get(i) { Some(x) => x, None => panic!(..) }`: the explicit form of the bounds check of c[i]
        for a in q.cfg.guards(p.b):
            if a[0] == "variant" and a[2] == ("None",) and a[1][0] == "call" and a[1][4] in ("get", "get_mut") and len(a[1][2]) == 2:
                root, chain = field_chain(a[1][2][1])
                if root[0] == "param" and root[2] in ("order_id", "asset") and root[1] >= 2:
                    return "explicit panic on a failed lookup by the caller-supplied %s (valid-history precondition)" % root[2]
    if p.kind in ("index", "bounds") and e:
        idx = None
        if p.kind == "index":
            idx = e[2]
        else:
            idx = e[2] if e[0] == "bin" else None
        if idx is not None:
            root, chain = field_chain(idx)
            if root[0] == "param" and not in_closure and root[2] in ("order_id", "asset") and root[1] >= 2:
                return "index is the caller-supplied %s (valid-history precondition)" % root[2]
            if root[0] == "param" and in_closure and root[1] == 2 and not chain:
                return "index is the from_fn closure index (< array length by from_fn)"
            if idx[0] == "const" and idx[3] == 0:
                return "constant index 0 into the book array (ASSETS >= 1 assumed; shared clock read)"
    return None
