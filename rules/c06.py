"""C06 – modification keeps priority only for pure volume reductions (DESIGN.md §4 C06)."""
from analysis.origin import render, field_chain, walk
from analysis.typestate import same
from analysis.effects import covers
from .model import Model, fld
from .c04 import run_typestate
from . import c02

LEVEL = "other"
MIN_OBLIGATIONS = 18
EXPLANATION = (
    "Guard/effect/typestate rules on modify_order's control-flow graph: the in-place path is taken iff the price argument is "
    "None, the volume is Some(v) and v < current volume (strict), and on that path the priority map is not touched (effect "
    "summary of the callee excludes the priority map; only vol and the mirrored remove-volume); (None, None) has empty effect; "
    "every other feasible dispatch removes the order with its current volume, assigns exactly the requested/kept price and "
    "volume, re-matches only through the trading-guarded opposite-side loop and re-queues iff not Filled under a fresh key "
    "(typestate + K1/K3 of C01); no write of arr_time/start_vol/order_id/side/trader_id is reachable from modify_order.")


class _Prefixed:
    """a view of the check context that files every obligation under a prefixed rule name (C01 re-uses these rules as its
    premise K7: a Modify event is one of the operations the reference engine replays)"""

    def __init__(self, ctx, prefix):
        self._ctx = ctx
        self._p = prefix

    def __getattr__(self, n):
        return getattr(self._ctx, n)

    def ok(self, rule, where, what):
        return self._ctx.ok(self._p + rule, where, what)

    def bad(self, rule, key, where, what):
        return self._ctx.bad(self._p + rule, key, where, what)

    def check(self, cond, rule, key, where, what_ok, what_bad=None):
        return self._ctx.check(cond, self._p + rule, key, where, what_ok, what_bad)

    def lost(self, rule, what):
        return self._ctx.lost(self._p + rule, what)


def run(ctx):
    m = Model(ctx)
    modify_rules(ctx, m)


def modify_rules(ctx, m, with_typestate=True):
    f = m.book_fn("modify_order")
    # whole-operation view: the dispatcher with every private helper (in-place reduction, replacement, unqueue / queue
    # helpers, placement helper, matching loops) spliced in - the rules below speak about what RUNS in each request case,
    # not about which helper it is written in
    q = m.ov(f)
    E = m.w.effects
    np_, nv_ = ("param", 3, "new_price"), ("param", 4, "new_vol")
    ctx.check(f.params[2:4] == ["new_price", "new_vol"], "dispatch", "params", ctx.loc(f), "modify_order(order_id, new_price, new_vol)")

    def payload(p):
        return ("field", ("downcast", p, "Some"), "0", "std::option::Option")

    from analysis.beta import normalize
    calls = [c for c in q.calls() if c.target is not None and c.target.crate.name == "bourse_book" and E.summary(c.target)["writes"]]
    prio_calls, light_calls = [], []
    for c in calls:
        s = E.summary(c.target)
        touches_prio = any(m.s_prio in path for (_pi, path) in s["writes"])
        (prio_calls if touches_prio else light_calls).append(c)
    removals = [c for (c, _sd) in m.side_op_calls(q, "remove_order")]
    insertions = [c for (c, _sd) in m.side_op_calls(q, "insert_order")]
    reductions = [c for (c, _sd) in m.side_op_calls(q, "remove_vol")]
    loops = m.ov_matching_loops(q)
    loop_blocks = set()
    for (h, _sd, _c) in loops:
        loop_blocks |= set(q.body.loop_body(h))
    ctx.check(len(removals) >= 2 and len(insertions) >= 2 and len([c for c in reductions if c.b not in loop_blocks]) >= 1 and len(loops) >= 2, "dispatch", "shape", ctx.loc(f),
              "whole-operation view of modify_order: %d removals, %d insertions, %d volume reductions (%d outside the matching loops), %d matching loops" % (
                  len(removals), len(insertions), len(reductions), len([c for c in reductions if c.b not in loop_blocks]), len(loops)))
    # field writes of the order / its entry / the book made directly in the view (the trade writer's own writes are C03's)
    fwrites = [w for w in q.writes() if w.field is not None and w.owner.split("::")[-1] in ("Order", "OrderEntry", "OrderBook")]

    # ---- finite case analysis over (status, new_price shape, new_vol shape, v < current volume, price on grid): what runs
    #      in each case is read off the CFG with the branch conditions evaluated under the case (analysis/cases.py), so a
    #      `match (new_price, new_vol)`, `if let`, or `unwrap_or` + `is_none()` spelling are judged alike
    from analysis.cases import CaseEval

    def is_vol(e):
        return e[0] == "field" and e[2] == "vol" and (e[1][0] == "field" and e[1][2] == "order" or (len(e) > 3 and e[3].endswith("Order")))

    def decide(active, strict, grid):
        def d(a):
            if a[0] == "variant" and a[1][0] == "call" and a[1][4] == "checked_sub" and len(a[1][2]) == 2 and is_vol(a[1][2][0]) and same(a[1][2][1], payload(nv_)):
                # current.checked_sub(v) is Some iff v <= current: certainly Some when v < current
                if strict:
                    return "Some" in a[2]
                return None
            if a[0] != "cmp":
                return None
            op, x, y = a[1], a[2], a[3]
            # status == / != Active
            if op in ("eq", "ne") and x[0] == "field" and x[2] == "status" and y[0] == "agg" and y[2].endswith("Status::Active"):
                return active if op == "eq" else (not active)
            # v < current volume (strict) and its exact complement current volume <= v
            if same(x, payload(nv_)) and is_vol(y):
                if op == "lt":
                    return strict
                if op == "ge":
                    return not strict
            if is_vol(x) and same(y, payload(nv_)):
                if op == "gt":
                    return strict
                if op == "le":
                    return not strict
            # `current.checked_sub(v)` tested through its payload: (current - v) > 0  <=>  v < current
            if y[0] == "const" and y[3] == 0 and x[0] == "field" and x[2] == "0" and x[1][0] == "downcast" and x[1][2] == "Some" \
                    and x[1][1][0] == "call" and x[1][1][4] == "checked_sub" and len(x[1][1][2]) == 2 and is_vol(x[1][1][2][0]) and same(x[1][1][2][1], payload(nv_)):
                if op in ("gt", "ne"):
                    return strict
                if op in ("eq", "le"):
                    return not strict
            # new price on the tick grid
            if op in ("eq", "ne") and x[0] == "bin" and x[1] == "Rem" and same(x[2], payload(np_)) and y[0] == "const" and y[3] == 0 and grid is not None:
                return grid if op == "eq" else (not grid)
            return None
        return d

    def case(active, p, v, strict=False, grid=True):
        return CaseEval(q, {np_: p, nv_: v}, [decide(active, strict, grid)])

    def kept(e, fname):
        return e[0] == "field" and e[2] == fname and e[1][0] == "field" and e[1][2] == "order"

    def run_set(ce):
        return [c for c in calls if ce.reachable(c.b)]

    def write_set(ce):
        return [w for w in fwrites if ce.reachable(w.b)]

    def label(p, v, strict=None):
        return "(new_price %s, new_vol %s%s)" % (p, v, "" if strict is None else (", v < current" if strict else ", v >= current"))
    # (0) not Active: nothing runs, whatever the request
    for p in ("None", "Some"):
        for v in ("None", "Some"):
            for strict in (True, False):
                ce = case(False, p, v, strict)
                rs, ws = run_set(ce), write_set(ce)
                ctx.check(not rs and not ws, "dispatch", "inactive|%s%s%s" % (p, v, strict), ctx.loc(f), "order not Active %s: no effectful call and no field write is reachable" % label(p, v, strict),
                          "order not Active %s: %s can still run" % (label(p, v, strict), [c.name for c in rs] + [w.text()[:60] for w in ws]))
    # (1) nothing to change
    ce = case(True, "None", "None")
    rs, ws = run_set(ce), write_set(ce)
    ctx.check(not rs and not ws, "noop", "none-none", ctx.loc(f), "a modification with nothing to change reaches no effectful call and no field write",
              "reachable with (None, None): %s" % ", ".join([c.text()[:50] for c in rs] + [w.text()[:60] for w in ws]))
    # (2) pure strict reduction: exactly the mirrored volume decrease runs, always, with amount current - v; the priority
    #     map is not touched, no other order field is written and the volume becomes v
    ce = case(True, "None", "Some", strict=True)
    rs, ws = run_set(ce), write_set(ce)
    red = [c for c in rs if c in reductions]
    ok = bool(red) and len(red) == len(rs) and ce.must_run([c.b for c in red])
    ctx.check(ok, "in-place", "guard", red[0].loc() if red else ctx.loc(f), "price omitted and v < current volume (strict): exactly the in-place reduction (remove_vol) runs, always",
              "price omitted and v < current volume: runs %s%s" % (sorted({c.name for c in rs}), "" if not red or ce.must_run([c.b for c in red]) else " (the in-place reduction can be skipped)"))
    for c in red:
        amt = ce.value(c.args[2]) if len(c.args) > 2 else None
        bb = c02.bin_of(amt) if amt is not None else None
        ok = bb is not None and bb[0] == "Sub" and is_vol(bb[1]) and same(bb[2], payload(nv_))
        ctx.check(ok, "in-place", "delta", c.loc(), "reduction amount = current volume - v", "reduction amount is %s" % (render(amt) if amt is not None else "?"))
        s = E.summary(c.target)
        okp = not any(m.s_prio in path for (_pi, path) in s["writes"]) and not s["unknown"]
        ctx.check(okp, "in-place", "keeps-queue", ctx.loc(c.target), "%s never writes a priority map (effect summary: %s)" % (
            c.target.name, sorted(".".join(p) for _i, p in s["writes"])), "%s may write the priority map" % c.target.name)
    ctx.check(all(w.field == "vol" for w in ws) and bool(ws), "in-place", "only-vol", ws[0].loc() if ws else ctx.loc(f), "the in-place path writes no order field but vol",
              "the in-place path also writes %s" % ", ".join(w.text() for w in ws if w.field != "vol"))
    for w in ws:
        if w.field != "vol":
            continue
        val = ce.value(w.val)
        bb = c02.bin_of(val)
        # vol := v, or vol := vol - (vol - v)
        okv = same(val, payload(nv_))
        if not okv and bb is not None and bb[0] == "Sub" and is_vol(bb[1]):
            b2 = c02.bin_of(bb[2])
            okv = b2 is not None and b2[0] == "Sub" and is_vol(b2[1]) and same(b2[2], payload(nv_))
        ctx.check(okv, "in-place", "new-vol", w.loc(), "the in-place path leaves the order with volume v", "the in-place path sets the volume to %s" % render(val))
    ctx.check(ce.must_run([w.b for w in ws if w.field == "vol"]) if ws else False, "in-place", "vol-written", ctx.loc(f), "the in-place path always updates the order's volume")
    # (3..5) every other request on an Active order (on-grid price): the order is removed from its queue with its current
    #        volume (typestate: remove rule), gets the requested value where given and keeps its current one where omitted,
    #        is re-matched and re-queued (exit states + never-crossed); the in-place reduction is not used
    for (p, v, strict) in (("None", "Some", False), ("Some", "None", False), ("Some", "None", True), ("Some", "Some", False), ("Some", "Some", True)):
        ce = case(True, p, v, strict=strict, grid=True)
        rs, ws = run_set(ce), write_set(ce)
        rem = [c for c in rs if c in removals and c.b not in loop_blocks]
        red_out = [c for c in rs if c in reductions and c.b not in loop_blocks]
        ok = bool(rem) and ce.must_run([c.b for c in rem]) and not red_out
        ctx.check(ok, "replace", "case|%s|%s|%s" % (p, v, strict), rem[0].loc() if rem else ctx.loc(f),
                  "%s on an Active order: the order is taken out of its queue (replaced), never reduced in place" % label(p, v, strict if v == "Some" else None),
                  "%s on an Active order: runs %s%s" % (label(p, v, strict if v == "Some" else None), sorted({c.name for c in rs}),
                                                       " but the removal can be skipped" if rem and not red_out else " (in-place reduction used / no removal)"))
        for (fname, param, shape) in (("price", np_, p), ("vol", nv_, v)):
            fw = [w for w in ws if w.field == fname and w.owner.endswith("Order") and w.b not in loop_blocks]
            vals = [ce.value(normalize(m.w, w.val)) for w in fw]

            def pick(x, param, shape):
                # a join of per-arm values (`unwrap_or`, `match` arms): keep the alternatives that are defined under the case
                alts = list(x[1]) if x is not None and x[0] == "phi" else [x]
                if shape == "Some":
                    alts = [y for y in alts if same(y, payload(param))] or alts
                else:
                    alts = [y for y in alts if not any(same(z, payload(param)) for z in walk(y))] or alts
                return alts[0] if len(alts) == 1 else ("phi", tuple(alts))
            vals = [pick(x, param, shape) for x in vals]
            if shape == "Some":
                okw = bool(fw) and all(same(x, payload(param)) for x in vals) and ce.must_run([w.b for w in fw])
                ctx.check(okw, "replace", "assign-%s|%s|%s|%s" % (fname, p, v, strict), fw[0].loc() if fw else ctx.loc(f),
                          "%s: order.%s := the requested value, always" % (label(p, v), fname),
                          "%s: order.%s is %s (expected the requested value, on every path)" % (label(p, v), fname, "; ".join(render(x) for x in vals) or "never assigned"))
            else:
                okw = all(kept(x, fname) for x in vals)
                ctx.check(okw, "replace", "keep-%s|%s|%s|%s" % (fname, p, v, strict), fw[0].loc() if fw else ctx.loc(f),
                          "%s: order.%s keeps its current value" % (label(p, v), fname),
                          "%s: order.%s is set to %s although it was omitted" % (label(p, v), fname, "; ".join(render(x) for x in vals)))
        # only price / vol / status / end_time / key of the order are written by a replacement (the rest is identity)
    # typestate: removal with current volume, insertion unfiled/Active/own side, exit invariant
    ts, roots, _ld = run_typestate(ctx, m)
    for v in ts.violations.values():
        if with_typestate and v.rule in ("accounting", "insert", "remove", "exit-invariant", "key-side", "state-machine", "typestate-anchor"):
            ctx.bad("ts-" + v.rule, v.key, v.where, v.what)
    res = roots["modify_order"]
    rel = {(t[4], t[0], t[1]) for vs in res["exit"].values() for t in vs}
    ctx.check(("Active", "Active", True) in rel and ("Active", "Filled", False) in rel and all(a == b for (a, b, _i) in rel if a != "Active"),
              "replace", "exit-states", ctx.loc(f), "an Active order leaves modify_order queued+Active or unqueued+Filled; other statuses unchanged",
              "modify_order exit relation: %s" % sorted(rel))
    # "executing immediately against the opposite side if it now crosses": every re-insertion is preceded by the opposite side's
    # matching loop on every path with trading on - whatever was or was not changed by the request (shared with C01/C02/C13)
    if with_typestate:
        c02.never_crossed(ctx, m, rule="replace-rematch")
        # .. and that loop tests the order's NEW price (the value just assigned), against the current best price
        from .c01 import matching_loop_rules
        matching_loop_rules(ctx, m, RULE="replace-rematch-loop")
    # K1/K3 of the re-queue key: C01's key rules on the whole-operation view of modify_order
    from .c01 import key_write_rules
    n_key = key_write_rules(ctx, m, [f], k1="replace", k3="replace")
    from .c01 import fresh_stamp_rules
    fresh_stamp_rules(ctx, m, [f], rule="replace-fresh-stamp")
    # a modification delivered as an instruction (process_event, which the environments use) is the direct modify_order call:
    # the event dispatch forwards it once, unconditionally, fields bound by name (C08's dispatch rule)
    from .c08 import dispatch_rules
    dispatch_rules(_Prefixed(ctx, "event-"), m)
    ctx.check(n_key >= 1, "replace", "fresh-key", ctx.loc(f), "%d key rebuild(s) in the whole-operation view of modify_order" % n_key)
    # identity fields untouched
    tws = [t_[0] for t_ in m.trade_writers()]
    for fname in ("arr_time", "start_vol", "order_id", "side", "trader_id"):
        hits = [w for w in q.writes(field=fname, owner="Order")] + [w for t_ in tws for w in m.q(t_).writes(field=fname, owner="Order")]
        ctx.check(not hits, "identity", fname, hits[0].loc() if hits else ctx.loc(f), "no write of Order.%s is reachable from modify_order" % fname,
                  "Order.%s is written on a path from modify_order: %s" % (fname, hits[0].text() if hits else ""))
    ctx.assume("valid histories: modify volumes >= 1; the order id exists")
