"""C06 – modification keeps priority only for pure volume reductions (DESIGN.md §4 C06)."""
from analysis.origin import render, field_chain, walk
from analysis.typestate import same
from analysis.effects import covers
from .model import Model, fld
from .c04 import run_typestate
from . import c02

LEVEL = "other"
MIN_OBLIGATIONS = 18
EXPLANATION = (
    "Guard/effect/typestate rules on modify_order's control-flow graph: the in-place path is taken iff the price argument is "
    "None, the volume is Some(v) and v < current volume (strict), and on that path the priority map is not touched (effect "
    "summary of the callee excludes the priority map; only vol and the mirrored remove-volume); (None, None) has empty effect; "
    "every other feasible dispatch removes the order with its current volume, assigns exactly the requested/kept price and "
    "volume, re-matches only through the trading-guarded opposite-side loop and re-queues iff not Filled under a fresh key "
    "(typestate + K1/K3 of C01); no write of arr_time/start_vol/order_id/side/trader_id is reachable from modify_order.")


def run(ctx):
    m = Model(ctx)
    f = m.book_fn("modify_order")
    q = m.q(f)
    E = m.w.effects
    np_, nv_ = ("param", 3, "new_price"), ("param", 4, "new_vol")
    ctx.check(f.params[2:4] == ["new_price", "new_vol"], "dispatch", "params", ctx.loc(f), "modify_order(order_id, new_price, new_vol)")

    def opt(atoms, p):
        for a in atoms:
            if a[0] == "variant" and a[1] == p:
                return a[2][0] if len(a[2]) == 1 else None
        return None

    def payload(p):
        return ("field", ("downcast", p, "Some"), "0", "std::option::Option")

    calls = [c for c in q.calls() if c.target is not None and c.target.crate.name == "bourse_book" and m.w.effects.summary(c.target)["writes"]]
    inplace = []
    replace = []
    for c in calls:
        s = E.summary(c.target)
        touches_prio = any(m.s_prio in path for (_pi, path) in s["writes"])
        (replace if touches_prio else inplace).append(c)
    ctx.check(len(inplace) == 1 and len(replace) >= 3, "dispatch", "shape", ctx.loc(f),
              "modify_order dispatches to 1 in-place call (%s) and %d replacing calls" % (inplace[0].name if inplace else "?", len(replace)),
              "modify_order has %d calls that keep the priority map and %d that touch it (expected 1 and 3)" % (len(inplace), len(replace)))
    entity = None
    for c in inplace:
        g = c.rguards
        pv, vv = opt(g, np_), opt(g, nv_)
        lt = [a for a in g if a[0] == "cmp" and a[1] == "lt" and same(a[2], payload(nv_)) and a[3][0] == "field" and a[3][2] == "vol"]
        act = [a for a in g if a[0] == "cmp" and a[1] == "eq" and a[2][0] == "field" and a[2][2] == "status" and a[3][0] == "agg" and a[3][2].endswith("Status::Active")]
        ok = pv == "None" and vv == "Some" and len(lt) == 1 and len(act) == 1
        ctx.check(ok, "in-place", "guard", c.loc(), "in-place reduction iff status Active, price None, volume Some(v), v < current volume (strict)",
                  "in-place reduction taken under [%s] (expected: new_price None && new_vol Some(v) && v < vol, strictly)" % c.gtext())
        if lt:
            entity = lt[0][3][1]
            ctx.check(same(lt[0][3][1], act[0][2][1]) if act else False, "in-place", "same-order", c.loc(), "the volume compared is the volume of the order whose status was tested")
        # argument = vol - v
        b = c02.bin_of(c.args[2]) if len(c.args) > 2 else None
        ok = b is not None and b[0] == "Sub" and b[1][0] == "field" and b[1][2] == "vol" and same(b[2], payload(nv_))
        ctx.check(ok, "in-place", "delta", c.loc(), "reduction amount = current volume - v", "reduction amount is %s" % (render(c.args[2]) if len(c.args) > 2 else "?"))
        s = E.summary(c.target)
        okp = not any(m.s_prio in path for (_pi, path) in s["writes"]) and not s["unknown"]
        ctx.check(okp, "in-place", "keeps-queue", ctx.loc(c.target), "%s never writes a priority map (effect summary: %s)" % (
            c.target.name, sorted(".".join(p) for _i, p in s["writes"])), "%s may write the priority map" % c.target.name)
        # only vol of the order is written among order fields
        tq = m.q(c.target)
        ow = [w for w in tq.writes() if w.owner.split("::")[-1] in ("Order", "OrderEntry")]
        ctx.check(all(w.field == "vol" for w in ow) and ow, "in-place", "only-vol", ctx.loc(c.target), "the in-place path writes no order field but vol",
                  "the in-place path also writes %s" % ", ".join(w.text() for w in ow if w.field != "vol"))
    # replacing dispatches: arguments
    seen = set()
    for c in replace:
        g = c.rguards
        pv, vv = opt(g, np_), opt(g, nv_)
        seen.add((pv, vv))
        a_p = c.arg_named("new_price") if "new_price" in c.formals else (c.args[2] if len(c.args) > 2 else None)
        a_v = c.arg_named("new_vol") if "new_vol" in c.formals else (c.args[3] if len(c.args) > 3 else None)
        want_p = "payload" if pv == "Some" else "kept"
        want_v = "payload" if vv == "Some" else "kept"
        okp = (same(a_p, payload(np_)) if want_p == "payload" else (a_p is not None and a_p[0] == "field" and a_p[2] == "price"))
        okv = (same(a_v, payload(nv_)) if want_v == "payload" else (a_v is not None and a_v[0] == "field" and a_v[2] == "vol" and a_v[1][0] == "field"))
        ctx.check(okp and okv and pv is not None and vv is not None, "replace", "args|%s,%s" % (pv, vv), c.loc(),
                  "(%s, %s): replaced with price %s, volume %s" % (pv, vv, "requested" if want_p == "payload" else "kept", "requested" if want_v == "payload" else "kept"),
                  "(%s, %s): replacement called with price=%s volume=%s" % (pv, vv, render(a_p) if a_p else "?", render(a_v) if a_v else "?"))
        if (pv, vv) == ("None", "Some"):
            ge = [a for a in g if a[0] == "cmp" and a[1] == "le" and a[2][0] == "field" and a[2][2] == "vol" and same(a[3], payload(nv_))]
            ctx.check(len(ge) == 1, "replace", "boundary", c.loc(), "volume-only replacement exactly when v >= current volume",
                      "volume-only replacement under [%s]" % c.gtext())
    ctx.check(seen == {("Some", "Some"), ("Some", "None"), ("None", "Some")}, "dispatch", "cases", ctx.loc(f),
              "replacing dispatch covers (Some,Some), (Some,None), (None,Some v>=vol)", "replacing dispatch covers %s" % sorted(seen))
    # (None, None): no effect -> no effectful call is feasible under both None
    none_calls = [c for c in calls if opt(c.rguards, np_) == "None" and opt(c.rguards, nv_) == "None"]
    unguarded = [c for c in calls if opt(c.rguards, np_) is None or opt(c.rguards, nv_) is None]
    ctx.check(not none_calls and not unguarded, "noop", "none-none", ctx.loc(f), "a modification with nothing to change reaches no effectful call",
              "effectful call reachable with (None, None) or without a full dispatch: %s" % ", ".join(c.text()[:50] for c in none_calls + unguarded))
    # the replacing callee
    targets = {c.target.path: c.target for c in replace}
    ctx.check(len(targets) == 1, "replace", "single-callee", ctx.loc(f), "all replacing dispatches go through one function")
    for t in targets.values():
        tq = m.q(t)
        pw = tq.writes(field="price", owner="Order")
        vw = tq.writes(field="vol", owner="Order")
        okp = len(pw) == 1 and pw[0].val[0] == "param" and pw[0].val[2] == "new_price" and not pw[0].guards
        okv = len(vw) == 1 and vw[0].val[0] == "param" and vw[0].val[2] == "new_vol" and not vw[0].guards
        ctx.check(okp, "replace", "assign-price", pw[0].loc() if pw else ctx.loc(t), "order.price := the price argument, unconditionally", "price assignment: %s" % "; ".join(w.text() for w in pw))
        ctx.check(okv, "replace", "assign-vol", vw[0].loc() if vw else ctx.loc(t), "order.vol := the volume argument, unconditionally", "volume assignment: %s" % "; ".join(w.text() for w in vw))
        rm = m.side_op_calls(tq, "remove_order")
        ins = m.side_op_calls(tq, "insert_order")
        ctx.check(len(rm) == 2 and len(ins) == 2, "replace", "requeue-shape", ctx.loc(t), "replacement removes and re-inserts on either side (2 + 2 sites)")
        for (c, side) in ins:
            okg = any(a[0] == "cmp" and a[1] == "ne" and a[2][0] == "field" and a[2][2] == "status" and a[3][0] == "agg" and a[3][2].endswith("Status::Filled") for a in c.guards)
            ctx.check(okg, "replace", "requeue-iff-unfilled|" + str(side), c.loc(), "re-queued only if not Filled by the re-match", "re-insertion under [%s]" % c.gtext())
    # typestate: removal with current volume, insertion unfiled/Active/own side, exit invariant
    ts, roots, _ld = run_typestate(ctx, m)
    for v in ts.violations.values():
        if v.rule in ("accounting", "insert", "remove", "exit-invariant", "key-side", "state-machine", "typestate-anchor"):
            ctx.bad("ts-" + v.rule, v.key, v.where, v.what)
    res = roots["modify_order"]
    rel = {(t[4], t[0], t[1]) for vs in res["exit"].values() for t in vs}
    ctx.check(("Active", "Active", True) in rel and ("Active", "Filled", False) in rel and all(a == b for (a, b, _i) in rel if a != "Active"),
              "replace", "exit-states", ctx.loc(f), "an Active order leaves modify_order queued+Active or unqueued+Filled; other statuses unchanged",
              "modify_order exit relation: %s" % sorted(rel))
    # K1/K3 of the re-queue key: C01's key rules restricted to functions reachable from modify_order
    from .c01 import stamp_fn, is_clock_like
    stamp = stamp_fn(m)
    reach = m.w.reachable([f])
    for g in reach:
        if g.crate.name != "bourse_book":
            continue
        gq = m.q(g)
        for w in gq.writes(field="key", owner="OrderEntry"):
            v = w.val
            tcomp = v[2][0] if v[0] == "call" and v[2] else (v[3][2] if v[0] == "agg" and len(v[3]) == 3 else None)
            kind = is_clock_like(m, tcomp, stamp) if tcomp else None
            if stamp is not None and kind == "clock":
                kind = None  # a raw clock value can precede the stamps of orders already queued: not "behind every order at that price"
            ctx.check(kind is not None, "replace", "fresh-key-time|" + g.short(), w.loc(), "re-queued under a key whose time is the %s now" % ("queue stamp" if kind == "stamp" else "clock"),
                      "re-queued under key time %s (stale, or not ordered after the queue stamps already handed out)" % (render(tcomp) if tcomp else "?"))
            pcomp = v[2][1] if v[0] == "call" and len(v[2]) > 1 else None
            ctx.check(pcomp is not None and pcomp[0] == "param" and pcomp[2] == "new_price", "replace", "fresh-key-price|" + g.short(), w.loc(),
                      "re-queued under the key of the new price", "re-queued under key price %s" % (render(pcomp) if pcomp else "?"))
    # identity fields untouched
    for fname in ("arr_time", "start_vol", "order_id", "side", "trader_id"):
        hits = [w for g in reach for w in m.q(g).writes(field=fname, owner="Order")]
        ctx.check(not hits, "identity", fname, hits[0].loc() if hits else ctx.loc(f), "no write of Order.%s is reachable from modify_order" % fname,
                  "Order.%s is written on a path from modify_order: %s" % (fname, hits[0].text() if hits else ""))
    ctx.assume("valid histories: modify volumes >= 1; the order id exists")
