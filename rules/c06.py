"""C06 – modification keeps priority only for pure volume reductions (DESIGN.md §4 C06)."""
from analysis.origin import render, field_chain, walk
from analysis.typestate import same
from analysis.effects import covers
from .model import Model, fld
from .c04 import run_typestate
from . import c02

LEVEL = "other"
MIN_OBLIGATIONS = 18
EXPLANATION = (
    "Guard/effect/typestate rules on modify_order's control-flow graph: the in-place path is taken iff the price argument is "
    "None, the volume is Some(v) and v < current volume (strict), and on that path the priority map is not touched (effect "
    "summary of the callee excludes the priority map; only vol and the mirrored remove-volume); (None, None) has empty effect; "
    "every other feasible dispatch removes the order with its current volume, assigns exactly the requested/kept price and "
    "volume, re-matches only through the trading-guarded opposite-side loop and re-queues iff not Filled under a fresh key "
    "(typestate + K1/K3 of C01); no write of arr_time/start_vol/order_id/side/trader_id is reachable from modify_order.")


def run(ctx):
    m = Model(ctx)
    f = m.book_fn("modify_order")
    q = m.q(f)
    E = m.w.effects
    np_, nv_ = ("param", 3, "new_price"), ("param", 4, "new_vol")
    ctx.check(f.params[2:4] == ["new_price", "new_vol"], "dispatch", "params", ctx.loc(f), "modify_order(order_id, new_price, new_vol)")

    def opt(atoms, p):
        for a in atoms:
            if a[0] == "variant" and a[1] == p:
                return a[2][0] if len(a[2]) == 1 else None
        return None

    def payload(p):
        return ("field", ("downcast", p, "Some"), "0", "std::option::Option")

    from analysis.beta import normalize
    cfg = q.cfg
    calls = [c for c in q.calls() if c.target is not None and c.target.crate.name == "bourse_book" and m.w.effects.summary(c.target)["writes"]]
    inplace = []
    replace = []
    for c in calls:
        s = E.summary(c.target)
        touches_prio = any(m.s_prio in path for (_pi, path) in s["writes"])
        (replace if touches_prio else inplace).append(c)
    ctx.check(len(inplace) == 1 and len(replace) >= 1, "dispatch", "shape", ctx.loc(f),
              "modify_order dispatches to 1 in-place call (%s) and %d replacing call site(s)" % (inplace[0].name if inplace else "?", len(replace)),
              "modify_order has %d calls that keep the priority map and %d that touch it (expected 1 and >= 1)" % (len(inplace), len(replace)))

    # assumptions are expressed by cutting the branch edges they exclude
    def var_edges(p, name):
        return set(cfg.edges_with(lambda a: a[0] == "variant" and a[1] == p and a[2] == (name,)))

    def is_lt(a):   # v < current volume
        return a[0] == "cmp" and a[1] == "lt" and same(a[2], payload(nv_)) and a[3][0] == "field" and a[3][2] == "vol"

    def is_ge(a):   # current volume <= v
        return a[0] == "cmp" and a[1] == "le" and a[2][0] == "field" and a[2][2] == "vol" and same(a[3], payload(nv_))
    P_SOME, P_NONE = var_edges(np_, "Some"), var_edges(np_, "None")
    V_SOME, V_NONE = var_edges(nv_, "Some"), var_edges(nv_, "None")
    LT, GE = set(cfg.edges_with(is_lt)), set(cfg.edges_with(is_ge))
    ACTIVE = set(cfg.edges_with(lambda a: a[0] == "cmp" and a[1] == "eq" and a[2][0] == "field" and a[2][2] == "status" and a[3][0] == "agg" and a[3][2].endswith("Status::Active")))
    ctx.check(bool(P_SOME and P_NONE and V_SOME and V_NONE and LT and GE and ACTIVE), "dispatch", "tests", ctx.loc(f),
              "modify_order branches on status == Active, on both options and on v < current volume (strict)",
              "modify_order lacks one of the tests: price option %s/%s, volume option %s/%s, strict v < vol %s/%s, status %s" % (
                  bool(P_SOME), bool(P_NONE), bool(V_SOME), bool(V_NONE), bool(LT), bool(GE), bool(ACTIVE)))

    def reachable(c, assume_cut):
        return c.b in cfg.reach_under(assume_cut)[0]

    def must_run(cs, assume_cut):
        """under the assumption every path to a return executes one of the calls cs"""
        reach, cuts = cfg.reach_under(assume_cut)
        r2 = cfg.reach_from(0, cut_edges=cuts, cut_blocks=[c.b for c in cs])
        return not (set(f.body.return_blocks()) & r2) and any(c.b in reach for c in cs)
    NOT_ACTIVE = set(cfg.edges_with(lambda a: a[0] == "cmp" and a[1] == "ne" and a[2][0] == "field" and a[2][2] == "status" and a[3][0] == "agg" and a[3][2].endswith("Status::Active")))
    entity = None
    lt_atoms = [a for (b_, t_) in LT for a in cfg.edge_atoms(b_, t_) if is_lt(a)]
    if lt_atoms:
        entity = lt_atoms[0][3][1]
    for c in inplace:
        ok = not reachable(c, P_NONE) and not reachable(c, V_SOME) and not reachable(c, LT) and not reachable(c, ACTIVE) and reachable(c, P_SOME | V_NONE | GE | NOT_ACTIVE)
        ctx.check(ok, "in-place", "guard", c.loc(), "in-place reduction iff status Active, price None, volume Some(v), v < current volume (strict)",
                  "in-place reduction is reachable outside {new_price None, new_vol Some(v), v < vol strictly, status Active} (conditions seen: %s)" % c.gtext())
        ctx.check(must_run([c], P_SOME | V_NONE | GE | NOT_ACTIVE), "in-place", "always", c.loc(), "and under those conditions it always runs")
        # argument = vol - v
        b = c02.bin_of(c.args[2]) if len(c.args) > 2 else None
        ok = b is not None and b[0] == "Sub" and b[1][0] == "field" and b[1][2] == "vol" and same(b[2], payload(nv_))
        ctx.check(ok, "in-place", "delta", c.loc(), "reduction amount = current volume - v", "reduction amount is %s" % (render(c.args[2]) if len(c.args) > 2 else "?"))
        s = E.summary(c.target)
        okp = not any(m.s_prio in path for (_pi, path) in s["writes"]) and not s["unknown"]
        ctx.check(okp, "in-place", "keeps-queue", ctx.loc(c.target), "%s never writes a priority map (effect summary: %s)" % (
            c.target.name, sorted(".".join(p) for _i, p in s["writes"])), "%s may write the priority map" % c.target.name)
        tq = m.q(c.target)
        ow = [w for w in tq.writes() if w.owner.split("::")[-1] in ("Order", "OrderEntry")]
        ctx.check(all(w.field == "vol" for w in ow) and ow, "in-place", "only-vol", ctx.loc(c.target), "the in-place path writes no order field but vol",
                  "the in-place path also writes %s" % ", ".join(w.text() for w in ow if w.field != "vol"))
    # replacing call sites
    def kept(e, fname):
        return e[0] == "field" and e[2] == fname and e[1][0] == "field" and e[1][2] == "order"

    def arg_ok(c, a, p, fname, some_cut, none_cut):
        """a = requested value when given, else the order's current one"""
        n = normalize(m.w, a)
        alts = list(n[1]) if n[0] == "phi" else [n]
        if len(alts) == 2 and any(same(x, payload(p)) for x in alts) and any(kept(x, fname) for x in alts):
            return "requested if given, else kept (unwrap_or)"
        if len(alts) == 1 and same(alts[0], payload(p)) and not reachable(c, some_cut):
            return "requested (only reached when given)"
        if len(alts) == 1 and kept(alts[0], fname) and not reachable(c, none_cut):
            return "kept (only reached when omitted)"
        return None
    for c in replace:
        a_p = c.arg_named("new_price") if "new_price" in c.formals else (c.args[2] if len(c.args) > 2 else None)
        a_v = c.arg_named("new_vol") if "new_vol" in c.formals else (c.args[3] if len(c.args) > 3 else None)
        rp = arg_ok(c, a_p, np_, "price", P_SOME, P_NONE) if a_p is not None else None
        rv = arg_ok(c, a_v, nv_, "vol", V_SOME, V_NONE) if a_v is not None else None
        ctx.check(rp is not None and rv is not None, "replace", "args|bb", c.loc(), "replacement gets price: %s; volume: %s" % (rp, rv),
                  "replacement called with price=%s volume=%s (expected: the requested value when given, otherwise the order's current one)" % (
                      render(a_p) if a_p else "?", render(a_v) if a_v else "?"))
        ctx.check(not reachable(c, ACTIVE), "replace", "active-only", c.loc(), "replacement only for an Active order")
    none_none = [c for c in calls if reachable(c, P_SOME | V_SOME)]
    ctx.check(not none_none, "noop", "none-none", ctx.loc(f), "a modification with nothing to change reaches no effectful call",
              "effectful call reachable with (None, None): %s" % ", ".join(c.text()[:50] for c in none_none))
    red = [c for c in replace if reachable(c, P_SOME | V_NONE | GE)]
    ctx.check(not red, "replace", "not-for-reductions", ctx.loc(f), "a pure volume reduction never goes through the replacement path",
              "a pure volume reduction can reach the replacement path")
    OFFGRID = set(cfg.edges_with(lambda a: a[0] == "cmp" and a[1] == "ne" and a[2][0] == "bin" and a[2][1] == "Rem" and a[3][0] == "const" and a[3][3] == 0))
    ctx.check(must_run(replace, P_NONE | NOT_ACTIVE | OFFGRID) and must_run(replace, P_SOME | V_NONE | LT | NOT_ACTIVE), "dispatch", "cases", ctx.loc(f),
              "every Active order with a price given, or a volume not below the current one, is replaced",
              "some modification with a new price / a non-reducing volume does not reach the replacement")
    # the replacing callee
    targets = {c.target.path: c.target for c in replace}
    ctx.check(len(targets) == 1, "replace", "single-callee", ctx.loc(f), "all replacing dispatches go through one function")
    for t in targets.values():
        tq = m.q(t)
        pw = tq.writes(field="price", owner="Order")
        vw = tq.writes(field="vol", owner="Order")
        okp = len(pw) == 1 and pw[0].val[0] == "param" and pw[0].val[2] == "new_price" and not pw[0].guards
        okv = len(vw) == 1 and vw[0].val[0] == "param" and vw[0].val[2] == "new_vol" and not vw[0].guards
        ctx.check(okp, "replace", "assign-price", pw[0].loc() if pw else ctx.loc(t), "order.price := the price argument, unconditionally", "price assignment: %s" % "; ".join(w.text() for w in pw))
        ctx.check(okv, "replace", "assign-vol", vw[0].loc() if vw else ctx.loc(t), "order.vol := the volume argument, unconditionally", "volume assignment: %s" % "; ".join(w.text() for w in vw))
        rm = m.side_op_calls(tq, "remove_order")
        ins = m.side_op_calls(tq, "insert_order")
        ctx.check(len(rm) == 2 and len(ins) == 2, "replace", "requeue-shape", ctx.loc(t), "replacement removes and re-inserts on either side (2 + 2 sites)")
        for (c, side) in ins:
            okg = any(a[0] == "cmp" and a[1] == "ne" and a[2][0] == "field" and a[2][2] == "status" and a[3][0] == "agg" and a[3][2].endswith("Status::Filled") for a in c.guards)
            ctx.check(okg, "replace", "requeue-iff-unfilled|" + str(side), c.loc(), "re-queued only if not Filled by the re-match", "re-insertion under [%s]" % c.gtext())
    # typestate: removal with current volume, insertion unfiled/Active/own side, exit invariant
    ts, roots, _ld = run_typestate(ctx, m)
    for v in ts.violations.values():
        if v.rule in ("accounting", "insert", "remove", "exit-invariant", "key-side", "state-machine", "typestate-anchor"):
            ctx.bad("ts-" + v.rule, v.key, v.where, v.what)
    res = roots["modify_order"]
    rel = {(t[4], t[0], t[1]) for vs in res["exit"].values() for t in vs}
    ctx.check(("Active", "Active", True) in rel and ("Active", "Filled", False) in rel and all(a == b for (a, b, _i) in rel if a != "Active"),
              "replace", "exit-states", ctx.loc(f), "an Active order leaves modify_order queued+Active or unqueued+Filled; other statuses unchanged",
              "modify_order exit relation: %s" % sorted(rel))
    # K1/K3 of the re-queue key: C01's key rules restricted to functions reachable from modify_order
    from .c01 import stamp_fn, is_clock_like
    stamp = stamp_fn(m)
    reach = m.w.reachable([f])
    for g in reach:
        if g.crate.name != "bourse_book":
            continue
        gq = m.q(g)
        for w in gq.writes(field="key", owner="OrderEntry"):
            v = w.val
            tcomp = v[2][0] if v[0] == "call" and v[2] else (v[3][2] if v[0] == "agg" and len(v[3]) == 3 else None)
            kind = is_clock_like(m, tcomp, stamp) if tcomp else None
            if stamp is not None and kind == "clock":
                kind = None  # a raw clock value can precede the stamps of orders already queued: not "behind every order at that price"
            ctx.check(kind is not None, "replace", "fresh-key-time|" + g.short(), w.loc(), "re-queued under a key whose time is the %s now" % ("queue stamp" if kind == "stamp" else "clock"),
                      "re-queued under key time %s (stale, or not ordered after the queue stamps already handed out)" % (render(tcomp) if tcomp else "?"))
            pcomp = v[2][1] if v[0] == "call" and len(v[2]) > 1 else None
            ctx.check(pcomp is not None and pcomp[0] == "param" and pcomp[2] == "new_price", "replace", "fresh-key-price|" + g.short(), w.loc(),
                      "re-queued under the key of the new price", "re-queued under key price %s" % (render(pcomp) if pcomp else "?"))
    # identity fields untouched
    for fname in ("arr_time", "start_vol", "order_id", "side", "trader_id"):
        hits = [w for g in reach for w in m.q(g).writes(field=fname, owner="Order")]
        ctx.check(not hits, "identity", fname, hits[0].loc() if hits else ctx.loc(f), "no write of Order.%s is reachable from modify_order" % fname,
                  "Order.%s is written on a path from modify_order: %s" % (fname, hits[0].text() if hits else ""))
    ctx.assume("valid histories: modify volumes >= 1; the order id exists")
