"""C06 – modification keeps priority only for pure volume reductions (DESIGN.md §4 C06)."""
from analysis.origin import render, field_chain, walk
from analysis.typestate import same
from analysis.effects import covers
from .model import Model, fld
from .c04 import run_typestate
from . import c02

LEVEL = "other"
MIN_OBLIGATIONS = 18
EXPLANATION = (
    "Guard/effect/typestate rules on modify_order's control-flow graph: the in-place path is taken iff the price argument is "
    "None, the volume is Some(v) and v < current volume (strict), and on that path the priority map is not touched (effect "
    "summary of the callee excludes the priority map; only vol and the mirrored remove-volume); (None, None) has empty effect; "
    "every other feasible dispatch removes the order with its current volume, assigns exactly the requested/kept price and "
    "volume, re-matches only through the trading-guarded opposite-side loop and re-queues iff not Filled under a fresh key "
    "(typestate + K1/K3 of C01); no write of arr_time/start_vol/order_id/side/trader_id is reachable from modify_order.")


def run(ctx):
    m = Model(ctx)
    f = m.book_fn("modify_order")
    q = m.q(f)
    E = m.w.effects
    np_, nv_ = ("param", 3, "new_price"), ("param", 4, "new_vol")
    ctx.check(f.params[2:4] == ["new_price", "new_vol"], "dispatch", "params", ctx.loc(f), "modify_order(order_id, new_price, new_vol)")

    def opt(atoms, p):
        for a in atoms:
            if a[0] == "variant" and a[1] == p:
                return a[2][0] if len(a[2]) == 1 else None
        return None

    def payload(p):
        return ("field", ("downcast", p, "Some"), "0", "std::option::Option")

    from analysis.beta import normalize
    cfg = q.cfg
    calls = [c for c in q.calls() if c.target is not None and c.target.crate.name == "bourse_book" and m.w.effects.summary(c.target)["writes"]]
    inplace = []
    replace = []
    for c in calls:
        s = E.summary(c.target)
        touches_prio = any(m.s_prio in path for (_pi, path) in s["writes"])
        (replace if touches_prio else inplace).append(c)
    ctx.check(len(inplace) == 1 and len(replace) >= 1, "dispatch", "shape", ctx.loc(f),
              "modify_order dispatches to 1 in-place call (%s) and %d replacing call site(s)" % (inplace[0].name if inplace else "?", len(replace)),
              "modify_order has %d calls that keep the priority map and %d that touch it (expected 1 and >= 1)" % (len(inplace), len(replace)))

    # ---- finite case analysis over (status, new_price shape, new_vol shape, v < current volume, price on grid): what runs
    #      in each case is read off the CFG with the branch conditions evaluated under the case (analysis/cases.py), so a
    #      `match (new_price, new_vol)`, `if let`, or `unwrap_or` + `is_none()` spelling are judged alike
    from analysis.cases import CaseEval

    def is_vol(e):
        return e[0] == "field" and e[2] == "vol" and (e[1][0] == "field" and e[1][2] == "order" or (len(e) > 3 and e[3].endswith("Order")))

    def decide(active, strict, grid):
        def d(a):
            if a[0] != "cmp":
                return None
            op, x, y = a[1], a[2], a[3]
            # status == / != Active
            if op in ("eq", "ne") and x[0] == "field" and x[2] == "status" and y[0] == "agg" and y[2].endswith("Status::Active"):
                return active if op == "eq" else (not active)
            # v < current volume (strict) and its exact complement current volume <= v
            if same(x, payload(nv_)) and is_vol(y):
                if op == "lt":
                    return strict
                if op == "ge":
                    return not strict
            if is_vol(x) and same(y, payload(nv_)):
                if op == "gt":
                    return strict
                if op == "le":
                    return not strict
            # new price on the tick grid
            if op in ("eq", "ne") and x[0] == "bin" and x[1] == "Rem" and same(x[2], payload(np_)) and y[0] == "const" and y[3] == 0 and grid is not None:
                return grid if op == "eq" else (not grid)
            return None
        return d

    def case(active, p, v, strict=False, grid=True):
        return CaseEval(q, {np_: p, nv_: v}, [decide(active, strict, grid)])

    def kept(e, fname):
        return e[0] == "field" and e[2] == fname and e[1][0] == "field" and e[1][2] == "order"

    def run_set(ce):
        return [c for c in calls if ce.reachable(c.b)]

    def label(p, v, strict=None):
        return "(new_price %s, new_vol %s%s)" % (p, v, "" if strict is None else (", v < current" if strict else ", v >= current"))
    # (0) not Active: nothing runs, whatever the request
    for p in ("None", "Some"):
        for v in ("None", "Some"):
            for strict in (True, False):
                ce = case(False, p, v, strict)
                rs = run_set(ce)
                ctx.check(not rs, "dispatch", "inactive|%s%s%s" % (p, v, strict), ctx.loc(f), "order not Active %s: no effectful call is reachable" % label(p, v, strict),
                          "order not Active %s: %s can still run" % (label(p, v, strict), [c.name for c in rs]))
    # (1) nothing to change
    ce = case(True, "None", "None")
    rs = run_set(ce)
    ctx.check(not rs, "noop", "none-none", ctx.loc(f), "a modification with nothing to change reaches no effectful call",
              "effectful call reachable with (None, None): %s" % ", ".join(c.text()[:50] for c in rs))
    # (2) pure strict reduction: exactly the in-place call, with amount current - v
    ce = case(True, "None", "Some", strict=True)
    rs = run_set(ce)
    ok = bool(inplace) and [c.b for c in rs] == [inplace[0].b] and ce.must_run([inplace[0].b])
    ctx.check(ok, "in-place", "guard", inplace[0].loc() if inplace else ctx.loc(f), "price omitted and v < current volume (strict): exactly the in-place reduction runs, always",
              "price omitted and v < current volume: runs %s%s" % ([c.name for c in rs], "" if not inplace or ce.must_run([inplace[0].b]) else " (the in-place call can be skipped)"))
    for c in inplace:
        amt = ce.value(c.args[2]) if len(c.args) > 2 else None
        bb = c02.bin_of(amt) if amt is not None else None
        ok = bb is not None and bb[0] == "Sub" and is_vol(bb[1]) and same(bb[2], payload(nv_))
        ctx.check(ok, "in-place", "delta", c.loc(), "reduction amount = current volume - v", "reduction amount is %s" % (render(amt) if amt is not None else "?"))
        s = E.summary(c.target)
        okp = not any(m.s_prio in path for (_pi, path) in s["writes"]) and not s["unknown"]
        ctx.check(okp, "in-place", "keeps-queue", ctx.loc(c.target), "%s never writes a priority map (effect summary: %s)" % (
            c.target.name, sorted(".".join(p) for _i, p in s["writes"])), "%s may write the priority map" % c.target.name)
        tq = m.q(c.target)
        ow = [w for w in tq.writes() if w.owner.split("::")[-1] in ("Order", "OrderEntry")]
        ctx.check(all(w.field == "vol" for w in ow) and ow, "in-place", "only-vol", ctx.loc(c.target), "the in-place path writes no order field but vol",
                  "the in-place path also writes %s" % ", ".join(w.text() for w in ow if w.field != "vol"))
    # (3..5) every other request on an Active order (on-grid price): exactly a replacement runs, always, with the requested
    #        value where given and the order's current one where omitted
    for (p, v, strict) in (("None", "Some", False), ("Some", "None", False), ("Some", "None", True), ("Some", "Some", False), ("Some", "Some", True)):
        ce = case(True, p, v, strict=strict, grid=True)
        rs = run_set(ce)
        only_replace = bool(rs) and all(c in replace for c in rs)
        ok = only_replace and ce.must_run([c.b for c in rs])
        ctx.check(ok, "replace", "case|%s|%s|%s" % (p, v, strict), rs[0].loc() if rs else ctx.loc(f),
                  "%s on an Active order: the order is replaced (and nothing else runs)" % label(p, v, strict if v == "Some" else None),
                  "%s on an Active order: runs %s%s" % (label(p, v, strict if v == "Some" else None), [c.name for c in rs],
                                                       "" if not only_replace else " but the replacement can be skipped"))
        for c in rs:
            if c not in replace:
                continue
            a_p = c.arg_named("new_price") if "new_price" in c.formals else (c.args[2] if len(c.args) > 2 else None)
            a_v = c.arg_named("new_vol") if "new_vol" in c.formals else (c.args[3] if len(c.args) > 3 else None)
            vp = ce.value(normalize(m.w, a_p)) if a_p is not None else None
            vv = ce.value(normalize(m.w, a_v)) if a_v is not None else None
            # a join of per-arm values: keep the alternatives that are defined under the case
            def pick(x, param, shape):
                alts = list(x[1]) if x is not None and x[0] == "phi" else [x]
                if shape == "Some":
                    alts = [y for y in alts if same(y, payload(param))] or alts
                else:
                    alts = [y for y in alts if not any(same(z, payload(param)) for z in walk(y))] or alts
                return alts
            ap, av = pick(vp, np_, p), pick(vv, nv_, v)
            okp = len(ap) == 1 and (same(ap[0], payload(np_)) if p == "Some" else kept(ap[0], "price"))
            okv = len(av) == 1 and (same(av[0], payload(nv_)) if v == "Some" else kept(av[0], "vol"))
            ctx.check(okp and okv, "replace", "args|%s|%s|%s" % (p, v, strict), c.loc(),
                      "%s: replacement gets price = %s, volume = %s" % (label(p, v), "requested" if p == "Some" else "current", "requested" if v == "Some" else "current"),
                      "%s: replacement called with price=%s volume=%s (expected the requested value when given, otherwise the order's current one)" % (
                          label(p, v), render(vp) if vp else "?", render(vv) if vv else "?"))
    # the replacing callee
    targets = {c.target.path: c.target for c in replace}
    ctx.check(len(targets) == 1, "replace", "single-callee", ctx.loc(f), "all replacing dispatches go through one function")
    for t in targets.values():
        tq = m.q(t)
        pw = tq.writes(field="price", owner="Order")
        vw = tq.writes(field="vol", owner="Order")
        okp = len(pw) == 1 and pw[0].val[0] == "param" and pw[0].val[2] == "new_price" and not pw[0].guards
        okv = len(vw) == 1 and vw[0].val[0] == "param" and vw[0].val[2] == "new_vol" and not vw[0].guards
        ctx.check(okp, "replace", "assign-price", pw[0].loc() if pw else ctx.loc(t), "order.price := the price argument, unconditionally", "price assignment: %s" % "; ".join(w.text() for w in pw))
        ctx.check(okv, "replace", "assign-vol", vw[0].loc() if vw else ctx.loc(t), "order.vol := the volume argument, unconditionally", "volume assignment: %s" % "; ".join(w.text() for w in vw))
        rm = m.side_op_calls(tq, "remove_order")
        ins = m.side_op_calls(tq, "insert_order")
        ctx.check(len(rm) == 2 and len(ins) == 2, "replace", "requeue-shape", ctx.loc(t), "replacement removes and re-inserts on either side (2 + 2 sites)")
        for (c, side) in ins:
            okg = any(a[0] == "cmp" and a[1] == "ne" and a[2][0] == "field" and a[2][2] == "status" and a[3][0] == "agg" and a[3][2].endswith("Status::Filled") for a in c.guards)
            ctx.check(okg, "replace", "requeue-iff-unfilled|" + str(side), c.loc(), "re-queued only if not Filled by the re-match", "re-insertion under [%s]" % c.gtext())
    # typestate: removal with current volume, insertion unfiled/Active/own side, exit invariant
    ts, roots, _ld = run_typestate(ctx, m)
    for v in ts.violations.values():
        if v.rule in ("accounting", "insert", "remove", "exit-invariant", "key-side", "state-machine", "typestate-anchor"):
            ctx.bad("ts-" + v.rule, v.key, v.where, v.what)
    res = roots["modify_order"]
    rel = {(t[4], t[0], t[1]) for vs in res["exit"].values() for t in vs}
    ctx.check(("Active", "Active", True) in rel and ("Active", "Filled", False) in rel and all(a == b for (a, b, _i) in rel if a != "Active"),
              "replace", "exit-states", ctx.loc(f), "an Active order leaves modify_order queued+Active or unqueued+Filled; other statuses unchanged",
              "modify_order exit relation: %s" % sorted(rel))
    # K1/K3 of the re-queue key: C01's key rules restricted to functions reachable from modify_order
    from .c01 import stamp_fn, is_clock_like
    stamp = stamp_fn(m)
    reach = m.w.reachable([f])
    for g in reach:
        if g.crate.name != "bourse_book":
            continue
        gq = m.q(g)
        for w in gq.writes(field="key", owner="OrderEntry"):
            v = w.val
            tcomp = v[2][0] if v[0] == "call" and v[2] else (v[3][2] if v[0] == "agg" and len(v[3]) == 3 else None)
            kind = is_clock_like(m, tcomp, stamp) if tcomp else None
            if stamp is not None and kind == "clock":
                kind = None  # a raw clock value can precede the stamps of orders already queued: not "behind every order at that price"
            ctx.check(kind is not None, "replace", "fresh-key-time|" + g.short(), w.loc(), "re-queued under a key whose time is the %s now" % ("queue stamp" if kind == "stamp" else "clock"),
                      "re-queued under key time %s (stale, or not ordered after the queue stamps already handed out)" % (render(tcomp) if tcomp else "?"))
            pcomp = v[2][1] if v[0] == "call" and len(v[2]) > 1 else None
            ctx.check(pcomp is not None and pcomp[0] == "param" and pcomp[2] == "new_price", "replace", "fresh-key-price|" + g.short(), w.loc(),
                      "re-queued under the key of the new price", "re-queued under key price %s" % (render(pcomp) if pcomp else "?"))
    # identity fields untouched
    for fname in ("arr_time", "start_vol", "order_id", "side", "trader_id"):
        hits = [w for g in reach for w in m.q(g).writes(field=fname, owner="Order")]
        ctx.check(not hits, "identity", fname, hits[0].loc() if hits else ctx.loc(f), "no write of Order.%s is reachable from modify_order" % fname,
                  "Order.%s is written on a path from modify_order: %s" % (fname, hits[0].text() if hits else ""))
    ctx.assume("valid histories: modify volumes >= 1; the order id exists")
