"""C18 – the Python classes are transparent views of the Rust core (DESIGN.md §4 C18)."""
import re

from analysis.origin import render, field_chain, walk, strip
from analysis.typestate import same
from .model import Model, fld

LEVEL = "other"
MIN_OBLIGATIONS = 70
EXPLANATION = (
    "Forwarding conformance of the PyO3 wrapper classes, decided on their MIR: every #[pymethods] function of OrderBook and "
    "StepEnv reaches the wrapped core object through exactly the expected core call (table keyed by the public Python "
    "name) with name-role agreement of the forwarded arguments and qualifier-token agreement between the wrapper's name and "
    "what it reads (bid/ask side; volume / price / and_orders / trade / time / status); bool->Side maps true to Bid in every "
    "wrapper and in From<bool>; Status->u8 is 0..4 in declaration order and equals the documented list in both order_status "
    "docs; cast_order / cast_trade tuple layouts equal the PyOrder / PyTrade aliases and the documented field lists; "
    "parameter types are the core's integer types so PyO3 rejects out-of-range integers before the body runs; OrderError is "
    "mapped to PyValueError and the failing core call is effect-free (C12); StepEnv's generator is seeded once and used only "
    "by step; snapshot functions forward to save_json / load_json. Behaviour of the compiled extension under CPython is not executed.")

OB_TABLE = {  # python method -> (core method, forwarded parameter names)
    "set_time": ("set_time", ["t"]), "enable_trading": ("enable_trading", []), "disable_trading": ("disable_trading", []),
    "ask_vol": ("ask_vol", []), "best_ask_vol": ("ask_best_vol", []), "best_ask_vol_and_orders": ("ask_best_vol_and_orders", []),
    "bid_vol": ("bid_vol", []), "best_bid_vol": ("bid_best_vol", []), "best_bid_vol_and_orders": ("bid_best_vol_and_orders", []),
    "bid_ask": ("bid_ask", []), "cancel_order": ("cancel_order", ["order_id"]), "modify_order": ("modify_order", ["order_id", "new_price", "new_vol"]),
    "place_order": ("create_and_place_order", ["side", "vol", "trader_id", "price"]), "save_json_snapshot": ("save_json", ["path", "pretty"]),
}
ENV_FORWARD = {
    "enable_trading": ("enable_trading", []), "disable_trading": ("disable_trading", []), "cancel_order": ("cancel_order", ["order_id"]),
    "modify_order": ("modify_order", ["order_id", "new_price", "new_vol"]), "place_order": ("place_order", ["side", "vol", "trader_id", "price"]),
}
ENV_L2 = {  # getter -> path read from env.level_2_data()
    "ask_vol": ["ask_vol"], "bid_vol": ["bid_vol"], "best_ask_vol": ["ask_price_levels", "[0]", "0"], "best_bid_vol": ["bid_price_levels", "[0]", "0"],
    "best_ask_vol_and_orders": ["ask_price_levels", "[0]"], "best_bid_vol_and_orders": ["bid_price_levels", "[0]"],
}
ORDER_KW = [("id of the order", "order_id"), ("side", "side"), ("status", "status"), ("arrival", "arr_time"), ("end time", "end_time"), ("remaining", "vol"),
            ("starting", "start_vol"), ("price", "price"), ("trader", "trader_id")]
TRADE_KW = [("aggressive", "active_order_id"), ("passive", "passive_order_id"), ("time", "t"), ("side", "side"), ("price", "price"), ("volume", "vol")]
ALLOWED_PARAM_TYPES = {"u32", "u64", "usize", "bool", "std::option::Option<u32>", "std::string::String", "pyo3::Python<'a>", "pyo3::Python<'_>"}


def pymethods(ctx, cls):
    out = {}
    for f in ctx.prog.find(crate="bourse", adt=cls):
        if f.impl_trait is None and f.pub and not f.name.startswith("__"):
            out[f.name] = f
    return out


def token_side(name):
    has_b = bool(re.search(r"(^|_)bid(_|$)", name))
    has_a = bool(re.search(r"(^|_)ask(_|$)", name))
    if has_b and not has_a:
        return "bid"
    if has_a and not has_b:
        return "ask"
    return None


def run(ctx):
    m = Model(ctx)
    prog = ctx.prog
    from .c19 import builder_view

    class _PV:
        """m.q replaced by the pymethod view (helper types / free helpers of the extension crate spliced in)"""
        def q(self, f):
            return builder_view(m, f) if f.crate.name == "bourse" else m.q(f)
    pv = _PV()
    # ---------------------------------------------------------------- OrderBook wrapper
    ob = pymethods(ctx, "OrderBook")
    covered = set(OB_TABLE) | {"new", "order_status", "get_trades", "get_orders"}
    # every method the rules name must exist; further methods (API additions) are outside the property's statement - they are
    # listed, not judged (a wrapper the rules name that is re-routed through such an addition is still judged on its inlined view)
    extra = sorted(set(ob) - covered)
    if extra:
        ctx.note("OrderBook wrapper methods beyond the ones the property names (not judged): %s" % extra)
    ctx.check(covered - {"new"} <= set(ob) and len(ob) >= 18, "coverage", "OrderBook", "-", "all %d public OrderBook wrapper methods the property names exist and are covered by a rule" % (len(ob) - len(extra)),
              "OrderBook wrapper methods missing: %s" % sorted(covered - {"new"} - set(ob)))
    for name, (core, params) in OB_TABLE.items():
        f = ob.get(name)
        if f is None:
            ctx.lost("forward", "OrderBook." + name)
            continue
        q = m.q(f)
        cs = [c for c in q.calls() if c.target is not None and c.target.crate.name == "bourse_book" and not (c.target.impl_trait or "").startswith(("std::convert", "core::convert"))]
        ok = len(cs) == 1 and cs[0].name == core and not cs[0].guards and cs[0].args[0][0] == "field" and cs[0].args[0][1] == ("param", 1, "self")
        if not ok and not params and token_side(name) is not None:
            # alternative spelling of a side getter: read from the core's level-1 record (possibly through a private helper
            # parameterised by the side): every field read must be of the wrapper's own side and quantity
            r = pv.q(f).ret()
            side = token_side(name)
            want = {"%s_vol" % side: ["%s_vol" % side], "best_%s_vol" % side: ["%s_touch_vol" % side],
                    "best_%s_vol_and_orders" % side: ["%s_touch_vol" % side, "%s_touch_orders" % side]}.get(name)
            parts = list(r[3]) if r[0] == "agg" and r[1] == "tuple" else [r]
            got = []
            for e in parts:
                root, names = field_chain(e)
                names = [n for n in names if not n.startswith("as ")]
                src_ok = root[0] == "call" and root[4] in ("level_1_data", "level_2_data") and root[2] and field_chain(root[2][0])[0] == ("param", 1, "self")
                got.append(names[-1] if (names and src_ok) else "?" + render(e)[:30])
            if want is not None and any(x[0] == "call" and x[4] in ("level_1_data", "level_2_data") for x in walk(r)):
                ctx.check(got == want, "qualifier", "OrderBook.%s|record" % name, ctx.loc(f), "OrderBook.%s reads %s of the core's level data" % (name, want),
                          "OrderBook.%s returns %s of the core's level data (expected %s: the wrapper's own side and quantity)" % (name, got, want))
                continue
        ctx.check(ok, "forward", "OrderBook.%s|callee" % name, ctx.loc(f), "OrderBook.%s -> core %s, once, unconditionally" % (name, core),
                  "OrderBook.%s calls %s" % (name, [c.text()[:60] for c in cs]))
        if not ok:
            continue
        c = cs[0]
        okargs = True
        for formal in c.formals[1:]:
            a = c.arg_named(formal)
            if formal == "side":
                continue
            okargs = okargs and a is not None and field_chain(a)[0][0] == "param" and field_chain(a)[0][2] == formal
        ctx.check(okargs, "forward", "OrderBook.%s|args" % name, c.loc(), "arguments bound by name: %s" % ", ".join(c.formals[1:]), "OrderBook.%s forwards %s" % (name, c.text()))
        ts, tc = token_side(name), token_side(core)
        ctx.check(ts == tc, "qualifier", "OrderBook." + name, ctx.loc(f), "side qualifier of `%s` and `%s` agree (%s)" % (name, core, ts), "`%s` is wired to `%s`" % (name, core))
        if not params and name not in ("enable_trading", "disable_trading"):
            ctx.check(same(q.ret(), c.result), "forward", "OrderBook.%s|ret" % name, ctx.loc(f), "returns the core value unchanged", "returns %s" % render(q.ret()))
    # ---------------------------------------------------------------- StepEnv wrapper
    se = pymethods(ctx, "StepEnv")
    for name, (core, params) in ENV_FORWARD.items():
        f = se.get(name)
        if f is None:
            ctx.lost("forward", "StepEnv." + name)
            continue
        q = pv.q(f)
        cs = [c for c in q.calls() if c.target is not None and c.target.crate.name in ("bourse_de", "bourse_book") and not (c.target.impl_trait or "").startswith(("std::convert", "core::convert"))]
        ok = len(cs) == 1 and cs[0].name == core and not cs[0].guards and fld(cs[0].args[0], "env")
        ctx.check(ok, "forward", "StepEnv.%s|callee" % name, ctx.loc(f), "StepEnv.%s -> Env::%s, once, unconditionally" % (name, core), "StepEnv.%s calls %s" % (name, [c.text()[:60] for c in cs]))
        if ok:
            c = cs[0]
            okargs = all(formal == "side" or (c.arg_named(formal) is not None and field_chain(c.arg_named(formal))[0][0] == "param" and field_chain(c.arg_named(formal))[0][2] == formal) for formal in c.formals[1:])
            ctx.check(okargs, "forward", "StepEnv.%s|args" % name, c.loc(), "arguments bound by name: %s" % ", ".join(c.formals[1:]), "StepEnv.%s forwards %s" % (name, c.text()))
    for name, path in ENV_L2.items():
        f = se.get(name)
        if f is None:
            ctx.lost("forward", "StepEnv." + name)
            continue
        r = pv.q(f).ret()
        root, names = field_chain(r)
        names = [("[0]" if n == "[]" else n) for n in names if not n.startswith("as ")]
        ix = [x for x in walk(r) if x[0] == "index"]
        zero = all(x[2][0] == "const" and x[2][3] == 0 for x in ix)
        ok = root[0] == "call" and root[4] == "level_2_data" and fld(root[2][0], "env") and names == path and zero
        ctx.check(ok, "qualifier", "StepEnv." + name, ctx.loc(f), "StepEnv.%s reads level_2_data().%s" % (name, ".".join(path)), "StepEnv.%s returns %s" % (name, render(r)))
    f = se.get("bid_ask")
    if f is not None:
        r = pv.q(f).ret()
        ok = r[0] == "agg" and r[1] == "tuple" and len(r[3]) == 2 and fld(r[3][0], "bid_price") and fld(r[3][1], "ask_price")
        ctx.check(ok, "qualifier", "StepEnv.bid_ask", ctx.loc(f), "bid_ask = (bid_price, ask_price) of the cached level-2 data", "bid_ask returns %s" % render(r))
    for name, core in (("time", "get_time"), ("trade_vol", "get_trade_vol")):
        f = se.get(name)
        if f is not None:
            r = pv.q(f).ret()
            ok = r[0] == "call" and r[4] == core and r[2][0][0] == "call" and r[2][0][4] == "get_orderbook"
            ctx.check(ok, "qualifier", "StepEnv." + name, ctx.loc(f), "StepEnv.%s = live book %s()" % (name, core), "StepEnv.%s returns %s" % (name, render(r)))
    f = se.get("step")
    if f is not None:
        q = pv.q(f)
        cs = q.calls("step")
        ok = len(cs) == 1 and fld(cs[0].args[0], "env") and fld(cs[0].args[1], "rng") and field_chain(cs[0].args[1])[0] == ("param", 1, "self")
        ctx.check(ok, "forward", "StepEnv.step", ctx.loc(f), "StepEnv.step -> Env::step(&mut self.rng)", "StepEnv.step calls %s" % [c.text() for c in cs])
    # generator used only by step
    for g in se.values():
        if g.name in ("step", "new"):
            continue
        q = pv.q(g)
        uses = [c for c in q.calls() if any(fld(a, "rng") and field_chain(a)[0] == ("param", 1, "self") for a in c.args)]
        ctx.check(not uses, "rng", "StepEnv." + g.name, ctx.loc(g), "StepEnv.%s does not touch the generator" % g.name, "StepEnv.%s uses the generator" % g.name)
    # ---------------------------------------------------------------- order_status, bool->Side, Status->u8
    for cls, meths in (("OrderBook", ob), ("StepEnv", se)):
        f = meths.get("order_status")
        if f is None:
            ctx.lost("status", cls + ".order_status")
            continue
        r = m.q(f).ret()
        ok = r[0] == "conv" and r[1][0] == "field" and r[1][2] == "status" and r[1][1][0] == "call" and r[1][1][4] == "order" \
            and r[1][1][2][1][0] == "param" and r[1][1][2][1][2] == "order_id"
        ctx.check(ok, "status", cls + ".order_status", ctx.loc(f), "%s.order_status = u8::from(book.order(order_id).status)" % cls, "%s.order_status returns %s" % (cls, render(r)))
        doc_codes = re.findall(r"``(\d) = (\w+)``", f.doc)
        variants = [v["name"] for v in prog.adts["bourse_book::types::Status"]["variants"]]
        ok = [(int(a), b) for a, b in doc_codes] == list(enumerate(variants))
        ctx.check(ok, "status", cls + ".order_status|doc", ctx.loc(f), "documented codes %s equal the declaration order of Status" % doc_codes, "documented codes %s vs Status variants %s" % (doc_codes, variants))
    conv = [f for f in prog.units() if f.name == "from" and f.crate.name == "bourse_book" and "From<bourse_book::types::Status>" in (f.impl_trait or "") + f.path]
    if len(conv) == 1:
        q = m.q(conv[0])
        table = {}
        for blk in conv[0].body.blocks:
            if blk.cleanup:
                continue
            for i, st in enumerate(blk.stmts):
                if st.k == "assign" and st.place.is_local() and st.place.local == 0 and st.rv.k == "use" and st.rv.ops[0].is_const():
                    g = [a for a in q.cfg.guards(blk.i) if a[0] == "variant" and len(a[2]) == 1]
                    if g:
                        table[g[0][2][0]] = st.rv.ops[0].const_int()
        variants = [v["name"] for v in prog.adts["bourse_book::types::Status"]["variants"]]
        if not table:
            # `status as u8`: the numeric discriminant of each variant (explicit or implicit), read from the type definition
            r = q.ret()
            if r[0] == "cast" and r[2][0] == "discr" and r[2][1][0] == "param":
                table = {v["name"]: int(v.get("discr", "-1")) for v in prog.adts["bourse_book::types::Status"]["variants"]}
        ctx.check(table == {v: i for i, v in enumerate(variants)}, "status", "u8-table", ctx.loc(conv[0]), "Status -> u8: %s" % table, "Status -> u8 table is %s" % table)
    else:
        ctx.lost("status", "From<Status> for u8 (found %d)" % len(conv))
    # bool -> Side
    def bool_side_table(f, param_name):
        q = m.q(f)
        table = {}
        for blk in q.body.blocks:
            if blk.cleanup:
                continue
            for i, st in enumerate(blk.stmts):
                if st.k == "assign" and st.rv.k == "agg" and st.rv.j.get("adt", "").endswith("types::Side"):
                    g = [a for a in q.cfg.guards(blk.i) if a[0] == "bool" and a[1][0] == "param" and a[1][2] == param_name]
                    if g:
                        table[g[0][2]] = st.rv.j["variant"]
        return table
    for cls, meths in (("OrderBook", ob), ("StepEnv", se)):
        f = meths.get("place_order")
        if f is not None:
            t = bool_side_table(f, "bid")
            q = m.q(f)
            conv_call = [c for c in q.calls("from") if "Side" in c.resolved and "From<bool>" in c.resolved and c.args and c.args[0][0] == "param" and c.args[0][2] == "bid"]
            if not t and conv_call:
                t = {True: "Bid", False: "Ask"}     # `Side::from(bid)`: the From<bool> table itself is checked below
            ctx.check(t == {True: "Bid", False: "Ask"}, "side", cls + ".place_order", ctx.loc(f), "bid=True -> Side::Bid, False -> Side::Ask", "%s.place_order maps %s" % (cls, t))
            cc = [c for c in q.calls() if c.name in ("create_and_place_order", "place_order") and c.target is not None]
            if cc:
                s = cc[0].arg_named("side")
                ok = s is not None and ((s[0] == "phi" and all(x[0] == "agg" and "Side::" in x[2] for x in s[1])) or (conv_call and s == conv_call[0].result))
                ctx.check(ok, "side", cls + ".place_order|flows", cc[0].loc(), "the side passed to the core is the one selected from `bid`", "side argument is %s" % (render(s) if s else "?"))
            # error mapping
            errs = [c for c in q.calls("new_err")]
            okm = len(errs) == 1 and "PyValueError" in errs[0].resolved and any(a[0] == "variant" and a[2] == ("Err",) for a in errs[0].guards)
            if not errs:
                # `core_call(..).map_err(|e| PyValueError::new_err(..))`
                for me in q.calls("map_err"):
                    recv_core = me.args and me.args[0][0] == "call" and me.args[0][4] in ("create_and_place_order", "place_order")
                    clo = me.args[1] if len(me.args) > 1 else None
                    if recv_core and clo is not None and clo[0] == "fn":
                        hf = [g for g in prog.units() if g.crate.name == "bourse" and g.kind == "Fn" and clo[1].endswith("::" + g.name)]
                        if len(hf) == 1:
                            errs = [c for c in m.q(hf[0]).calls("new_err")]
                            okm = len(errs) == 1 and "PyValueError" in errs[0].resolved and same(q.ret(), me.result)
                    if recv_core and clo is not None and clo[0] == "agg" and clo[1] == "closure":
                        from analysis.beta import closure_fn
                        cf = closure_fn(m.w, clo)
                        if cf is not None:
                            errs = [c for c in m.w.q(cf).calls("new_err")]
                            okm = len(errs) == 1 and "PyValueError" in errs[0].resolved and same(q.ret(), me.result)
            ctx.check(okm, "errors", cls + ".place_order", errs[0].loc() if errs else ctx.loc(f), "a core OrderError becomes PyValueError", "error mapping: %s" % [c.resolved for c in errs])
            own = [s_ for s_ in m.w.effects.summary(f)["sites"] if s_[0].root[0] == "param" and not s_[3].startswith("call ")]
            ctx.check(not own, "errors", cls + ".place_order|no-own-effects", ctx.loc(f), "the wrapper has no effect of its own besides the core call (a rejected order leaves the object unchanged, C12)")
    fb = [f for f in prog.units() if f.name == "from" and f.crate.name == "bourse_book" and f.sig.startswith("fn(bool) -> bourse_book::types::Side")]
    if len(fb) == 1:
        t = bool_side_table(fb[0], "side")
        ctx.check(t == {True: "Bid", False: "Ask"}, "side", "From<bool>", ctx.loc(fb[0]), "Side::from(true) = Bid, from(false) = Ask", "From<bool> for Side maps %s" % t)
    else:
        ctx.lost("side", "From<bool> for Side")
    sb = [f for f in prog.units() if f.name == "from" and f.crate.name == "bourse_book" and f.sig.startswith("fn(bourse_book::types::Side) -> bool")]
    if len(sb) == 1:
        q = m.q(sb[0])
        table = {}
        for blk in sb[0].body.blocks:
            for i, st in enumerate(blk.stmts):
                if st.k == "assign" and st.place.is_local() and st.place.local == 0 and st.rv.k == "use" and st.rv.ops[0].is_const():
                    g = [a for a in q.cfg.guards(blk.i) if a[0] == "variant" and len(a[2]) == 1]
                    if g:
                        table[g[0][2][0]] = st.rv.ops[0].const_int()
        if table != {"Bid": 1, "Ask": 0}:
            # any other spelling (`!matches!(side, Side::Ask)`, `side == Side::Bid`, ..): the value returned in the view
            # specialised to each variant of the argument (branches contradicting the variant cut, constants folded)
            def fold(e):
                if e[0] == "const" and e[3] in (0, 1):
                    return int(e[3])
                if e[0] == "un" and e[1] == "Not":
                    v = fold(e[2])
                    return None if v is None else 1 - v
                if e[0] == "phi":
                    vs = {fold(x) for x in e[1]}
                    return vs.pop() if len(vs) == 1 else None
                return None
            table = {}
            for V in ("Bid", "Ask"):
                def decide(a, V=V):
                    if a[0] == "variant" and a[1][0] == "param" and a[2] and set(a[2]) <= {"Bid", "Ask"}:
                        return V in a[2]
                    if a[0] == "cmp" and a[1] in ("eq", "ne") and a[2][0] == "param" and a[3][0] == "agg" and a[3][2].split("::")[-1] in ("Bid", "Ask"):
                        return (a[3][2].split("::")[-1] == V) == (a[1] == "eq")
                    return None
                try:
                    cv = m.case_view(q, decide)
                    table[V] = fold(cv.ret())
                except Exception:
                    table[V] = None
        ctx.check(table == {"Bid": 1, "Ask": 0}, "side", "From<Side>", ctx.loc(sb[0]), "bool::from(Side::Bid) = true, Ask = false", "From<Side> for bool maps %s" % table)
    else:
        ctx.lost("side", "From<Side> for bool")
    # ---------------------------------------------------------------- tuple layouts
    aliases = {"cast_trade": ["t", "side", "price", "vol", "active_order_id", "passive_order_id"],
               "cast_order": ["side", "status", "arr_time", "end_time", "vol", "start_vol", "price", "trader_id", "order_id"]}
    adt_of = {"cast_trade": "bourse_book::types::Trade", "cast_order": "bourse_book::types::Order"}
    for name, want in aliases.items():
        f = prog.free_fn("bourse", name)
        r = m.q(f).ret()
        got = []
        if r[0] == "agg" and r[1] == "tuple":
            for e in r[3]:
                inner = e[1] if e[0] == "conv" else e
                root, names = field_chain(inner)
                got.append(names[-1] if names and root[0] == "param" else "?")
        decl = [x["name"] for x in prog.adt_fields(adt_of[name])]
        ctx.check(got == decl, "layout", name, ctx.loc(f), "%s lays the record out in declaration order %s" % (name, got), "%s layout %s differs from the record's fields %s" % (name, got, decl))
        # element types against the alias in the signature
        ret_ty = f.sig.split("->", 1)[1].strip()
        tys = [t.strip() for t in ret_ty.strip("()").split(",")]
        ftys = {x["name"]: x["ty"] for x in prog.adt_fields(adt_of[name])}
        expect = ["bool" if ftys[n].endswith("Side") else ("u8" if ftys[n].endswith("Status") else ftys[n]) for n in decl]
        ctx.check(tys == expect, "layout", name + "|types", ctx.loc(f), "tuple element types %s" % tys, "tuple types %s, expected %s" % (tys, expect))
    for cls, meths in (("OrderBook", ob), ("StepEnv", se)):
        for gname, cast, n_doc in (("get_trades", "cast_trade", 6), ("get_orders", "cast_order", 9)):
            f = meths.get(gname)
            if f is None:
                ctx.lost("layout", "%s.%s" % (cls, gname))
                continue
            q = m.q(f)
            maps = [c for c in q.calls("map")]
            ok = len(maps) == 1 and any(x[0] == "fn" and x[1].endswith(cast) for x in walk(maps[0].raw[1])) or any(c.name == cast for c in q.calls())
            src_ok = any(c.name == gname and c.target is not None for c in q.calls())
            ctx.check(ok and src_ok, "layout", "%s.%s" % (cls, gname), ctx.loc(f), "%s.%s maps %s over the core's %s()" % (cls, gname, cast, gname), "%s.%s does not map %s over %s()" % (cls, gname, cast, gname))
            tail = f.doc.split("Returns")[-1]
            rows = re.findall(r"^\s*-\s+(\S.*)$", tail, re.M) or re.findall(r"^\s*\|\s*([^|+]+?)\s*\|\s*$", tail, re.M)
            kw = TRADE_KW if cast == "cast_trade" else ORDER_KW
            seq = []
            for row in rows:
                low = row.lower()
                hit = [fld_ for k, fld_ in kw if k in low]
                seq.append(hit[0] if hit else "?" + row[:20])
            ctx.check(seq == aliases[cast], "layout", "%s.%s|doc" % (cls, gname), ctx.loc(f), "documented field order %s equals the tuple layout" % seq,
                      "documented field order %s differs from the tuple layout %s" % (seq, aliases[cast]))
    # ---------------------------------------------------------------- whole lists, pair getters, constructors, numpy sibling
    RESTRICT = ("skip", "take", "filter", "step_by", "rev", "skip_while", "take_while", "filter_map", "chain", "nth", "last", "dedup", "truncate", "pop", "remove", "drain")
    for cls, meths in (("OrderBook", ob), ("StepEnv", se)):
        for gname in ("get_trades", "get_orders"):
            f = meths.get(gname)
            if f is None:
                continue
            bad = [c.name for c in pv.q(f).calls() if c.name in RESTRICT]
            ctx.check(not bad, "layout", "%s.%s|whole-list" % (cls, gname), ctx.loc(f), "%s.%s returns every record of the core list, in order" % (cls, gname),
                      "%s.%s passes the core list through %s: records are dropped or reordered" % (cls, gname, bad))
    for gname in ("get_prices", "get_volumes", "get_touch_volumes", "get_touch_order_counts"):
        f = se.get(gname)
        if f is None:
            ctx.lost("qualifier", "StepEnv." + gname)
            continue
        r = pv.q(f).ret()
        ok = r[0] == "agg" and r[1] == "tuple" and len(r[3]) == 2
        if ok:
            for k, e in enumerate(r[3]):
                src = [x for x in walk(e) if x[0] == "field" and x[2] in ("0", "1") and x[1][0] == "call" and x[1][4] == gname and fld(x[1][2][0], "env")]
                ok = ok and len(src) == 1 and src[0][2] == str(k)
        ctx.check(ok, "qualifier", "StepEnv." + gname, ctx.loc(f), "StepEnv.%s = (bid, ask) halves of Env::%s in that order" % (gname, gname), "StepEnv.%s returns %s" % (gname, render(r)[:160]))
    f = se.get("get_trade_volumes")
    if f is not None:
        r = pv.q(f).ret()
        ok = any(x[0] == "call" and x[4] == "get_trade_vols" and fld(x[2][0], "env") for x in walk(r))
        ctx.check(ok, "qualifier", "StepEnv.get_trade_volumes", ctx.loc(f), "StepEnv.get_trade_volumes = Env::get_trade_vols()", "get_trade_volumes returns %s" % render(r)[:120])
    for cls, meths, core_owner in (("OrderBook", ob, "OrderBook"), ("StepEnv", se, "Env"), ("StepEnvNumpy", pymethods(ctx, "StepEnvNumpy"), "Env")):
        f = meths.get("new")
        if f is None:
            ctx.lost("forward", cls + ".new")
            continue
        q = pv.q(f)
        cs = [c for c in q.calls("new") if c.target is not None and c.target.crate.name in ("bourse_book", "bourse_de")]
        ok = len(cs) == 1 and not cs[0].guards and all(a[0] == "param" and a[2] == formal for a, formal in zip(cs[0].args, cs[0].formals))
        ctx.check(ok, "forward", cls + ".new|args", ctx.loc(f), "%s.new passes %s to the core constructor unchanged" % (cls, ", ".join(cs[0].formals) if cs else "?"),
                  "%s.new constructs the core object with %s" % (cls, [c.text()[:100] for c in cs]))
    # StepEnvNumpy shares enable/disable/step/get_orders/get_trades with StepEnv: the siblings must forward identically
    sn = pymethods(ctx, "StepEnvNumpy")
    for name in sorted(set(se) & set(sn) - {"new", "get_market_data"}):
        def abstr(f):
            return [(c.name, tuple(render(a) for a in c.args), tuple(sorted(repr(g) for g in c.guards))) for c in pv.q(f).calls() if c.target is not None or c.name in ("map", "collect", "iter", "into_iter") or c.name in RESTRICT]
        a, b = abstr(se[name]), abstr(sn[name])
        ctx.check(a == b and bool(a), "sibling", "StepEnvNumpy." + name, ctx.loc(sn[name]), "StepEnvNumpy.%s forwards exactly like StepEnv.%s (%s)" % (name, name, [x[0] for x in a]),
                  "StepEnvNumpy.%s does %s but StepEnv.%s does %s" % (name, [x[0] for x in b], name, [x[0] for x in a]))
    # ---------------------------------------------------------------- parameter types
    for cls, meths in (("OrderBook", ob), ("StepEnv", se)):
        for name, f in sorted(meths.items()):
            i0 = f.sig.find("fn(")
            if i0 < 0:
                continue
            depth, j = 0, i0 + 2
            for j in range(i0 + 2, len(f.sig)):
                if f.sig[j] in "([<":
                    depth += 1
                elif f.sig[j] in ")]>":
                    depth -= 1
                    if depth == 0:
                        break
            inner = f.sig[i0 + 3:j]
            ps = split_types(inner)[1:] if f.params[:1] == ["self"] else split_types(inner)
            bad = [t for t in ps if t not in ALLOWED_PARAM_TYPES and not t.startswith("pyo3::Python")]
            ctx.check(not bad, "param-types", "%s.%s" % (cls, name), ctx.loc(f), "%s.%s takes only core integer / bool / option types (%s)" % (cls, name, ", ".join(ps) or "none"),
                      "%s.%s takes %s: out-of-range Python ints would not be rejected at the boundary" % (cls, name, bad))
    # ---------------------------------------------------------------- snapshots
    f = prog.free_fn("bourse", "order_book_from_json")
    q = m.q(f)
    lj = [c for c in q.calls("load_json") if c.target is not None]
    ctx.check(len(lj) == 1 and not [c for c in q.calls(("unwrap", "expect"))], "snapshot", "order_book_from_json", ctx.loc(f), "order_book_from_json forwards to OrderBook::load_json and propagates the error")
    # "JSON snapshots written from Python load in Rust and vice versa to the same book": both directions go through the core's
    # save / load path, so the clause is C07's rule set (writer/reader tables, loader rebuilds index and stamp counter)
    from . import c07
    from .c06 import _Prefixed
    c07.run(_Prefixed(ctx, "snapshot-"))
    # "an off-grid price raises ValueError ... leaving the object unchanged": the error the wrappers map to ValueError is raised by
    # the core's creation iff a limit price is off the grid (never for a market order), with no effect (C12's creation rules)
    from . import c12
    c12.creation_rules(_Prefixed(ctx, "valueerror-"), m)
    # "a StepEnv is deterministic in its seed": nothing reachable from the StepEnv methods (through the core's step, shuffle and
    # event processing) draws on a source of nondeterminism (C09's deny list, rooted at the Python class)
    from . import c09
    # (get_market_data builds the keyed result dictionary handed to Python - a HashMap whose keys are looked up, never iterated
    # into results; its layout is C19's subject - so it is not a root here)
    se = [f for n, f in pymethods(ctx, "StepEnv").items() if n != "get_market_data"]
    ctx.check(len(se) >= 10, "seed-deny-list", "roots", "-", "%d StepEnv methods are the roots" % len(se))
    c09.deny_rules(_Prefixed(ctx, "seed-"), m, se, what="the StepEnv methods")

    ctx.assume("PyO3 0.20 argument extraction raises OverflowError for out-of-range integers before the method body runs (trusted)")


def split_types(s):
    out, depth, cur = [], 0, ""
    for ch in s:
        if ch in "<([":
            depth += 1
        elif ch in ">)]":
            depth -= 1
        if ch == "," and depth == 0:
            out.append(cur.strip())
            cur = ""
        else:
            cur += ch
    if cur.strip():
        out.append(cur.strip())
    return out
