"""C20 – derived agent sets update every member once, in order, on shared state (DESIGN.md §4 C20)."""
import hashlib
import itertools
import json
import os
import shutil
import subprocess
import tempfile

from analysis.facts import Program, Crate, FactsError
from analysis.origin import render, field_chain, walk
from analysis.query import World
from analysis.typestate import same
from .model import Model

LEVEL = "other"
MIN_OBLIGATIONS = 10
EXPLANATION = (
    "Two complementary analyses of the derive macros. (1) The macro as a token program: from the MIR of both impl_*_macro "
    "functions the emitted token sequences are reconstructed (quote! expands to push_ident/push_dot/.. calls with constant "
    "strings); the per-field loop iterates the named-field list with a plain iterator (no adapter), reads nothing of a field "
    "but its identifier (no type / attribute / visibility / count access), and on every iteration appends exactly "
    "`self.<ident>.update(env, rng);` once; the output places the accumulated calls once inside "
    "`fn update(&mut self, env, rng)` of the right trait. (2) Generated programs: a witness crate deriving both macros on a "
    "family of struct shapes (1..N fields over {A, B, nested derived set}, repeated types included) plus the repository's own "
    "derive sites is compiled with the fact extractor, and every expanded `update` body must be a straight line of calls "
    "`<Field_i>::update(&mut self.f_i, env, rng)` for i = 0..n-1 in declaration order with env/rng reborrows of its own "
    "parameters. (1) makes the verdict on the finite family generalise to all shapes (the macro is uniform in the fields).")

ALPHABET = ("A", "B", "N")


# ------------------------------------------------------------------------------------- token programs
def token_program(q, calls):
    """reconstruct nested token lists per TokenStream local from quote's runtime calls"""
    streams = {}

    def ts_of(e):
        root, _n = field_chain(e)
        return root[1] if root[0] == "local" else None

    for c in calls:
        n = c.name
        if n == "push_ident":
            streams.setdefault(ts_of(c.args[0]), []).append(("ident", str(c.args[1][2]).strip('"')))
        elif n.startswith("push_") and n not in ("push_group", "push_ident", "push_lifetime", "push_literal"):
            streams.setdefault(ts_of(c.args[0]), []).append(("punct", n[5:]))
        elif n == "push_group":
            delim = c.args[1][2].split("::")[-1] if c.args[1][0] == "agg" else "?"
            inner = ts_of(c.args[2])
            streams.setdefault(ts_of(c.args[0]), []).append(("group", delim, inner))
        elif n == "to_tokens":
            streams.setdefault(ts_of(c.args[1]), []).append(("interp", c.args[0]))
        elif n in ("push_lifetime", "push_literal", "parse"):
            streams.setdefault(ts_of(c.args[0]), []).append(("other", n))
    return streams


def flat(streams, l, depth=0):
    out = []
    for t in streams.get(l, []):
        if t[0] == "group":
            out.append(("open", t[1]))
            out.extend(flat(streams, t[2], depth + 1))
            out.append(("close", t[1]))
        else:
            out.append(t)
    return out


def order_calls(q, calls):
    """calls sorted along the (straight-line) dominance order"""
    return sorted(calls, key=lambda c: len(q.body.dominators().get(c.b, ())))


class _Trial:
    """records obligations without committing them (the idiom reconstruction is attempted, not required)"""

    def __init__(self, ctx):
        self.ctx = ctx
        self.obl = []
        self.prog = ctx.prog
        self.analysed_fns = ctx.analysed_fns

    def ok(self, rule, where, what):
        self.obl.append((True, rule, None, where, what))

    def bad(self, rule, key, where, what):
        self.obl.append((False, rule, key, where, what))

    def check(self, cond, rule, key, where, what_ok, what_bad=None):
        if cond:
            self.ok(rule, where, what_ok)
        else:
            self.bad(rule, key, where, what_bad or ("NOT: " + what_ok))
        return cond

    def lost(self, rule, what):
        self.bad(rule, "anchor:" + what, "-", "anchor lost: " + what)

    def note(self, s_):
        self.ctx.note(s_)

    def loc(self, fn, sp=None):
        return self.ctx.loc(fn, sp)

    def commit(self):
        for ok, rule, key, where, what in self.obl:
            if ok:
                self.ctx.ok(rule, where, what)
            else:
                self.ctx.bad(rule, key, where, what)


DEVIATING_CALLS = ("rev", "skip", "take", "step_by", "skip_while", "take_while", "chain", "cycle", "sort", "sort_by", "sort_by_key",
                   "sort_unstable", "sort_unstable_by", "sort_unstable_by_key", "dedup", "dedup_by", "dedup_by_key", "reverse", "swap", "rotate_left", "rotate_right",
                   "retain", "truncate", "pop", "remove", "swap_remove", "drain", "split_off", "nth", "last", "partition", "group_by", "chunks", "windows")
DEVIATING_TYPES = ("BTreeMap", "BTreeSet", "HashMap", "HashSet", "BinaryHeap", "VecDeque")


def macro_rules(ctx, m):
    """The derive entry points (public `fn(TokenStream) -> TokenStream` of the proc-macro crate) on their inlined views.
    Always: nothing in the macro may restrict, reorder, group or count the fields (`filter` / `filter_map` are tolerated because
    the uniform-read rule leaves them nothing but the presence of the identifier to decide on), and of a field only its identifier
    may be read (then the expansion is uniform in the struct shape and the verdict on the generated-program family generalises).
    Additionally the emitted token program is reconstructed when the macro is written with the explicit accumulate-in-a-loop
    idiom; another (behaviour-preserving) spelling is not an alarm: the generated programs are what is judged."""
    fns = [f for f in ctx.prog.units() if f.crate.name == "bourse_macros" and f.kind == "Fn" and f.pub and "TokenStream) -> " in f.sig and "TokenStream" in f.sig.split("->")[-1]]
    ctx.check(len(fns) == 2, "macro", "found", "-", "two derive entry points found (%s)" % ", ".join(f.name for f in fns), "expected 2 derive entry points, found %d" % len(fns))
    views = {}
    for f in fns:
        q = m.qi(f)
        views[f.path] = q
        closures = []
        stack = [q]
        seen = set()
        while stack:
            x = stack.pop()
            if x.fn.path in seen:
                continue
            seen.add(x.fn.path)
            closures.append(x)
            for (cq, _o, _n, _b) in x.closures():
                stack.append(cq)
        dev = []
        typed = []
        reads = set()
        counts = []
        for x in closures:
            for c in x.calls():
                own = (c.term.j.get("callee_crate") or "") not in ("quote", "proc_macro2", "syn", "proc_macro")
                if c.name in DEVIATING_CALLS and own and not c.exp:
                    dev.append("%s at line %s" % (c.name, c.sp.get("line")))
                if any(t in c.resolved for t in DEVIATING_TYPES) and not c.exp:
                    typed.append("%s at line %s" % (c.resolved.split("<")[0][-40:], c.sp.get("line")))
                if c.name in ("len", "count", "is_empty") and c.args and not c.exp and any(n_ == "named" for n_ in field_chain(c.args[0])[1]):
                    counts.append(c.name)
            for blk in x.fn.body.blocks:
                if blk.cleanup:
                    continue
                exprs = []
                for i, st in enumerate(blk.stmts):
                    if st.k == "assign":
                        exprs.append(x.ev.rvalue(st.rv, (blk.i, i)))
                if blk.term and blk.term.k == "call":
                    exprs.extend(x.ev.call_args(blk.i))
                from analysis.origin import strip
                for e in exprs:
                    for y in walk(strip(e)):
                        if y[0] == "field" and len(y) > 3 and y[3].endswith("::Field") and "syn" in y[3]:
                            reads.add(y[2])
        ctx.check(not dev and not typed, "macro", f.name + "|no-restriction", ctx.loc(f), "the macro never restricts, reorders or groups the field list (no adapter / sort / dedup / map collection)",
                  "the macro passes the fields through %s" % (dev + typed))
        ctx.check(reads <= {"ident"} and bool(reads), "macro", f.name + "|uniform", ctx.loc(f), "of each field only the identifier is read (no type / attributes / visibility)",
                  "the macro reads field components %s" % sorted(reads))
        ctx.check(not counts, "macro", f.name + "|no-count", ctx.loc(f), "the field count is never consulted", "the macro consults %s of the field list" % counts)
    trial = _Trial(ctx)
    try:
        macro_idiom_rules(trial, m, fns, views)
        anchors_lost = [o for o in trial.obl if not o[0] and (o[2] or "").endswith(("|loop", "|extend")) or (not o[0] and "anchor" in (o[2] or ""))]
    except (IndexError, KeyError, TypeError, ValueError, AttributeError) as ex:
        anchors_lost = [("exception", repr(ex))]
    if anchors_lost:
        ctx.note("the macro is not written with the accumulate-in-a-loop idiom the token-program reconstruction understands (%s); the verdict rests on the "
                 "deviation rules above and on the generated-program family" % (anchors_lost[0][4] if len(anchors_lost[0]) > 4 else anchors_lost[0][1]))
        ctx.ok("macro", "-", "token-program reconstruction skipped (unrecognised but non-deviating spelling); generated programs are judged instead")
    else:
        trial.commit()


def macro_idiom_rules(ctx, m, fns, views):
    programs = {}
    for f0 in fns:
        q = views[f0.path]
        f = q.fn
        trait = "MarketAgentSet" if "market" in f0.name else "AgentSet"
        nexts = [c for c in q.calls("next") if q.cfg.in_loop(c.b)]
        if len(nexts) != 1:
            ctx.bad("macro", f.name + "|loop", ctx.loc(f), "%s does not have exactly one field loop" % f.name)
            continue
        nx = nexts[0]
        # iterator chain: into_iter(<..>.named) with no adapters
        from .stepmodel import StepShape, ADAPTERS
        s = StepShape.__new__(StepShape)
        s.q = q
        ch = StepShape.iter_chain(s, nx)
        base = ch[-1] if ch else None
        ok = ch is not None and [n for n in ch[:-1] if n not in ("into_iter", "iter")] == [] and base is not None and field_chain(base)[1][-1:] == ["named"]
        ctx.check(ok, "macro", f.name + "|iteration", nx.loc(), "the field loop iterates `fields.named` front to back with no adapter",
                  "the field loop iterates %s" % ([x if isinstance(x, str) else render(x) for x in ch] if ch else "?"))
        item = ("field", ("downcast", nx.result, "Some"), "0", "std::option::Option")
        # what is read of a field
        reads = set()
        for blk in f.body.blocks:
            if blk.cleanup:
                continue
            for i, st in enumerate(blk.stmts):
                if st.k == "assign":
                    e = q.ev.rvalue(st.rv, (blk.i, i))
                    from analysis.origin import strip
                    for x in walk(strip(e)):
                        if x[0] == "field" and same(x[1], item):
                            reads.add(x[2])
            t = blk.term
            if t and t.k == "call":
                for a in q.ev.call_args(blk.i):
                    from analysis.origin import strip
                    for x in walk(strip(a)):
                        if x[0] == "field" and same(x[1], item):
                            reads.add(x[2])
        ctx.check(reads == {"ident"}, "macro", f.name + "|uniform", ctx.loc(f), "of each field only the identifier is read (no type/attrs/visibility)",
                  "the macro reads field components %s" % sorted(reads))
        counts = [c for c in q.calls(("len", "count", "is_empty", "nth", "last", "first")) if any(fn_ == "named" for fn_ in field_chain(c.args[0])[1])] if True else []
        ctx.check(not counts, "macro", f.name + "|no-count", ctx.loc(f), "the field count is never consulted", "the macro consults %s of the field list" % [c.name for c in counts])
        heads = q.cfg.loops_containing(nx.b)
        body = q.body.loop_body(sorted(heads, key=lambda h: len(q.body.loop_body(h)))[0])
        in_loop = order_calls(q, [c for c in q.calls() if c.b in body])
        after = order_calls(q, [c for c in q.calls() if c.b not in body and any(a[0] == "variant" and a[2] == ("None",) for a in c.guards)])
        ls = token_program(q, in_loop)
        ext = [c for c in in_loop if c.name == "extend"]
        ok = len(ext) == 1
        acc = None
        if ok:
            acc = field_chain(ext[0].args[0])[0]
            item_ts = field_chain(ext[0].args[1])[0]
            toks = flat(ls, item_ts[1] if item_ts[0] == "local" else None)
            want = [("ident", "self"), ("punct", "dot"), "FIELD", ("punct", "dot"), ("ident", "update"), ("open", "Parenthesis"), ("ident", "env"),
                    ("punct", "comma"), ("ident", "rng"), ("close", "Parenthesis"), ("punct", "semi")]
            got = [("FIELD" if (t[0] == "interp" and t[1][0] == "field" and t[1][2] == "ident" and same(t[1][1], item)) or (
                t[0] == "interp" and any(x[0] == "field" and x[2] == "ident" and same(x[1], item) for x in walk(t[1]))) else t) for t in toks]
            got = [g if g == "FIELD" or g[0] != "interp" else ("interp", render(g[1])) for g in got]
            ok = got == want
            guards_ok = all(a[0] == "variant" and a[2] in (("Some",), ("0",), ("Struct",), ("Named",)) or (a[0] == "variant") for a in ext[0].guards)
            ctx.check(ok, "macro", f.name + "|call-tokens", ext[0].loc(), "each field contributes exactly `self.<ident>.update(env, rng);`",
                      "each field contributes the tokens %s" % got)
            ctx.check(not [h for h in q.body.loop_heads() if h in body and h not in heads], "macro", f.name + "|once", ext[0].loc(), "one contribution per field (no inner loop)")
            cond = [a for a in ext[0].guards if a[0] == "variant" and a[2] == ("Some",)]
            other = [a for a in ext[0].guards if a[0] not in ("variant",)]
            ctx.check(not other, "macro", f.name + "|unconditional", ext[0].loc(), "the contribution depends on nothing but the field being named",
                      "the contribution is conditional on %s" % ext[0].gtext())
        else:
            ctx.bad("macro", f.name + "|extend", ctx.loc(f), "the loop body does not extend the accumulated calls exactly once (%d)" % len(ext))
        # output
        outs = token_program(q, after)
        ret_root = None
        for c in after:
            if c.name in ("from", "into") and c.args and field_chain(c.args[0])[0][0] == "local":
                ret_root = field_chain(c.args[0])[0][1]
        toks = flat(outs, ret_root)
        idents = [t[1] for t in toks if t[0] == "ident"]
        # (attributes such as #[automatically_derived] / #[inline] may precede `impl` / `fn`; paths may be written absolute)
        i0 = idents.index("impl") if "impl" in idents else 0
        ok = idents[i0:i0 + 5] == ["impl", "bourse_de", "agents", trait, "for"] and "fn" in idents and idents[idents.index("fn") + 1] == "update" \
            and idents.count("impl") == 1 and idents.count("fn") == 1
        ctx.check(ok, "macro", f.name + "|trait", ctx.loc(f), "emits `impl bourse_de::agents::%s for <name> { fn update ..` " % trait, "emits idents %s" % idents[:12])
        # parameters: & mut self , env : .. , rng : & mut R
        try:
            p0 = toks.index(("open", "Parenthesis"))
            p1 = toks.index(("close", "Parenthesis"))
            params = [t[1] for t in toks[p0:p1] if t[0] == "ident"]
        except ValueError:
            params = []
        okp = params[:2] == ["mut", "self"] and "env" in params and "rng" in params and params.index("env") < params.index("rng") and params[-2:] == ["mut", "R"]
        ctx.check(okp, "macro", f.name + "|signature", ctx.loc(f), "signature (&mut self, env: &mut .., rng: &mut R)", "signature idents %s" % params)
        # body = exactly the accumulated calls
        interps = [t for t in toks if t[0] == "interp"]
        body_interp = [t for t in interps if acc is not None and field_chain(t[1])[0] == acc]
        try:
            bi = toks.index(body_interp[0]) if body_interp else -1
        except ValueError:
            bi = -1
        okb = len(body_interp) == 1 and bi > 0 and toks[bi - 1] == ("open", "Brace") and toks[bi + 1] == ("close", "Brace")
        ctx.check(okb, "macro", f.name + "|body", ctx.loc(f), "the function body is exactly the accumulated per-field calls, once", "the accumulated calls appear %d times / not alone in the body" % len(body_interp))
        programs[f.name] = ([t for t in flat(ls, None)], len(in_loop), len(after))
    if len(fns) == 2:
        a, b = [views[f.path] for f in fns]
        na = [c.name for c in order_calls(a, [c for c in a.calls() if a.cfg.in_loop(c.b)])]
        nb = [c.name for c in order_calls(b, [c for c in b.calls() if b.cfg.in_loop(c.b)])]
        ctx.check(na == nb, "macro", "siblings", "-", "both macros run the same per-field program (%d calls)" % len(na), "the two macros' field loops differ: %s vs %s" % (na, nb))


# ------------------------------------------------------------------------------------- generated programs
def check_update(ctx, w, f, field_names, tag, where):
    """f: generated update body; field_names: declaration order"""
    q = w.q(f)
    ctx.analysed_fns.add(f.path)
    branches = [b for b in f.body.blocks if not b.cleanup and b.term and b.term.k == "switch"]
    calls = sorted([c for c in q.calls()], key=lambda c: len(q.body.dominators().get(c.b, ())))
    ok = not branches and not f.body.loop_heads()
    got = []
    for c in calls:
        a0 = c.args[0] if c.args else None
        fname = None
        if a0 is not None and a0[0] == "field" and a0[1] == ("param", 1, "self"):
            fname = a0[2]
        env_ok = len(c.args) == 3 and c.args[1] == ("param", 2, "env") and c.args[2] == ("param", 3, "rng")
        got.append((c.name, fname, env_ok, c.resolved))
    want = list(field_names)
    okc = [g[1] for g in got] == want and all(g[0] == "update" and g[2] for g in got)
    ctx.check(ok and okc, "generated", tag, where, "%s: straight line of %d calls update(&mut self.f, env, rng) in declaration order" % (tag, len(want)),
              "%s: generated update calls %s for fields %s%s" % (tag, [(g[0], g[1], "shared env/rng" if g[2] else "OTHER ARGS") for g in got], want,
                                                             "; has branches/loops" if not ok else ""))
    return ok and okc


def repo_sites(ctx, m):
    tc = ctx.prog.tests.get("test_macros")
    w = m.w
    n = 0
    for f in tc.fns:
        if f.name == "update" and (f.impl_trait or "").split("::")[-1] in ("AgentSet", "MarketAgentSet") and f.span.get("exp", "").startswith("macro"):
            adt = tc.adts.get(f.impl_adt)
            if adt is None:
                continue
            names = [x["name"] for x in adt["variants"][0]["fields"]]
            n += 1
            check_update(ctx, w, f, names, "%s (tests/test_macros.rs, %s)" % (f.impl_adt.split("::")[-1], f.impl_trait.split("::")[-1]), ctx.loc(f))
    ctx.check(n >= 2, "generated", "repo-sites", "-", "%d derive sites of the repository's own tests analysed" % n, "expected the 2 derive sites of tests/test_macros.rs, found %d" % n)


def shapes(max_n, extra):
    out = []
    for n in range(1, max_n + 1):
        out.extend(itertools.product(ALPHABET, repeat=n))
    out.extend(extra)
    return out


def gen_witness(repo, dst, shape_list):
    os.makedirs(os.path.join(dst, "src"), exist_ok=True)
    shutil.copy(os.path.join(repo, "Cargo.lock"), os.path.join(dst, "Cargo.lock"))
    lock = open(os.path.join(dst, "Cargo.lock")).read()
    with open(os.path.join(dst, "Cargo.toml"), "w") as fh:
        fh.write('[package]\nname = "bourse-witness"\nversion = "0.0.0"\nedition = "2021"\n\n[lib]\npath = "src/lib.rs"\n\n[dependencies]\n'
                 'bourse-de = { path = "%s/crates/step_sim" }\nrand = "0.8.5"\n\n[workspace]\n' % repo)
    src = ["#![allow(dead_code, unused_variables, non_snake_case)]",
           "use bourse_de::agents::{Agent, AgentSet, MarketAgent, MarketAgentSet};", "use bourse_de::{Env, MarketEnv};", "use rand::RngCore;",
           "pub struct A; pub struct B;",
           "impl Agent for A { fn update<R: RngCore>(&mut self, _e: &mut Env, _r: &mut R) {} }",
           "impl Agent for B { fn update<R: RngCore>(&mut self, _e: &mut Env, _r: &mut R) {} }",
           "pub struct MA; pub struct MB;",
           "impl MarketAgent for MA { fn update<R: RngCore, const M: usize, const N: usize>(&mut self, _e: &mut MarketEnv<M, N>, _r: &mut R) {} }",
           "impl MarketAgent for MB { fn update<R: RngCore, const M: usize, const N: usize>(&mut self, _e: &mut MarketEnv<M, N>, _r: &mut R) {} }",
           "#[derive(AgentSet)] pub struct Nest { pub x: A, pub y: B }",
           "#[derive(MarketAgentSet)] pub struct MNest { pub x: MA, pub y: MB }"]
    table = {}
    for k, sh in enumerate(shape_list):
        for macro, tymap, pre in (("AgentSet", {"A": "A", "B": "B", "N": "Nest"}, "S"), ("MarketAgentSet", {"A": "MA", "B": "MB", "N": "MNest"}, "T")):
            name = "%s%d" % (pre, k)
            # declaration order deliberately differs from the alphabetical order of the names
            fields = [FIELD_NAMES[i] for i in range(len(sh))]
            decl = ", ".join("pub %s: %s" % (fn_, tymap[t]) for fn_, t in zip(fields, sh))
            src.append("#[derive(%s)] pub struct %s { %s }" % (macro, name, decl))
            table[name] = (macro, list(sh), fields)
    with open(os.path.join(dst, "src", "lib.rs"), "w") as fh:
        fh.write("\n".join(src) + "\n")
    return table


def witness_rules(ctx, m, max_n, extra):
    from analysis import engine
    shape_list = shapes(max_n, extra)
    key = hashlib.sha256((ctx.meta.get("hash", "") + repr(shape_list)).encode()).hexdigest()[:20]
    cdir = os.path.join(engine.CACHE, "witness-" + key)
    facts = os.path.join(cdir, "facts")
    table_p = os.path.join(cdir, "table.json")
    if not os.path.exists(table_p):
        tmp = tempfile.mkdtemp(prefix="bourse-witness-")
        try:
            crate = os.path.join(tmp, "crate")
            table = gen_witness(ctx.repo, crate, shape_list)
            out = os.path.join(tmp, "facts")
            rc = subprocess.run([os.path.join(engine.VERIF, "bin", "extract.sh"), crate, out, "--lib-only"]).returncode
            if rc != 0:
                log = ""
                try:
                    log = open(os.path.join(out, "cargo.log")).read()[-2500:]
                except OSError:
                    pass
                raise FactsError("witness crate failed to compile (the derive output is not a valid impl for some shape)\n" + log)
            if os.path.isdir(cdir):
                shutil.rmtree(cdir)
            os.makedirs(cdir)
            os.makedirs(facts)
            for fn_ in os.listdir(out):
                if fn_.startswith("bourse_witness") and fn_.endswith(".json"):
                    shutil.copy(os.path.join(out, fn_), os.path.join(facts, fn_))
            json.dump(table, open(table_p, "w"))
        finally:
            shutil.rmtree(tmp, ignore_errors=True)
    table = json.load(open(table_p))
    files = [x for x in os.listdir(facts) if x.endswith(".json")]
    if not files:
        raise FactsError("no facts extracted for the witness crate")
    wc = Crate(json.load(open(os.path.join(facts, files[0]))), files[0])
    w = m.w
    n = 0
    bad = 0
    by_adt = {}
    for f in wc.fns:
        if f.name == "update" and (f.impl_trait or "").split("::")[-1] in ("AgentSet", "MarketAgentSet") and f.impl_adt:
            by_adt[f.impl_adt.split("::")[-1]] = f
    for name, (macro, sh, fields) in sorted(table.items()):
        f = by_adt.get(name)
        if f is None:
            ctx.bad("generated", "missing|" + name, "-", "no generated update found for witness struct %s %s" % (name, sh))
            bad += 1
            continue
        n += 1
        q = w.q(f)
        calls = sorted([c for c in q.calls()], key=lambda c: len(q.body.dominators().get(c.b, ())))
        got = []
        okc = True
        for c in calls:
            a0 = c.args[0] if c.args else None
            fname = a0[2] if a0 is not None and a0[0] == "field" and a0[1] == ("param", 1, "self") else None
            env_ok = len(c.args) == 3 and c.args[1] == ("param", 2, "env") and c.args[2] == ("param", 3, "rng")
            got.append(fname)
            okc = okc and c.name == "update" and env_ok
        straight = not [b for b in f.body.blocks if not b.cleanup and b.term and b.term.k == "switch"]
        if not (okc and straight and got == fields):
            bad += 1
            if bad <= 5:
                ctx.bad("generated", "shape|%s|%s" % (macro, "".join(sh)), "witness struct %s" % name,
                        "derive(%s) on fields %s (types %s) generates calls on %s%s" % (macro, fields, sh, got, "" if okc else " with foreign env/rng arguments"))
    ctx.check(bad == 0 and n == len(table), "generated", "family", "-",
              "all %d generated impls (both macros x %d shapes with 1..%d fields over {A, B, nested set}%s) update every field once, in declaration order, with the shared env and rng" % (
                  n, len(shape_list), max_n, " + %d long shapes" % len(extra) if extra else ""),
              "%d of %d generated impls deviate" % (bad, len(table)))
    ctx.extra["witness_shapes"] = len(shape_list)
    ctx.extra["witness_impls"] = n
    ctx.extra["exhaustive_up_to_fields"] = max_n


FIELD_NAMES = ["m3", "a7", "z1", "k5", "b9", "y2", "c8", "x4"]
LONG = [tuple("ABNABNAB"), tuple("NNBBAABA"), tuple("AAAAAAAA"), tuple("BANBANB"), tuple("ABABA"), tuple("NABNA"), tuple("BBBBBN")]


def run(ctx):
    m = Model(ctx)
    macro_rules(ctx, m)
    repo_sites(ctx, m)
    if ctx.tier == "quick":
        witness_rules(ctx, m, 3, LONG)


def run_thorough(ctx):
    m = Model(ctx)
    witness_rules(ctx, m, 6, LONG + [tuple(p) for p in itertools.islice(itertools.product(ALPHABET, repeat=8), 0, 6561, 37)])
