"""C16 – built-in agents emit only valid instructions and never abort (DESIGN.md §4 C16)."""
from analysis.origin import render, field_chain, walk, const_float
from analysis.typestate import same
from analysis.panics import panic_sites
from .model import Model, fld, is_max_u32
from . import c02

LEVEL = "other"
MIN_OBLIGATIONS = 60
EXPLANATION = (
    "Grid-alignment, sign and provenance rules over every instruction the built-in agents can submit. Grid: each price "
    "argument of Env/MarketEnv::place_order reachable from an agent is None, tick*tick_size (random agents), or a "
    "round_price_{up,down} result whose argument is bounded so that the final clamp cannot leave the grid (sell: "
    "min(.., largest on-grid price); buy: mid - |sample| <= mid); the rounding helpers and the bound are validated by "
    "shape. Direction: buy = Bid, mid - |sample|, floor; sell = Ask, mid + |sample|, ceil; the four helpers are siblings. "
    "Ownership/volumes: trader id, volume and tick arguments originate from the agent's own id table / slot index, "
    "configured volume / vol_range and tick_range; cancellations are issued only for elements of the agent's own id list "
    "that passed `order_status(id) == Active`, the list only ever holds results of the agent's own submissions; random "
    "agents cancel only under is_some && Active, place only on the complementary branch and clear the slot. Probabilities: "
    "every comparison of a uniform draw u with a probability p is `u < p` (act) or `u >= p` (do not act); draws and "
    "placements sit in the per-trader loop, once. No abort: every panic-capable site reachable from an update impl is in "
    "the discharge table with its reason (assumptions listed).")

ENV_PLACERS = ("bourse_de::env::Env", "bourse_de::market_env::MarketEnv")


def agent_fns(ctx):
    return [f for f in ctx.prog.units() if f.crate.name == "bourse_de" and "::agents::" in f.path]


def is_env_call(c, name):
    return c.name == name and c.target is not None and (c.target.impl_adt or "") in ENV_PLACERS


def unwrap_bin(e):
    return c02.bin_of(e)


def path_text(e):
    """dotted field path of an access expression (closure capture names included verbatim)"""
    _root, names = field_chain(e)
    return ".".join(names)


def mentions(e, token):
    return any(x[0] == "field" and token in x[2] for x in walk(e))


def resolve_capture(m, q, e):
    """map a closure-capture read `_1.<cap>` to the creator's operand (one level)"""
    root, names = field_chain(e)
    if q.fn.kind == "Closure" and root[0] == "param" and root[1] == 1 and names:
        creator = m.prog.fns.get(q.fn.root)
        if creator is not None:
            for (cq, ops, cnames, _b) in m.q(creator).closures():
                if cq.fn.path == q.fn.path:
                    for i, n in enumerate(cnames):
                        if n == names[0]:
                            return m.q(creator), ops[i], names[1:]
    return None, None, None


def full_range(e, name):
    """e = gen_range(rng, <name>.0 .. <name>.1) – the whole configured half-open range"""
    if not (e[0] == "call" and e[4] == "gen_range" and len(e[2]) == 2):
        return False
    r = e[2][1]
    if not (r[0] == "agg" and r[2].endswith("Range::Range") and len(r[3]) == 2):
        return False
    lo, hi = r[3]
    return path_text(lo).endswith(name + ".0") and path_text(hi).endswith(name + ".1")


def inside_blocks(bq, head, q):
    """blocks of one visit of a slot: the loop body (loop form) or None (closure form: the whole closure)"""
    return None if head is None else q.body.loop_body(head)


def run(ctx):
    m = Model(ctx)
    fns = agent_fns(ctx)
    BUILTIN = ("RandomAgents", "RandomMarketAgents", "NoiseAgent", "NoiseMarketAgent", "MomentumAgent", "MomentumMarketAgent")
    all_updates = [f for f in fns if f.name == "update" and (f.impl_trait or "").split("::")[-1] in ("Agent", "MarketAgent")]
    # the built-in agents are the six named types; impls for other Self types (generic containers such as Vec<A>, further agent
    # types) are not what the property is about and are listed only
    updates = [f for f in all_updates if (f.impl_adt or "").split("::")[-1].split("<")[0] in BUILTIN]
    others = sorted({(f.impl_adt or "?") for f in all_updates if f not in updates})
    if others:
        ctx.note("Agent / MarketAgent impls beyond the six built-in agent types (not judged): %s" % others)
    ctx.check(len(updates) == 6 and {(f.impl_adt or "").split("::")[-1].split("<")[0] for f in updates} == set(BUILTIN), "anchor", "updates", "-",
              "6 built-in agent update impls (random/noise/momentum x single/multi-asset)", "found %d update impls of the built-in agent types" % len(updates))
    helpers = {n: ctx.prog.free_fn("bourse_de", n) for n in (
        "round_price_up", "round_price_down", "place_buy_limit_order", "place_sell_limit_order", "place_buy_limit_order_market",
        "place_sell_limit_order_market", "cancel_live_orders", "cancel_live_orders_market")}

    # ------------------------------------------------------------------ rounding helpers
    for name, rnd in (("round_price_up", "ceil"), ("round_price_down", "floor")):
        f = helpers[name]
        r = m.qi(f).ret()      # (a shared private clamp-and-cast tail is spliced in)
        ok = r[0] == "cast" and r[2][0] == "call" and r[2][4] == "clamp" and len(r[2][2]) == 3
        if ok:
            x, lo, hi = r[2][2]
            ok = x[0] == "bin" and x[1] == "Mul" and x[2][0] == "call" and x[2][4] == rnd and x[3] == ("param", 2, "tick_size") \
                and x[2][2][0][0] == "bin" and x[2][2][0][1] == "Div" and x[2][2][0][2] == ("param", 1, "p") and x[2][2][0][3] == ("param", 2, "tick_size") \
                and const_float(lo) == 0.0 and hi[0] == "conv" and is_max_u32(hi[1])
        ctx.check(ok, "grid", "helper|" + name, ctx.loc(f), "%s(p, t) = clamp(%s(p / t) * t, 0, MAX) as Price" % (name, rnd), "%s returns %s" % (name, render(r)))
    bound = None
    for f in fns:
        if f.kind == "Fn" and f.params == ["tick_size"] and f.sig.endswith("-> f64"):
            r = m.q(f).ret()
            if r[0] == "bin" and r[1] == "Mul" and r[2][0] == "call" and r[2][4] == "floor" and r[3] == ("param", 1, "tick_size"):
                d = r[2][2][0]
                if d[0] == "bin" and d[1] == "Div" and d[2][0] == "conv" and is_max_u32(d[2][1]) and d[3] == ("param", 1, "tick_size"):
                    bound = f
                    ctx.ok("grid", ctx.loc(f), "%s(t) = floor(MAX / t) * t: the largest on-grid price" % f.name)

    # inlined views: private helpers of the agents module (e.g. extracted price-sampling functions) are spliced into their
    # callers, except the recognised largest-on-grid-price helper whose call is itself the evidence the grid rule looks for
    from analysis.inline import Inliner, default_policy
    from analysis.query import FnQ
    _inl = Inliner(ctx.prog, lambda caller, callee: default_policy(caller, callee) and (bound is None or callee.path != bound.path))
    _qv = {}

    def qv(f):
        if f.path not in _qv:
            ctx.analysed_fns.add(f.path)
            _qv[f.path] = FnQ(m.w, _inl.inlined(f))
        return _qv[f.path]
    # ------------------------------------------------------------------ every place_order reachable from agents
    n_sites = 0
    for f in fns:
        q = qv(f)
        for c in q.calls("place_order"):
            if not is_env_call(c, "place_order"):
                continue
            n_sites += 1
            price = c.arg_named("price")
            side = c.arg_named("side")
            key = "%s|%s" % (f.short(), "bb%d" % 0)
            tagk = "%s|L%s" % (f.short(), "")
            if price[0] == "agg" and price[2].endswith("Option::None"):
                ctx.ok("grid", c.loc(), "market order (no price)")
            elif price[0] == "agg" and price[2].endswith("Option::Some"):
                x = price[3][0]
                b = unwrap_bin(x)
                reason = None
                if b and b[0] == "Mul":
                    for a, t in ((b[1], b[2]), (b[2], b[1])):
                        if full_range(a, "tick_range") and path_text(t).endswith("tick_size"):
                            reason = "tick drawn from tick_range times the agent's tick_size"
                elif x[0] == "call" and x[4] == "round_price_up" and x[2][1] == ("param", [i + 1 for i, n in enumerate(f.params) if n == "tick_size"][0] if "tick_size" in f.params else 0, "tick_size"):
                    a = x[2][0]
                    if a[0] == "call" and a[4] == "min" and len(a[2]) == 2 and bound is not None:
                        for u, v in ((a[2][0], a[2][1]), (a[2][1], a[2][0])):
                            if v[0] == "call" and v[4] == bound.name and v[2][0] == x[2][1]:
                                reason = "rounded up from a value bounded by the largest on-grid price for the same tick"
                elif x[0] == "call" and x[4] == "round_price_down" and "tick_size" in f.params and x[2][1][0] == "param" and x[2][1][2] == "tick_size":
                    a = x[2][0]
                    if a[0] == "bin" and a[1] == "Sub" and a[2][0] == "param" and a[2][2] == "mid_price" and a[3][0] == "call" and a[3][4] == "abs":
                        reason = "rounded down from mid_price - |sample| <= mid_price <= MAX (clamp cannot trigger upwards)"
                ctx.check(reason is not None, "grid", "%s|price" % f.short(), c.loc(), "limit price %s is on the tick grid: %s" % (render(x)[:80], reason),
                          "limit price %s can leave the tick grid (the final clamp to Price::MAX is not a multiple of the tick): an off-grid price is rejected and the agent's unwrap aborts the simulation" % render(x)[:140])
            else:
                ctx.bad("grid", "%s|price-shape" % f.short(), c.loc(), "price argument %s not recognised" % render(price))
    ctx.check(n_sites >= 12, "grid", "census", "-", "%d Env/MarketEnv::place_order call sites in the agents module" % n_sites)

    # ------------------------------------------------------------------ direction (helpers)
    for name, sidev, rnd, op in (("place_buy_limit_order", "Bid", "round_price_down", "Sub"), ("place_sell_limit_order", "Ask", "round_price_up", "Add"),
                                 ("place_buy_limit_order_market", "Bid", "round_price_down", "Sub"), ("place_sell_limit_order_market", "Ask", "round_price_up", "Add")):
        f = helpers[name]
        q = qv(f)
        pc = [c for c in q.calls("place_order") if is_env_call(c, "place_order")]
        ok = len(pc) == 1 and not pc[0].guards
        if ok:
            c = pc[0]
            s = c.arg_named("side")
            ok = s[0] == "agg" and s[2].endswith("Side::" + sidev)
            price = c.arg_named("price")
            x = price[3][0] if price[0] == "agg" and price[3] else ("unk",)
            ok = ok and x[0] == "call" and x[4] == rnd
            core = [y for y in walk(x) if y[0] == "bin" and y[1] == op and y[2] == [("param", i + 1, n) for i, n in enumerate(f.params) if n == "mid_price"][0]
                    and y[3][0] == "call" and y[3][4] == "abs" and y[3][2][0][0] == "call" and y[3][2][0][4] == "sample"]
            ok = ok and len(core) == 1
            ok = ok and c.arg_named("vol") == ("param", f.params.index("trade_vol") + 1, "trade_vol") and c.arg_named("trader_id") == ("param", f.params.index("trader_id") + 1, "trader_id")
            if "asset" in f.params:
                ok = ok and c.arg_named("asset") == ("param", f.params.index("asset") + 1, "asset")
            ok = ok and same(q.ret(), c.result)
        ctx.check(ok, "direction", name, ctx.loc(f), "%s: side %s at %s(mid_price %s |sample|), with the given volume / trader%s, result returned" % (
            name, sidev, rnd, "-" if op == "Sub" else "+", " / asset" if "asset" in f.params else ""), "%s does not quote %s of the mid-price on side %s" % (name, "below" if op == "Sub" else "above", sidev))

    # ------------------------------------------------------------------ agent-level arguments (noise + momentum)
    for f in updates:
        q = m.q(f)
        tag = f.impl_adt.split("::")[-1]
        if "Random" in tag:
            continue
        next_calls = [c for c in q.calls("next") if q.cfg.in_loop(c.b)]
        trader_item = None
        for c in next_calls:
            from .stepmodel import StepShape
            s = StepShape.__new__(StepShape)
            s.q = q
            ch = StepShape.iter_chain(s, c)
            if ch and field_chain(ch[-1])[1][-1:] == ["trader_ids"] and not [n for n in ch[:-1] if n not in ("iter", "into_iter")]:
                trader_item = ("field", ("downcast", c.result, "Some"), "0", "std::option::Option")
        ctx.check(trader_item is not None, "ownership", tag + "|trader-loop", ctx.loc(f), "%s loops over its own trader id table (no adapter)" % tag, "%s: trader loop not recognised" % tag)
        sites = [c for c in q.calls() if (is_env_call(c, "place_order") or c.name in helpers and "place_" in c.name)]
        for c in sites:
            tid = c.arg_named("trader_id")
            vol = c.arg_named("vol") if is_env_call(c, "place_order") else c.arg_named("trade_vol")
            ok = trader_item is not None and same(tid, trader_item) and vol is not None and field_chain(vol)[1][-2:] == ["params", "trade_vol"] and field_chain(vol)[0] == ("param", 1, "self")
            if not is_env_call(c, "place_order"):
                t = c.arg_named("tick_size")
                mp = c.arg_named("mid_price")
                ok = ok and fld(t, "tick_size") and field_chain(t)[0] == ("param", 1, "self") and mp[0] == "call" and mp[4] == "mid_price"
                ok = ok and fld(c.arg_named("price_dist"), "price_dist")
            if "asset" in c.formals:
                ok = ok and fld(c.arg_named("asset"), "asset") and field_chain(c.arg_named("asset"))[0] == ("param", 1, "self")
            ctx.check(ok, "ownership", "%s|%s" % (tag, c.name), c.loc(), "%s: trader id = current element of own id table, volume = configured trade_vol%s" % (
                c.name, "" if is_env_call(c, "place_order") else ", tick = own tick_size, mid = observed mid_price"), "%s called with foreign arguments: %s" % (c.name, c.text()[:160]))
            ctx.check(q.cfg.in_loop(c.b) and len(q.cfg.loops_containing(c.b)) == 1, "activity", "%s|%s|once" % (tag, c.name), c.loc(), "placement inside the per-trader loop, not in an inner loop")
        # which probability gates which action (noise agents; momentum probabilities are C17's subject)
        if "Noise" in tag:
            for c in sites:
                want = "p_market" if is_env_call(c, "place_order") else "p_limit"
                ps = [a[3] for a in c.guards if a[0] == "cmp" and a[1] == "lt" and a[2][0] == "call" and a[2][4] == "gen"]
                okp = len(ps) == 1 and field_chain(ps[0])[1][-2:] == ["params", want] and field_chain(ps[0])[0] == ("param", 1, "self")
                ctx.check(okp, "activity", "%s|%s|prob" % (tag, c.name), c.loc(), "%s happens iff a fresh draw < self.params.%s" % (
                    "market order" if want == "p_market" else "limit order", want), "%s is gated by %s (expected exactly one draw < self.params.%s)" % (c.name, [render(x) for x in ps], want))
        # mid price observed from the right book
        mids = q.calls("mid_price")
        okm = len(mids) == 1 and not mids[0].guards and not q.cfg.in_loop(mids[0].b)
        if okm and "Market" in tag:
            okm = any(x[0] == "call" and x[4] == "get_order_book" and fld(x[2][1], "asset") for x in walk(mids[0].args[0]))
        ctx.check(okm, "ownership", tag + "|mid", mids[0].loc() if mids else ctx.loc(f), "the mid-price is read once per step from the agent's own book", "mid-price read %d times / from another book" % len(mids))
        # own order list
        cl = [c for c in q.calls(("cancel_live_orders", "cancel_live_orders_market"))]
        ok = len(cl) == 1 and fld(cl[0].arg_named("orders"), "orders") and field_chain(cl[0].arg_named("orders"))[0] == ("param", 1, "self") and fld(cl[0].arg_named("p_cancel"), "p_cancel")
        ctx.check(ok, "ownership", tag + "|cancel-own", cl[0].loc() if cl else ctx.loc(f), "cancellation candidates are the agent's own id list, with its own p_cancel", "cancel_live_orders called with %s" % (cl[0].text() if cl else "-"))
        ow = [w for w in q.writes(field="orders") if w.root == ("param", 1, "self")]
        okw = len(ow) == 1
        if okw and cl:
            live = ow[0].val
            d = cl[0].term.dest
            okw = live == ("local", d.local) if d.is_local() else False
            pushes = [c for c in q.calls("push") if c.args[0] == live]
            for p in pushes:
                v = p.args[1]
                valts = v[1] if v[0] == "phi" else (v,)
                okp = all(x[0] == "call" and x[4] in helpers and "place_" in x[4] for x in valts)
                ctx.check(okp, "ownership", tag + "|list-push", p.loc(), "only ids returned by the agent's own submissions are added to its list", "foreign id %s added to the agent's list" % render(v))
        ctx.check(okw, "ownership", tag + "|list", ow[0].loc() if ow else ctx.loc(f), "own id list := survivors of the cancellation filter + ids of own new orders", "own id list assigned %s" % "; ".join(w.text() for w in ow))
        # conversely every limit order the agent places is remembered (otherwise it can never be cancelled again)
        if okw and cl:
            for c in sites:
                if is_env_call(c, "place_order"):
                    continue   # market orders never rest
                res = c.result
                remembered = [p for p in pushes if any(x == res for x in walk(p.args[1]))]
                nxt = [x for x in q.body.succs(c.b) if not q.body.blocks[x].cleanup]
                heads = set(q.body.loop_heads()) | set(q.body.return_blocks())
                okr = bool(remembered) and bool(nxt) and all(q.cfg.all_paths_pass(nxt[0], h, [p.b for p in remembered]) for h in heads if h in q.cfg.reach_from(nxt[0]))
                ctx.check(okr, "ownership", "%s|%s|remembered" % (tag, c.name), c.loc(), "the id returned by %s is added to the agent's own list on every path" % c.name,
                          "the id returned by %s is not (always) added to the agent's list: the resting order can never be cancelled by its owner" % c.name)
    # constructors: the agent's trader ids are exactly agent_id_start .. agent_id_start + n_agents
    for f in fns:
        if f.name == "new" and (f.impl_adt or "").split("::")[-1] in ("NoiseAgent", "NoiseMarketAgent", "MomentumAgent", "MomentumMarketAgent"):
            r = m.q(f).ret()
            if r[0] == "agg":
                fv = dict(zip(r[4], r[3]))
                t = fv.get("trader_ids")
                ok = False
                if t is not None:
                    rg = [x for x in walk(t) if x[0] == "agg" and x[2].endswith("Range::Range") and len(x[3]) == 2]
                    if len(rg) == 1 and t[0] == "call" and t[4] == "collect":
                        lo, hi = rg[0][3]
                        b = unwrap_bin(hi)
                        ok = lo[0] == "param" and lo[2] == "agent_id_start" and b is not None and b[0] == "Add" and \
                            ((b[1] == lo and any(x[0] == "param" and x[2] == "n_agents" for x in walk(b[2]))) or (b[2] == lo and any(x[0] == "param" and x[2] == "n_agents" for x in walk(b[1]))))
                ctx.check(ok, "ownership", "ctor-ids|" + f.impl_adt.split("::")[-1], ctx.loc(f), "%s::new: trader ids = agent_id_start .. agent_id_start + n_agents" % f.impl_adt.split("::")[-1],
                          "trader id table initialised from %s" % (render(t)[:120] if t else "?"))
    # constructors: tick_size field <- params.tick_size
    for f in fns:
        if f.name == "new" and (f.impl_adt or "").split("::")[-1] in ("NoiseAgent", "NoiseMarketAgent", "MomentumAgent", "MomentumMarketAgent"):
            r = m.q(f).ret()
            if r[0] == "agg":
                fv = dict(zip(r[4], r[3]))
                t = fv.get("tick_size")
                ok = t is not None and t[0] == "conv" and field_chain(t[1])[1][-2:] == ["params", "tick_size"] or (t is not None and t[0] == "conv" and fld(t[1], "tick_size"))
                ctx.check(ok, "grid", "ctor|" + f.impl_adt.split("::")[-1], ctx.loc(f), "%s::new: float tick_size <- params.tick_size" % f.impl_adt.split("::")[-1], "tick_size initialised from %s" % (render(t) if t else "?"))

    # ------------------------------------------------------------------ cancellation helpers
    for name in ("cancel_live_orders", "cancel_live_orders_market"):
        f = helpers[name]
        q = m.q(f)
        cc = [c for c in q.calls("cancel_order") if is_env_call(c, "cancel_order")]
        ok = len(cc) == 1 and q.cfg.in_loop(cc[0].b)
        chain_ok = filt_ok = False
        if ok:
            a = cc[0].args[1]
            # item of a loop over partition(...).1
            nx = [x for x in walk(a) if x[0] == "call" and x[4] == "next"]
            from .stepmodel import StepShape
            s = StepShape.__new__(StepShape)
            s.q = q
            nc = [c for c in q.calls("next") if q.cfg.in_loop(c.b)]
            ch = StepShape.iter_chain(s, nc[0]) if len(nc) == 1 else None
            base = ch[-1] if ch else None
            if base is not None and base[0] == "field" and base[2] == "1" and base[1][0] == "call" and base[1][4] == "partition":
                part = base[1]
                src = part[2][0]
                names = []
                e = src
                while e[0] == "call" and e[2]:
                    names.append(e[4])
                    e = e[2][0]
                chain_ok = names == ["into_iter", "filter", "iter"] and e == ("param", f.params.index("orders") + 1, "orders") and not [n for n in ch[:-1] if n not in ("into_iter",)]
                ctx.check(same(q.ret(), ("field", part, "0", "")), "cancel", name + "|returns-kept", ctx.loc(f), "returns the kept half of the partition", "returns %s" % render(q.ret())[:100])
        if ok and not chain_ok:
            # ---- explicit-loop idiom: `for id in orders { if status(id) != Active {continue}; if keep {remaining.push(id)} else {to_cancel.push(id)} }`
            #      followed by `for id in to_cancel { env.cancel_order(id) }`, returning `remaining`
            loop_ok, filt2 = cancel_loop_idiom(ctx, m, q, f, cc[0], name)
            if loop_ok:
                chain_ok = True
                filt_ok = filt2
        ctx.check(ok and chain_ok, "cancel", name + "|only-own-active", cc[0].loc() if cc else ctx.loc(f),
                  "cancel_order is issued only for elements of `orders` that passed the filter and fell in the cancel half of the partition",
                  "cancel_order argument does not come from partition(filter(orders.iter())).1")
        cls = q.closures()
        for (cq, ops, cnames, _b) in cls:
            r = cq.ret()
            if filt_ok:
                break
            if r[0] == "call" and r[4] == "eq":
                okf = r[2][0][0] == "call" and r[2][0][4] == "order_status" and r[2][1][0] == "agg" and r[2][1][2].endswith("Status::Active") and r[2][0][2][1][0] == "param"
                ctx.check(okf, "cancel", name + "|filter", ctx.loc(cq.fn), "filter predicate: env.order_status(id) == Active", "filter predicate is %s" % render(r))
                filt_ok = okf
        ctx.check(filt_ok, "cancel", name + "|filter-present", ctx.loc(f), "an Active-status filter precedes the random selection")

    # ------------------------------------------------------------------ random agents
    # Judged on a per-slot model that is the same for `iter_mut().enumerate().map(|(n, slot)| ..).collect()`, for the same
    # closure calling a private placement helper, and for an explicit `for` loop that updates the slots in place:
    # SLOT = this agent's Option<order id>, I = the slot's position (trader id), everything expressed through them.
    from analysis.iterelem import loop_item, rewrite, rewrite_with, I as POS
    from analysis.cfg import render_atom
    SLOT = ("var", "slot")

    def slotify(e):
        """replace `self.orders[i]` by SLOT"""
        def is_elem(x):
            return x[0] == "index" and x[2] == POS and fld(x[1], "orders")
        return rewrite_with(e, is_elem, SLOT)

    for f in updates:
        tag = f.impl_adt.split("::")[-1]
        if "Random" not in tag:
            continue
        q = qv(f)
        cls = q.closures()
        canon = None
        head = None
        if len(cls) == 1 and q.calls("map") and q.calls("collect"):
            cq0, ops, cnames, _b = cls[0]
            bq = FnQ(m.w, _inl.inlined(cq0.fn))
            ctx.analysed_fns.add(cq0.fn.path)
            chain = [c.name for c in q.calls() if c.name in ("iter_mut", "iter", "into_iter", "enumerate", "map", "collect", "skip", "take", "filter", "rev", "step_by", "zip", "chain")]
            src_ok = [n for n in chain if n not in ("iter_mut", "iter", "into_iter")] in (["enumerate", "map", "collect"],) and any(fld(c.args[0], "orders") or any(fld(x, "orders") for x in walk(c.args[0]))
                                                                                                                            for c in q.calls(("iter_mut", "iter", "into_iter")))
            ow = [w for w in q.writes(field="orders") if w.root == ("param", 1, "self")]
            ctx.check(src_ok and len(ow) == 1, "random", tag + "|all-slots", ctx.loc(f), "every slot is visited once and rewritten from the per-slot result (%s)" % ".".join(chain),
                      "slot iteration chain %s / %d writes of the slot table" % (chain, len(ow)))
            sym = ("agg", "tuple", "", (POS, SLOT), ())

            def canon(e, _bq=bq, _sym=sym):   # noqa: E731
                return rewrite_with(e, lambda x: x[0] == "param" and x[1] == 2, _sym)
            form = "closure"
        else:
            bq = q
            nx = []
            for c in q.calls("next"):
                if q.cfg.in_loop(c.b):
                    sy, bounds = loop_item(q, c)
                    if sy is not None and not any(bd[0] == "take" for bd in bounds) and any(bd[0] == "coll" and (fld(bd[1], "orders") or any(fld(x, "orders") for x in walk(bd[1]))) for bd in bounds):
                        nx.append((c, sy))
            if len(nx) != 1:
                ctx.lost("random", tag + ": neither a per-slot closure over self.orders nor a loop over self.orders (without restricting adapters) found")
                continue
            ln, sy = nx[0]
            head = sorted(q.cfg.loops_containing(ln.b), key=lambda h: len(q.body.loop_body(h)))[0]
            ctx.ok("random", ln.loc(), tag + ": every slot is visited once by a loop over self.orders (no restricting adapter)")

            def canon(e, _ln=ln, _sy=sy):   # noqa: E731
                return slotify(rewrite(e, _ln, _sy))
            form = "loop"

        def is_slot(x):
            return x == SLOT or (x[0] == "call" and x[4] in ("take", "as_ref", "as_mut", "copied", "cloned", "clone") and x[2] and is_slot(x[2][0]))

        def is_payload(x):
            x = canon(strip_unwrap(x))
            if is_slot(x):
                return True     # (origin expressions are normalised with `unwrap()` dropped: `slot.unwrap()` reads as the slot)
            if x[0] == "field" and x[2] == "0" and x[1][0] == "downcast" and x[1][2] == "Some":
                return is_slot(x[1][1])
            if x[0] == "call" and x[4] in ("unwrap", "expect", "unwrap_unchecked") and x[2]:
                return is_slot(x[2][0])
            return False

        def a_some(a):
            if a[0] == "variant" and a[2] == ("Some",):
                return is_slot(canon(a[1]))
            if a[0] == "bool" and a[2] is True and a[1][0] == "call" and a[1][4] == "is_some" and a[1][2]:
                return is_slot(canon(a[1][2][0]))
            return False

        def a_active(a):
            return a[0] == "cmp" and a[1] == "eq" and a[2][0] == "call" and a[2][4] == "order_status" and is_payload(a[2][2][1]) and a[3][0] == "agg" and a[3][2].endswith("Status::Active")

        def a_acts(a):
            return a[0] == "cmp" and ((a[1] == "lt" and a[2][0] == "call" and a[2][4] == "gen" and path_text(a[3]).endswith("activity_rate")) or
                                      (a[1] == "gt" and a[3][0] == "call" and a[3][4] == "gen" and path_text(a[2]).endswith("activity_rate")))

        def a_loop(a):
            return a[0] == "variant" and a[1][0] == "call" and a[1][4] == "next"
        cc = [c for c in bq.calls("cancel_order") if is_env_call(c, "cancel_order")]
        pc = [c for c in bq.calls("place_order") if is_env_call(c, "place_order")]
        if len(cc) != 1 or len(pc) != 1:
            ctx.bad("random", tag + "|shape", ctx.loc(f), "random agent per-slot body has %d cancel and %d place calls" % (len(cc), len(pc)))
            continue
        c0, p0 = cc[0], pc[0]
        g = c0.guards
        ctx.check(any(a_some(a) for a in g) and any(a_active(a) for a in g) and is_payload(c0.args[1]), "random", tag + "|cancel", c0.loc(),
                  "cancels its own slot's order only when the slot is Some and that order is Active",
                  "cancel under [%s] of %s" % (c0.gtext(), render(canon(strip_unwrap(c0.args[1])))))
        for c in (c0, p0):
            acts = [a for a in c.guards if a_acts(a)]
            ctx.check(len(acts) >= 1, "activity", "%s|%s|prob" % (tag, c.name), c.loc(), "an agent acts iff a fresh draw < its activity_rate",
                      "%s is not gated by `draw < activity_rate` (conditions: %s)" % (c.name, c.gtext()))
            extra = [a for a in c.guards if not (a_acts(a) or a_some(a) or a_active(a) or a_loop(a) or a[0] == "opaque"
                                                 or (a[0] == "variant" and is_slot(canon(a[1]))) or (a[0] == "bool" and a[1][0] == "call" and a[1][4] in ("is_some", "is_none"))
                                                 or (a[0] == "cmp" and a[1] == "ne" and a[2][0] == "call" and a[2][4] == "order_status") or (a[0] in ("bool",) and a[1][0] in ("pred_and", "pred_or")))]
            ctx.check(not extra, "activity", "%s|%s|only" % (tag, c.name), c.loc(), "nothing but the activity draw and the slot's state decides %s" % c.name,
                      "%s additionally depends on [%s]" % (c.name, " && ".join(render_atom(a)[:70] for a in extra)))
        # complementary branches within one visit of the slot: neither call can follow the other
        inside = None if head is None else q.body.loop_body(head)

        def reaches(a_, b_):
            if inside is None:
                return bq.cfg.can_reach(a_, b_)
            outside = [x for x in range(len(bq.body.blocks)) if x not in inside] + [head]
            return b_ in bq.cfg.reach_from(a_, cut_blocks=[x for x in outside if x != a_])
        # an activated slot always acts: every path of one visit on which the activity draw succeeded passes the cancel or the
        # place call (a slot holding the id of an order that is no longer Active places a new order, it is not just cleared)
        act_edges = []
        for blk_ in bq.body.blocks:
            t_ = blk_.term
            if blk_.cleanup or t_ is None or t_.k != "switch" or (inside_blocks(bq, head, q) is not None and blk_.i not in inside_blocks(bq, head, q)):
                continue
            for s_ in set(bq.body.succs(blk_.i)):
                if any(a_acts(a) for a in bq.cfg.edge_atoms(blk_.i, s_)):
                    act_edges.append((blk_.i, s_))
        idle = False
        for (_b, s_) in act_edges:
            if head is None:
                r_ = bq.cfg.reach_from(s_, cut_blocks=[c0.b, p0.b])
                idle = idle or any(rb in r_ for rb in bq.body.return_blocks())
            else:
                ins_ = q.body.loop_body(head)
                outside_ = [x for x in range(len(bq.body.blocks)) if x not in ins_]
                r_ = bq.cfg.reach_from(s_, cut_blocks=[c0.b, p0.b] + outside_)
                idle = idle or head in r_
        ctx.check(bool(act_edges) and not idle, "activity", tag + "|always-acts", p0.loc(), "an activated slot always submits an instruction: it cancels its Active order or places a new one",
                  "an activated agent can finish its turn without cancelling or placing (e.g. a slot holding the id of a filled order is only cleared): an action with probability >= 1 does not always happen")
        compl = not reaches(c0.b, p0.b) and not reaches(p0.b, c0.b)
        ctx.check(compl, "random", tag + "|exclusive", p0.loc(), "placing and cancelling are on complementary branches (at most one live order per slot)",
                  "a slot can both cancel and place in one visit")
        tid = canon(strip_unwrap(p0.arg_named("trader_id")))
        vol = p0.arg_named("vol")
        tid_ok = tid[0] == "conv" and tid[1] == POS
        if not tid_ok and form == "loop":
            from .stepmodel import loop_counter
            tid_ok = loop_counter(q, head, strip_unwrap(p0.arg_named("trader_id"))) is not None
        okargs = tid_ok and full_range(vol, "vol_range")
        if "asset" in p0.formals:
            okargs = okargs and mentions(p0.arg_named("asset"), "asset")
        ctx.check(okargs, "ownership", tag + "|place-args", p0.loc(), "trader id = slot position, volume drawn from vol_range%s" % (", own asset" if "asset" in p0.formals else ""),
                  "random agent places with trader id %s, volume %s (expected the slot's position, counted once per slot, and gen_range(vol_range.0..vol_range.1))" % (render(tid)[:60], render(vol)[:60]))
        # what the slot holds afterwards
        if form == "closure":
            r = canon(bq.ret())
            alts = r[1] if r[0] == "phi" else (r,)
            kinds = set()
            for a in alts:
                if is_slot(a):
                    kinds.add("keep")
                elif a[0] == "agg" and a[2].endswith("Option::None"):
                    kinds.add("clear")
                elif a[0] == "agg" and a[2].endswith("Option::Some") and any(x[0] == "call" and x[4] == "place_order" for x in walk(a[3][0])):
                    kinds.add("new")
                else:
                    kinds.add("other:" + render(a)[:40])
            ctx.check(kinds == {"keep", "clear", "new"}, "random", tag + "|slot", ctx.loc(bq.fn), "slot becomes: unchanged (inactive) / None (after cancel) / Some(new id) (after place)",
                      "slot may become %s" % sorted(kinds))
        elif form == "loop" and not [w for w in bq.writes() if canon(w.addr) == SLOT] and not [c for c in bq.calls("take") if c.args and is_slot(canon(c.args[0]))]:
            # the slots are rebuilt into a new vector: exactly one push per visited slot, of the kept / cleared / new value
            ow = [w for w in bq.writes(field="orders") if w.root == ("param", 1, "self")]
            newv = ow[0].val if len(ow) == 1 else None
            pushes_ = [c for c in bq.calls("push") if newv is not None and c.args and c.args[0] == newv]
            kinds = set()
            for c in pushes_:
                a = canon(strip_unwrap(c.args[1]))
                for alt in (a[1] if a[0] == "phi" else (a,)):
                    if is_slot(alt):
                        kinds.add("keep")
                    elif alt[0] == "agg" and alt[2].endswith("Option::None"):
                        kinds.add("clear")
                    elif alt[0] == "agg" and alt[2].endswith("Option::Some") and any(x[0] == "call" and x[4] == "place_order" for x in walk(alt[3][0])):
                        kinds.add("new")
                    elif any(x[0] == "call" and x[4] == "place_order" for x in walk(alt)):
                        kinds.add("new")
                    else:
                        kinds.add("other:" + render(alt)[:40])
            outside = [x for x in range(len(bq.body.blocks)) if x not in inside]
            once = bool(pushes_) and all(not any(p2.b != p1.b and p2.b in bq.cfg.reach_from(p1.b, cut_blocks=outside + [head]) for p2 in pushes_) for p1 in pushes_)
            s0 = [x for x in bq.body.succs(head) if x in inside]
            every = bool(s0) and head not in bq.cfg.reach_from(s0[0], cut_blocks=set(outside) | {p_.b for p_ in pushes_})
            after_cancel = any(c0.b in bq.cfg.reach_from(p_.b, cut_blocks=outside + [head]) or p_.b in bq.cfg.reach_from(c0.b, cut_blocks=outside + [head]) for p_ in pushes_
                               if any(x[0] == "agg" and x[2].endswith("Option::None") for x in walk(canon(strip_unwrap(p_.args[1])))))
            ctx.check(kinds == {"keep", "clear", "new"} and once and every and after_cancel, "random", tag + "|slot", ctx.loc(f),
                      "the rebuilt slot table gets exactly one entry per slot: unchanged (inactive) / None (after cancel) / Some(new id) (after place)",
                      "rebuilt slot values %s; one push per slot: %s; every slot pushed: %s; None on the cancel path: %s" % (sorted(kinds), once, every, after_cancel))
        else:
            clears = [c for c in bq.calls("take") if c.args and is_slot(canon(c.args[0]))] + \
                     [w for w in bq.writes() if canon(w.addr) == SLOT and w.val[0] == "agg" and w.val[2].endswith("Option::None")]
            sets = [w for w in bq.writes() if canon(w.addr) == SLOT and w.val[0] == "agg" and w.val[2].endswith("Option::Some")]
            ok_clear = any(bq.body.dominates(x.b, c0.b) or bq.body.dominates(c0.b, x.b) for x in clears)
            ok_set = len(sets) == 1 and any(x[0] == "call" and x[4] == "place_order" for x in walk(sets[0].val)) and bq.body.dominates(p0.b, sets[0].b)
            other = [w for w in bq.writes() if canon(w.addr) == SLOT and w not in sets and not (w.val[0] == "agg" and w.val[2].endswith("Option::None"))]
            ctx.check(ok_clear and ok_set and not other, "random", tag + "|slot", ctx.loc(f), "slot becomes None on the cancel path and Some(new id) after a placement, otherwise it is left alone",
                      "slot updates: %d clears (on the cancel path: %s), sets %s, other writes %s" % (len(clears), ok_clear, [w.text()[:50] for w in sets], [w.text()[:50] for w in other]))

    # ------------------------------------------------------------------ Bernoulli census
    n_b = 0
    for f in fns:
        q = m.q(f)
        for blk in q.body.blocks:
            if blk.cleanup:
                continue
            for i, st in enumerate(blk.stmts):
                if st.k == "assign" and st.rv.k == "bin" and st.rv.j["op"] in ("Lt", "Le", "Gt", "Ge"):
                    from analysis.origin import strip
                    a = strip(q.ev.operand(st.rv.ops[0], (blk.i, i)))
                    b = strip(q.ev.operand(st.rv.ops[1], (blk.i, i)))
                    da = a[0] == "call" and a[4] == "gen"
                    db = b[0] == "call" and b[4] == "gen"
                    if not (da or db):
                        continue
                    n_b += 1
                    op = st.rv.j["op"]
                    good = (da and op in ("Lt", "Ge")) or (db and op in ("Gt", "Le"))
                    where = "%s:%s (%s)" % (st.sp["file"], st.sp["line"], f.short())
                    ctx.check(good, "bernoulli", "%s|%s" % (f.short(), op if da else "rev" + op), where,
                              "draw %s probability: `u < p` acts / `u >= p` does not (p = 0 never, p >= 1 always)" % {"Lt": "<", "Ge": ">=", "Gt": ">", "Le": "<="}[op] if da else "probability %s draw" % op,
                              "uniform draw compared as `%s %s %s`: with this operator an action with probability 0 can still happen (u == 0.0) or one with probability 1 can be skipped" % (
                                  render(a)[:30], {"Lt": "<", "Le": "<=", "Gt": ">", "Ge": ">="}[op], render(b)[:40]))
    ctx.check(n_b >= 12, "bernoulli", "census", "-", "%d comparisons of a uniform draw with a probability" % n_b)
    # activity: per-trader draws not in inner loops (noise/momentum handled above); gen_bool(0.5) picks the side
    # ------------------------------------------------------------------ no abort
    reach = [f for f in m.w.reachable(updates) if f.crate.name == "bourse_de"]
    n_p = 0
    for f in reach:
        q = m.q(f)
        for p in panic_sites(q):
            n_p += 1
            reason = discharge(m, q, p)
            if reason:
                ctx.ok("no-abort", p.loc(), "%s -- discharged: %s" % (p.text()[:90], reason))
            else:
                ctx.bad("no-abort", "%s|%s" % (f.short(), p.kind), p.loc(), "an agent update can abort here: %s is not in the discharge table" % p.text()[:140])
    ctx.check(n_p >= 12, "no-abort", "census", "-", "%d panic-capable sites in %d functions reachable from the agent update impls" % (n_p, len(reach)))
    ctx.assume("agent tick_size = environment tick size; non-empty tick/vol ranges; finite distribution parameters; agent count fits TraderId")
    ctx.assume("order ids held by an agent exist in its environment (they were returned by that environment)")


def cancel_loop_idiom(ctx, m, q, f, cancel_call, name):
    """explicit-loop form of the cancellation helper; returns (recognised, active-filter present)"""
    from analysis.iterelem import iterator_expr
    nxs = [c for c in q.calls("next") if q.cfg.in_loop(c.b)]
    if len(nxs) not in (1, 2):
        return False, False
    single_pass = len(nxs) == 1     # `for id in orders { if !Active {continue}; if keep {kept.push(id)} else {env.cancel_order(id)} }`
    def item_of(c):
        return ("field", ("downcast", c.result, "Some"), "0", "std::option::Option")
    src_loop = cancel_loop = None
    for c in nxs:
        e = iterator_expr(q, c)
        names = []
        while e is not None and e[0] == "call" and e[2] and e[4] in ("into_iter", "iter", "copied", "cloned"):
            names.append(e[4])
            e = e[2][0]
        if e is not None and e == ("param", f.params.index("orders") + 1, "orders"):
            src_loop = c
        elif e is not None and e[0] == "local":
            cancel_loop = (c, e)
    if src_loop is None or (cancel_loop is None and not single_pass):
        return False, False
    to_cancel = None
    if not single_pass:
        cl_next, to_cancel = cancel_loop
        # the cancel call: argument = item of the loop over the local list, no other condition
        if not same(strip_unwrap(cancel_call.args[1]), item_of(cl_next)):
            return False, False
        if [a for a in cancel_call.guards if not (a[0] == "variant" and a[2] in (("Some",), ("None",)))]:
            return False, False
    item = item_of(src_loop)

    def is_active(a):
        return a[0] == "cmp" and a[1] == "eq" and a[2][0] == "call" and a[2][4] == "order_status" and same(strip_unwrap(a[2][2][1]), item) and a[3][0] == "agg" and a[3][2].endswith("Status::Active")

    def draw_lt_p(a):      # u < p_cancel  (cancel)
        return a[0] == "cmp" and ((a[1] == "lt" and a[2][0] == "call" and a[2][4] == "gen" and a[3][0] == "param" and a[3][2] == "p_cancel") or
                                  (a[1] == "gt" and a[3][0] == "call" and a[3][4] == "gen" and a[2][0] == "param" and a[2][2] == "p_cancel"))

    def draw_ge_p(a):      # u >= p_cancel (keep)
        return a[0] == "cmp" and ((a[1] == "ge" and a[2][0] == "call" and a[2][4] == "gen" and a[3][0] == "param" and a[3][2] == "p_cancel") or
                                  (a[1] == "le" and a[3][0] == "call" and a[3][4] == "gen" and a[2][0] == "param" and a[2][2] == "p_cancel"))
    pushes = [c for c in q.calls("push")]
    to_c = [c for c in pushes if c.args[0] == to_cancel] if not single_pass else [cancel_call]
    kept_local = q.ret()
    kept = [c for c in pushes if c.args[0] == kept_local]
    others = [c for c in pushes if c not in to_c and c not in kept]
    ok = len(to_c) == 1 and len(kept) == 1 and not others
    if not ok:
        return False, False
    tc, kp = to_c[0], kept[0]
    def extra(c):
        return [a for a in c.guards if not (a[0] == "variant" and a[2] == ("Some",)) and not is_active(a) and not draw_lt_p(a) and not draw_ge_p(a)]
    ok = same(strip_unwrap(tc.args[1]), item) and same(strip_unwrap(kp.args[1]), item) and not extra(tc) and not extra(kp) \
        and any(draw_lt_p(a) for a in tc.guards) and any(draw_ge_p(a) for a in kp.guards)
    filt = any(is_active(a) for a in tc.guards) and any(is_active(a) for a in kp.guards)
    ctx.check(ok, "cancel", name + "|loop-idiom", tc.loc(), "each own id that is Active goes to the cancel list iff draw < p_cancel, else to the returned list; the cancel list is then cancelled element by element",
              "explicit-loop cancellation helper not of the expected form (cancel push under [%s], keep push under [%s])" % (tc.gtext(), kp.gtext()))
    ctx.check(filt, "cancel", name + "|filter", tc.loc(), "only ids whose order_status is Active are considered (both lists)", "the Active-status test does not guard both lists")
    return ok, filt


def discharge(m, q, p):
    e = p.expr
    f = q.fn
    if p.kind in ("unwrap", "expect") and e is not None:
        SUBMIT = ("place_order", "place_buy_limit_order", "place_sell_limit_order", "place_buy_limit_order_market", "place_sell_limit_order_market")
        alts = e[1] if e[0] == "phi" else (e,)
        if all(x[0] == "call" and x[4] in SUBMIT for x in alts):
            return "submission cannot be rejected: the price is on the grid (grid rule) under the assumption agent tick = environment tick"
        if e[0] == "call" and e[4] == "choose":
            a = e[2][0]
            if a[0] == "agg" and a[1] == "array" and len(a[3]) >= 1:
                return "choose on a constant non-empty array"
        if e[0] == "call" and e[4] == "try_from" and e[2]:
            a = e[2][0]
            root, _names = field_chain(a)
            from_enum = any(x[0] == "call" and x[4] == "next" and "Enumerate" in x[1] for x in walk(a))
            if f.kind == "Closure" or from_enum or (root[0] == "param" and f.body.local_ty(root[1]) == "usize"):
                return "TraderId::try_from(slot index) (assumption: agent count fits u32)"
        if e[0] == "call" and e[4] == "new" and "LogNormal" in e[1]:
            return "LogNormal::new with finite parameters (assumption)"
        # Option::unwrap under a dominating is_some of the same place
        for blk_guard in q.cfg.guards(p.b):
            if blk_guard[0] == "variant" and blk_guard[2] == ("Some",) and same(blk_guard[1], strip_unwrap(e)):
                return "Option::unwrap dominated by is_some() of the same slot"
    if p.kind == "precondition:gen_bool" and e is not None:
        a = e[2][1] if len(e[2]) > 1 else None
        if a is not None and a[0] == "const" and const_float(a) is not None and 0.0 <= const_float(a) <= 1.0:
            return "gen_bool with the constant probability %s" % const_float(a)
        return None
    if p.kind == "precondition:gen_range" and e is not None:
        if mentions(e, "tick_range") or mentions(e, "vol_range"):
            return "gen_range over a configured range (assumption: non-empty ranges)"
        return None
    if p.kind.startswith("overflow:Mul") and e is not None and any(x[0] == "call" and x[4] == "gen_range" for x in walk(e)) and mentions(e, "tick_size"):
        return "tick * tick_size with tick < tick_range.1 (assumption: configured range * tick_size < 2^32)"
    if p.kind.startswith("overflow:Add") and f.name == "new":
        return "agent_id_start + n_agents (assumption: fits TraderId)"
    if p.kind == "index" or p.kind == "bounds":
        return None
    return None


def strip_unwrap(e):
    from analysis.origin import strip
    return strip(e)
