"""C12 – every resting price on the tick grid; rejected creations leave no trace (DESIGN.md §4 C12)."""
from analysis.origin import render, field_chain, walk
from analysis.typestate import same
from .model import Model, fld, is_max_u32
from . import c02

LEVEL = "other"
MIN_OBLIGATIONS = 14
EXPLANATION = (
    "Grid-alignment domain over every price that can enter an order: a value is on-grid when a remainder test "
    "`v % tick_size == 0` against the book's tick dominates the use (path-feasibility refined on immutable parameters), when it "
    "is a market sentinel, or when it is read from an existing order's price; parameters are resolved through all call sites. "
    "Checked at every write of Order.price, every Order constructor call and every key construction. Creation: both limit arms "
    "carry the remainder guard (sibling arms), the rejecting slice has an empty effect (no id consumed) and Market/Env/MarketEnv "
    "creation paths propagate the error before any effect of their own. Level queries step by the same tick (C02 level-walk).")


def run(ctx):
    m = Model(ctx)
    book_fns = m.lib_fns("bourse_book")
    memo = {}

    def grid_ok(q, e, guards, depth=0):
        """-> reason string if expression e is on the tick grid at a site controlled by `guards`"""
        if depth > 6:
            return None
        if e[0] == "const" and (e[3] == 0 or e[3] == 0xFFFFFFFF):
            return "market sentinel"
        if e[0] == "field" and e[2] == "price" and (len(e) < 4 or e[3].endswith("Order")):
            return "existing order price"
        for a in guards:
            if a[0] == "cmp" and a[1] == "eq" and a[3][0] == "const" and a[3][3] == 0 and a[2][0] == "bin" and a[2][1] == "Rem" \
                    and same(a[2][2], e) and fld(a[2][3], m.f_tick) and field_chain(a[2][3])[0][0] == "param":
                return "dominated by `%s %% tick_size == 0`" % render(e)
        if e[0] == "param":
            key = (q.fn.path, e[1])
            if key in memo:
                return memo[key]
            memo[key] = None
            sites = []
            for g in book_fns:
                gq = m.q(g)
                for c in gq.calls(q.fn.name):
                    if c.target is not None and c.target.path == q.fn.path:
                        sites.append((gq, c))
            if not sites:
                return None
            reasons = []
            for gq, c in sites:
                if e[1] - 1 >= len(c.args):
                    return None
                r = grid_ok(gq, c.args[e[1] - 1], c.rguards, depth + 1)
                if r is None:
                    memo[key] = None
                    return None
                reasons.append(r)
            memo[key] = "every call site passes an on-grid value (%s)" % "; ".join(sorted(set(reasons)))
            return memo[key]
        if e[0] == "phi":
            rs = [grid_ok(q, a, guards, depth + 1) for a in e[1]]
            if all(rs):
                return "all alternatives on-grid"
        return None

    # ---- every write of Order.price
    n = 0
    for f in book_fns:
        q = m.q(f)
        for w in q.writes(field="price", owner="Order"):
            n += 1
            r = grid_ok(q, w.val, q.cfg.guards_refined(w.b))
            ctx.check(r is not None, "grid", "%s|price" % f.short(), w.loc(), "Order.price := %s is on the tick grid: %s" % (render(w.val), r),
                      "Order.price := %s with no tick-size check on some path from the public API (off-grid price can rest in the book)" % render(w.val))
    # ---- constructors called with a price
    ctors = [f for f in ctx.prog.find(crate="bourse_book", adt="Order") if "-> bourse_book::types::Order" in f.sig and f.impl_trait is None]
    for f in book_fns:
        q = m.q(f)
        for c in q.calls():
            if c.target is not None and c.target in ctors and "price" in c.formals:
                n += 1
                a = c.arg_named("price")
                r = grid_ok(q, a, c.rguards)
                ctx.check(r is not None, "grid", "%s|ctor|%s" % (f.short(), c.name), c.loc(), "%s(price = %s) on the tick grid: %s" % (c.name, render(a), r),
                          "%s called with price %s that is not checked against the tick size" % (c.name, render(a)))
    for f in ctors:
        if "price" not in f.params:
            r = m.q(f).ret()
            if r[0] == "agg":
                pv = dict(zip(r[4], r[3])).get("price")
                want_max = "buy" in f.name
                ok = pv is not None and pv[0] == "const" and ((is_max_u32(pv)) if want_max else pv[3] == 0)
                ctx.check(ok, "grid", "sentinel|" + f.name, ctx.loc(f), "%s uses the market sentinel price %s" % (f.name, "MAX" if want_max else "0"),
                          "%s uses price %s" % (f.name, render(pv) if pv else "?"))
    ctx.check(n >= 3, "grid", "census", "-", "%d price-entry sites analysed (writes + constructor calls)" % n)

    # ---- creation: rejecting slice has no effect; both arms guarded (siblings)
    create = m.book_fn("create_order")
    cq = m.q(create)
    rem_edges = []
    for blk in create.body.blocks:
        t = blk.term
        if blk.cleanup or not t or t.k != "switch":
            continue
        for s in set(create.body.succs(blk.i)):
            for a in cq.cfg.edge_atoms(blk.i, s):
                if a[0] == "cmp" and a[1] == "ne" and a[3][0] == "const" and a[3][3] == 0 and a[2][0] == "bin" and a[2][1] == "Rem" and fld(a[2][3], m.f_tick):
                    rem_edges.append((blk.i, s, a))
    ctx.check(len(rem_edges) == 2, "create", "guards", ctx.loc(create), "create_order has a remainder test on both limit arms (bid and ask)",
              "create_order has %d off-grid branches (expected one per side)" % len(rem_edges))
    summ = m.w.effects.summary(create)
    for (b, s, a) in rem_edges:
        blocks = cq.cfg.reach_from(s)
        eff = [(loc, what) for (loc, blk, sp, what) in summ["sites"] if blk in blocks and loc.root[0] == "param"]
        g = cq.cfg.guards(s)
        side = [x[2][0] for x in g if x[0] == "variant" and x[1][0] == "param" and x[1][2] == "side"]
        ctx.check(not eff, "create", "reject-no-effect|" + (side[0] if side else "?"), cq.loc(create.body.blocks[b].term.sp),
                  "rejecting an off-grid %s price has no effect (no id consumed)" % (side[0] if side else "?"),
                  "the rejecting branch still writes: %s" % eff)
        # it returns Err
        rets = [rb for rb in create.body.return_blocks() if rb in blocks]
        ctx.check(bool(rets), "create", "reject-returns|" + (side[0] if side else "?"), ctx.loc(create), "the off-grid branch returns (an error)")
    ret = cq.ret()
    alts = ret[1] if ret[0] == "phi" else (ret,)
    ctx.check(any(x[0] == "agg" and x[2].endswith("Result::Err") for x in alts) and any(x[0] == "agg" and x[2].endswith("Result::Ok") for x in alts),
              "create", "result", ctx.loc(create), "create_order returns Err(..) or Ok(id)")
    # the only table push is dominated by the passing edges
    pushes = [c for c in cq.calls("push") if fld(c.args[0], m.f_orders)]
    for p in pushes:
        ok = all(p.b not in cq.cfg.reach_from(s) for (_b, s, _a) in rem_edges)
        ctx.check(ok, "create", "push-after-check", p.loc(), "the order-table push is unreachable from the rejecting branches")

    # ---- forwarding creation paths propagate the error before any own effect
    fw = [("Market", "create_order"), ("Market", "create_and_place_order"), ("OrderBook", "create_and_place_order")]
    fns = [ctx.prog.method(a, n, crate="bourse_book") for a, n in fw] + [m.env_fn("place_order"), m.menv_fn("place_order")]
    for f in fns:
        q = m.q(f)
        cc = [c for c in q.calls() if c.target is not None and c.name in ("create_order", "create_and_place_order")]
        if len(cc) != 1:
            ctx.bad("forward", "shape|" + f.short(), ctx.loc(f), "%s does not forward to exactly one creation call" % f.short())
            continue
        c = cc[0]
        s = m.w.effects.summary(f)
        # every other effect site must be reachable only through the Ok / Continue edge of the result
        bad = []
        for (loc, blk, sp, what) in s["sites"]:
            if blk == c.b or loc.root[0] != "param":
                continue
            g = q.cfg.guards(blk)
            okedge = any(a[0] == "variant" and a[2] in (("Continue",), ("Ok",)) for a in g)
            if not okedge or not q.body.dominates(c.b, blk):
                bad.append("%s at line %s" % (what, sp["line"]))
        ctx.check(not bad, "forward", f.short(), c.loc(), "%s: own effects happen only after the creation succeeded (error propagated first)" % f.short(),
                  "%s has effects not dominated by the success of the creation call: %s" % (f.short(), "; ".join(bad)))
    ctx.assume("tick_size > 0 (asserted by OrderBook::new)")
