"""C12 – every resting price on the tick grid; rejected creations leave no trace (DESIGN.md §4 C12)."""
from analysis.origin import render, field_chain, walk
from analysis.typestate import same
from .model import Model, fld, is_max_u32
from . import c02

LEVEL = "other"
MIN_OBLIGATIONS = 14
EXPLANATION = (
    "Grid-alignment domain over every price that can enter an order: a value is on-grid when a remainder test "
    "`v % tick_size == 0` against the book's tick dominates the use (path-feasibility refined on immutable parameters), when it "
    "is a market sentinel, or when it is read from an existing order's price; parameters are resolved through all call sites. "
    "Checked at every write of Order.price, every Order constructor call and every key construction. Creation: both limit arms "
    "carry the remainder guard (sibling arms), the rejecting slice has an empty effect (no id consumed) and Market/Env/MarketEnv "
    "creation paths propagate the error before any effect of their own. Level queries step by the same tick (C02 level-walk).")


def reach_errs(cq, reach):
    """some Err(..) value is built in the reachable region (the error that is returned)"""
    for blk in cq.fn.body.blocks:
        if blk.i in reach and not blk.cleanup:
            for st in blk.stmts:
                if st.k == "assign" and st.rv.k == "agg" and st.rv.j.get("variant") == "Err":
                    return True
    return False


def run(ctx):
    m = Model(ctx)
    book_fns = m.lib_fns("bourse_book")
    memo = {}

    def grid_ok(q, e, guards, depth=0, blk=None):
        """-> reason string if expression e is on the tick grid at a site (block `blk`) controlled by `guards`"""
        if depth > 6:
            return None
        # the payload of an Option parameter: under {it is Some, payload % tick != 0} the site must be unreachable
        # (case analysis: the check may be an early return, a match-arm guard, a helper with `?` ...)
        if blk is not None and e[0] == "field" and e[2] == "0" and e[1][0] == "downcast" and e[1][2] == "Some" and e[1][1][0] == "param":
            from analysis.cases import CaseEval
            p_ = e[1][1]

            def dec(a):
                if a[0] == "cmp" and a[1] in ("eq", "ne") and a[2][0] == "bin" and a[2][1] == "Rem" and a[3][0] == "const" and a[3][3] == 0 \
                        and fld(a[2][3], m.f_tick) and same(a[2][2], e):
                    return a[1] == "ne"
                return None
            ce = CaseEval(q, {p_: "Some"}, [dec])
            if not ce.reachable(blk):
                return "unreachable when `%s %% tick_size != 0`" % render(e)
        if e[0] == "const" and (e[3] == 0 or e[3] == 0xFFFFFFFF):
            return "market sentinel"
        if e[0] == "field" and e[2] == "price" and (len(e) < 4 or e[3].endswith("Order")):
            return "existing order price"
        from analysis.cfg import bool_atoms
        from analysis.beta import normalize
        n = normalize(m.w, e)
        if n != e and n[0] == "phi":
            rs = [grid_ok(q, a, guards, depth + 1, blk) for a in n[1]]
            if all(rs):
                return "each alternative on-grid (%s)" % "; ".join(sorted(set(rs)))
        expanded = list(guards)
        for a in guards:
            # not(o is Some && P(o.Some.0)) together with the use of o's payload gives not P(payload)
            if a[0] == "bool" and a[2] is False and a[1][0] == "pred_and" and a[1][1][0] == "isvariant" and a[1][1][2] == "Some" \
                    and e[0] == "field" and e[1][0] == "downcast" and same(e[1][1], a[1][1][1]):
                expanded.extend(bool_atoms(a[1][2], False))
        for a in expanded:
            if a[0] == "cmp" and a[1] == "eq" and a[3][0] == "const" and a[3][3] == 0 and a[2][0] == "bin" and a[2][1] == "Rem" \
                    and same(a[2][2], e) and fld(a[2][3], m.f_tick) and field_chain(a[2][3])[0][0] == "param":
                return "dominated by `%s %% tick_size == 0`" % render(e)
        if e[0] == "param":
            key = (q.fn.path, e[1])
            if key in memo:
                return memo[key]
            memo[key] = None
            sites = []
            for g in book_fns:
                gq = m.q(g)
                for c in gq.calls(q.fn.name):
                    if c.target is not None and c.target.path == q.fn.path:
                        sites.append((gq, c))
            if not sites:
                return None
            reasons = []
            for gq, c in sites:
                if e[1] - 1 >= len(c.args):
                    return None
                r = grid_ok(gq, c.args[e[1] - 1], c.rguards, depth + 1, c.b)
                if r is None:
                    memo[key] = None
                    return None
                reasons.append(r)
            memo[key] = "every call site passes an on-grid value (%s)" % "; ".join(sorted(set(reasons)))
            return memo[key]
        if e[0] == "phi":
            rs = [grid_ok(q, a, guards, depth + 1, blk) for a in e[1]]
            if all(rs):
                return "all alternatives on-grid"
        return None

    # ---- every write of Order.price and every constructor call, judged on the INLINED views of the public
    #      entries of the book (private helpers spliced in, so the guards of the whole call path are visible)
    ctors = [f for f in ctx.prog.find(crate="bourse_book", adt="Order") if "-> bourse_book::types::Order" in f.sig and f.impl_trait is None and f.pub]
    ctor_helpers = {f.path for f in ctx.prog.find(crate="bourse_book", adt="Order") if "-> bourse_book::types::Order" in f.sig and f.impl_trait is None and not f.pub}
    n = 0
    covered = set()
    deferred_ctor_sites = []
    for f in m.book_pub_fns():
        q = m.qi(f)
        covered |= set(q.fn.inlined_from) | {f.path}
        for w in q.writes(field="price", owner="Order"):
            n += 1
            r = grid_ok(q, w.val, q.cfg.guards_refined(w.b), 0, w.b)
            ctx.check(r is not None, "grid", "%s|price" % f.short(), w.loc(), "via %s: Order.price := %s is on the tick grid: %s" % (f.name, render(w.val), r),
                      "via %s: Order.price := %s with no tick-size check on some path from the public API (off-grid price can rest in the book)" % (f.name, render(w.val)))
        for c in q.calls():
            if c.target is not None and c.target in ctors and "price" in c.formals:
                n += 1
                a = c.arg_named("price")
                r = grid_ok(q, a, c.rguards, 0, c.b)
                if r is None and f.name == "create_order":
                    # the constructed order is only a value until it is stored: `create` (below) shows that with an
                    # off-grid limit price no effect site of create_order is reachable
                    r = "not stored when off-grid (creation case analysis, rule `create|reject-no-effect`)"
                    deferred_ctor_sites.append(c)
                ctx.check(r is not None, "grid", "%s|ctor|%s" % (f.short(), c.name), c.loc(), "via %s: %s(price = %s) on the tick grid: %s" % (f.name, c.name, render(a), r),
                          "via %s: %s called with price %s that is not checked against the tick size" % (f.name, c.name, render(a)))
        # Order literals built directly inside the (inlined) entry – e.g. through a private shared initialiser
        from analysis.origin import strip
        for blk in q.fn.body.blocks:
            if blk.cleanup:
                continue
            for i, st in enumerate(blk.stmts):
                if st.k == "assign" and st.rv.k == "agg" and st.rv.j.get("ak") == "adt" and (st.rv.j.get("adt") or "").endswith("types::Order") and "price" in st.rv.j.get("fields", []):
                    n += 1
                    a = strip(q.ev.operand(st.rv.ops[st.rv.j["fields"].index("price")], (blk.i, i)))
                    r = grid_ok(q, a, q.cfg.guards_refined(blk.i))
                    ctx.check(r is not None, "grid", "%s|literal" % f.short(), q.loc(st.sp), "via %s: Order{price: %s} on the tick grid: %s" % (f.name, render(a), r),
                              "via %s: an Order is built with price %s that is not checked against the tick size" % (f.name, render(a)))
    # every price writer / limit-constructor caller in the crate is attributed to some public entry
    for f in book_fns:
        if f.impl_trait is not None and "Deserialize" in (f.impl_trait or ""):
            continue
        q = m.q(f)
        sites = list(q.writes(field="price", owner="Order")) + [c for c in q.calls() if c.target is not None and c.target in ctors and "price" in c.formals]
        if sites and f.path not in covered and not f.path.startswith("bourse_book::market::") and "_serde" not in f.path:
            ctx.bad("grid", "unattributed|" + f.short(), ctx.loc(f), "%s writes an order price but is not reachable (through private helpers) from a public OrderBook entry the grid analysis covers" % f.short())
    for f in ctors:
        if "price" in f.params:
            # the grid test is made on the ARGUMENT: the constructor must store exactly that value
            r = m.qi(f).ret()
            pv = dict(zip(r[4], r[3])).get("price") if r[0] == "agg" else None
            ctx.check(pv is not None and pv[0] == "param" and pv[2] == "price", "grid", "ctor-stores-arg|" + f.name, ctx.loc(f),
                      "%s stores its price argument unchanged" % f.name,
                      "%s stores %s as the order's price, not the (grid-checked) price argument" % (f.name, render(pv) if pv is not None else "?"))
        if "price" not in f.params:
            r = m.qi(f).ret()
            if r[0] == "agg":
                pv = dict(zip(r[4], r[3])).get("price")
                want_max = "buy" in f.name
                ok = pv is not None and pv[0] == "const" and ((is_max_u32(pv)) if want_max else pv[3] == 0)
                ctx.check(ok, "grid", "sentinel|" + f.name, ctx.loc(f), "%s uses the market sentinel price %s" % (f.name, "MAX" if want_max else "0"),
                          "%s uses price %s" % (f.name, render(pv) if pv else "?"))
    ctx.check(n >= 3, "grid", "census", "-", "%d price-entry sites analysed (writes + constructor calls)" % n)

    creation_rules(ctx, m)
    # "the published per-level data accounts for all resting volume within its range": level i of a side is the volume and count
    # stored at touch -/+ i ticks, and a level whose price would leave the price range publishes nothing (rule shared with C02)
    from . import c02
    from .c06 import _Prefixed
    c02.level_walk(_Prefixed(ctx, "levels-"), m)

    ctx.assume("tick_size > 0 (asserted by OrderBook::new; a deserialised snapshot is assumed to come from such a book)")



def creation_rules(ctx, m):
    """creation succeeds iff the limit price is on the grid (market orders always); a rejected creation has no effect; the
    forwarding layers propagate the error before any own effect (shared with C18: the ValueError clause)"""
    ctors = [f for f in ctx.prog.find(crate="bourse_book", adt="Order") if "-> bourse_book::types::Order" in f.sig and f.impl_trait is None and f.pub]
    # ---- creation: rejecting slice has no effect; both arms guarded (siblings)
    create = m.book_fn("create_order")
    cq = m.qi(create)
    create = cq.fn
    # finite case analysis on the shape of `price` and on "limit price on the grid" (analysis/cases.py): the check may sit
    # in each limit arm, be hoisted in front of the match, live in a private helper called with `?`, or test the price of
    # the already constructed (not yet stored) order - what matters is what each case can reach
    from analysis.cases import CaseEval, payload
    from analysis.origin import strip
    price_p = ("param", create.params.index("price") + 1, "price") if "price" in create.params else None
    if price_p is None:
        ctx.lost("create", "create_order has no `price` parameter")
        return

    def ctor_price(e):
        """`<ctor call>.price` -> the ctor's price argument / its market sentinel; other expressions unchanged"""
        if e[0] == "field" and e[2] == "price" and e[1][0] == "call":
            c = e[1]
            tf = ctx.prog.fn_by_short(c[1]) if hasattr(ctx.prog, "fn_by_short") else None
            for g in ctors:
                if g.name == c[4]:
                    tf = g
            if tf is not None:
                if "price" in tf.params:
                    return c[2][tf.params.index("price")]
                r = m.qi(tf).ret()
                if r[0] == "agg":
                    return dict(zip(r[4], r[3])).get("price", e)
        return e

    def price_alts(e):
        if e[0] == "field" and e[2] == "price" and e[1][0] == "phi":
            return [ctor_price(("field", a, "price", e[3] if len(e) > 3 else "")) for a in e[1][1]]
        return [ctor_price(e)]

    def is_limit_price(e):
        alts = price_alts(e)
        return any(same(a, payload(price_p)) for a in alts) and all(same(a, payload(price_p)) or (a[0] == "const" and (a[3] == 0 or is_max_u32(a))) for a in alts)

    def decide(grid):
        def d(a):
            if a[0] == "cmp" and a[1] in ("eq", "ne") and a[2][0] == "bin" and a[2][1] == "Rem" and a[3][0] == "const" and a[3][3] == 0 \
                    and fld(a[2][3], m.f_tick) and is_limit_price(a[2][2]):
                if grid is None:
                    return None
                return grid if a[1] == "eq" else (not grid)
            return None
        return d
    # branch edges whose feasibility depends on the remainder test (spelled as a comparison on a branch, or inside the
    # predicate of `price.filter(..)` / `is_some_and(..)`): those cut under exactly one of {on grid, off grid}
    ce_t, ce_f = CaseEval(cq, {price_p: "Some"}, [decide(True)]), CaseEval(cq, {price_p: "Some"}, [decide(False)])
    ce_t.compute()
    ce_f.compute()
    n_tests = len(set(ce_t.cuts) ^ set(ce_f.cuts))
    ctx.check(n_tests >= 2, "create", "guards", ctx.loc(create), "create_order tests `limit price %% tick_size` (%d branch edges)" % n_tests,
              "create_order has no remainder test of the limit price against the book's tick size")
    summ = m.w.effects.summary(create)
    pushes = [c for c in cq.calls("push") if fld(c.args[0], m.f_orders)]

    def ok_built(reach):
        for blk in create.body.blocks:
            if blk.i in reach and not blk.cleanup:
                for st in blk.stmts:
                    if st.k == "assign" and st.rv.k == "agg" and st.rv.j.get("variant") == "Ok" and st.rv.j.get("adt", "").endswith("Result") and "usize" in st.place.ty:
                        return True
        return False
    # (A) limit price off the grid: nothing is written, no Ok(id) is built, an error is returned
    ce = CaseEval(cq, {price_p: "Some"}, [decide(False)])
    ce.compute()
    eff = [(repr(loc), what, sp["line"]) for (loc, blk, sp, what) in summ["sites"] if blk in ce.reach and loc.root[0] == "param"]
    ctx.check(not eff, "create", "reject-no-effect", ctx.loc(create),
              "an off-grid limit price writes nothing (no id consumed): no effect site is reachable under {price is Some, price %% tick != 0}",
              "with an off-grid limit price create_order still writes: %s" % eff)
    rets = [rb for rb in create.body.return_blocks() if rb in ce.reach]
    ctx.check(bool(rets) and not ok_built(ce.reach) and reach_errs(cq, ce.reach), "create", "reject-returns", ctx.loc(create),
              "an off-grid limit price returns an error (no Ok(id) is built on those paths)", "with an off-grid limit price create_order may return Ok")
    # (B) limit price on the grid, (C) market order: the order is always created (the `if and only if` / `market orders always can`)
    for tag, opts, dec, what in (("on-grid", {price_p: "Some"}, decide(True), "an on-grid limit price"), ("market", {price_p: "None"}, decide(None), "a market order (no price)")):
        ce = CaseEval(cq, opts, [dec])
        ce.compute()
        created = len(pushes) == 1 and ce.must_run([pushes[0].b])
        errs = reach_errs(cq, ce.reach)
        ctx.check(created and not errs, "create", "accepts|" + tag, ctx.loc(create), "%s is always accepted: the entry is stored on every path and no error can be returned" % what,
                  "%s can be rejected / not stored (%s)" % (what, "an Err value is built on a reachable path" if errs else "the order-table push can be skipped"))
    ret = cq.ret()
    has_ok = any(x[0] == "agg" and x[2].endswith("Result::Ok") for x in walk(ret))
    ctx.check(has_ok, "create", "result", ctx.loc(create), "create_order returns Ok(id) on the accepting paths")

    # ---- forwarding creation paths propagate the error before any own effect
    fw = [("Market", "create_order"), ("Market", "create_and_place_order"), ("OrderBook", "create_and_place_order")]
    fns = [ctx.prog.method(a, n, crate="bourse_book") for a, n in fw] + [m.env_fn("place_order"), m.menv_fn("place_order")]
    for f in fns:
        q = m.q(f)
        cc = [c for c in q.calls() if c.target is not None and c.name in ("create_order", "create_and_place_order")]
        if len(cc) != 1:
            ctx.bad("forward", "shape|" + f.short(), ctx.loc(f), "%s does not forward to exactly one creation call" % f.short())
            continue
        c = cc[0]
        s = m.w.effects.summary(f)
        # every other effect site must be reachable only through the Ok / Continue edge of the result
        bad = []
        for (loc, blk, sp, what) in s["sites"]:
            if blk == c.b or loc.root[0] != "param":
                continue
            g = q.cfg.guards(blk)
            okedge = any(a[0] == "variant" and a[2] in (("Continue",), ("Ok",)) for a in g)
            if not okedge or not q.body.dominates(c.b, blk):
                bad.append("%s at line %s" % (what, sp["line"]))
        ctx.check(not bad, "forward", f.short(), c.loc(), "%s: own effects happen only after the creation succeeded (error propagated first)" % f.short(),
                  "%s has effects not dominated by the success of the creation call: %s" % (f.short(), "; ".join(bad)))
    # the assumption the remainder tests rest on: a book cannot be built with tick size 0
    nf = m.book_fn("new")
    nq = m.q(nf)
    asserted = False
    for blk in nq.body.blocks:
        t = blk.term
        if blk.cleanup or not t or t.k != "switch":
            continue
        for tgt in set(nq.body.succs(blk.i)):
            tt = nq.body.blocks[tgt].term
            diverges = tt is not None and tt.k == "call" and (tt.callee_name or "").startswith("panic") or (tt is not None and tt.k in ("unreachable",))
            for a in nq.cfg.edge_atoms(blk.i, tgt):
                if diverges and a[0] == "cmp" and a[2][0] == "param" and a[2][2] == "tick_size" and a[3][0] == "const" and ((a[1] in ("le", "eq") and a[3][3] == 0) or (a[1] == "lt" and a[3][3] == 1)):
                    asserted = True
    ctx.check(asserted, "create", "tick-positive", ctx.loc(nf), "OrderBook::new refuses a tick size of 0 (the `price % tick_size` tests cannot divide by zero)",
              "OrderBook::new accepts tick_size == 0: every limit-order creation would divide by zero")
