"""C10 – queued instructions are invisible until the next step (DESIGN.md §4 C10)."""
from analysis.origin import render, field_chain, walk
from analysis.effects import covers, interior_mutability_census
from .model import Model, fld
from .stepmodel import StepShape

LEVEL = "proof"
MIN_OBLIGATIONS = 20
EXPLANATION = (
    "Sound effect (mod) analysis: the write summaries of Env/MarketEnv::{place,cancel,modify}_order are contained in "
    "{instruction queue} (+ one append to the order table for place_order, through create_order whose own summary is "
    "exactly that push) - no side index, trade log, clock, counter, recorded series or cached snapshot can be written. "
    "The cached level-2 snapshot field is assigned only in `new` and in `step` after the processing loop, both times from "
    "level_2_data() of the live book/market, and the level_2_data() getter returns that field. No public function of "
    "Env/MarketEnv returns a type containing &mut, and the workspace has no interior mutability, so `&` views cannot write.")


def run(ctx):
    m = Model(ctx)
    E = m.w.effects
    hits = interior_mutability_census(ctx.prog)
    ctx.check(not hits, "soundness", "interior-mutability", "-", "no Cell/RefCell/Mutex/Atomic field in the workspace (shared references are read-only)",
              "interior mutability present: %s" % hits)
    create = m.book_fn("create_order")
    s = E.summary(create)
    ctx.check(s["writes"] == {(1, (m.f_orders,))} and not s["unknown"], "effects", "create_order", ctx.loc(create),
              "OrderBook::create_order writes only the order table (one push)", "OrderBook::create_order writes %s" % sorted(s["writes"]))
    mcreate = m.market_fn("create_order")
    s = E.summary(mcreate)
    ctx.check(s["writes"] == {(1, (m.market_books_field(), "[]", m.f_orders))} and not s["unknown"], "effects", "Market::create_order", ctx.loc(mcreate),
              "Market::create_order writes only order_books[asset].orders", "Market::create_order writes %s" % sorted(s["writes"]))
    creation_outcome_rules(ctx, m)
    env_rules(ctx, m, (("Env", m.env_fn, "order_book"), ("MarketEnv", m.menv_fn, "market")))
    # "the level-2 snapshot always equals the live book's level-2 data": the snapshot is assigned from level_2_data() of the book /
    # market, so that function must itself be composed of the live book's own queries, unconditionally (C02's views rule; the
    # multi-asset copy Market::level_2_data is the one a MarketEnv reads)
    from . import c02
    from .c06 import _Prefixed
    c02.views(_Prefixed(ctx, "snapshot-feed-"), m)


def creation_outcome_rules(ctx, m, rule="effects"):
    """create_order decides nothing about the order's outcome"""
    create = m.book_fn("create_order")
    # the record a submission creates is a NEW order and nothing else about it is decided before the step: create_order never
    # writes a status / end time itself, and the constructors it stores start every order as New
    for S in ("Bid", "Ask"):
        cv = m.sv(create, S)
        live = cv.cfg.reach_from(0)
        sw = [w for w in cv.writes() if w.b in live and w.field in ("status", "end_time", "arr_time") and w.owner.endswith("Order")]
        ctx.check(not sw, rule, "create_order|no-outcome|" + S, sw[0].loc() if sw else ctx.loc(create),
                  "create_order decides nothing about the order's outcome (no status / end-time / arrival-time write)",
                  "create_order already writes %s: the instruction's outcome is visible before the step that processes it" % "; ".join(w.text() for w in sw))
    n_ctor = 0
    for cf in ctx.prog.find(crate="bourse_book", adt="Order"):
        if cf.name in ("buy_limit", "buy_market", "sell_limit", "sell_market"):
            r = m.qi(cf).ret()
            aggs = [x for x in walk(r) if x[0] == "agg" and x[1] == "adt" and x[2].endswith("Order::Order")]
            st = dict(zip(aggs[0][4], aggs[0][3])).get("status") if aggs else None
            n_ctor += 1
            ctx.check(st is not None and st[0] == "agg" and st[2].endswith("Status::New"), rule, "ctor-new|" + cf.name, ctx.loc(cf),
                      "Order::%s creates the order with status New" % cf.name, "Order::%s creates the order with status %s" % (cf.name, render(st) if st else "?"))
    ctx.check(n_ctor == 4, rule, "ctor-census", "-", "%d order constructors examined" % n_ctor)


def env_rules(ctx, m, owners, submissions=True):
    """effect rules of the submission functions + cached-snapshot rules, per environment type"""
    E = m.w.effects
    for owner, getter, obj in owners:
        step = StepShape(m, getter("step"), obj)
        qf = step.queue_field
        if qf is None:
            ctx.lost("effects", owner + "::step queue field")
            continue
        table = (obj, m.f_orders) if owner == "Env" else (obj, m.market_books_field(), "[]", m.f_orders)
        for name in ("place_order", "cancel_order", "modify_order"):
            f = getter(name)
            s = E.summary(f)
            allowed = [(1, (qf,))] + ([(1, table)] if name == "place_order" else [])
            extra = [w for w in s["writes"] if not covers(allowed, w)]
            ctx.check(not extra and not s["unknown"], "effects", "%s::%s" % (owner, name), ctx.loc(f),
                      "%s::%s writes only %s" % (owner, name, " and ".join("self." + ".".join(p) for _i, p in allowed)),
                      "%s::%s may also write %s %s" % (owner, name, sorted(".".join(p) for _i, p in extra), s["unknown"][:2]))
            if name == "place_order":
                ctx.check((1, table) in s["writes"] or any(covers([(1, table)], w) for w in s["writes"]), "effects", "%s::%s|creates" % (owner, name), ctx.loc(f),
                          "place_order appends the new order record (visible immediately with status New)")
        # cached snapshot
        adt = "bourse_de::env::Env" if owner == "Env" else "bourse_de::market_env::MarketEnv"
        snap = [n for n, t in m.deep_fields(adt).items() if "Level2Data<" in t and "Records" not in t]
        if len(snap) != 1:
            ctx.lost("snapshot", "%s cached level-2 snapshot field (found %s)" % (owner, snap))
            continue
        sf = snap[0]
        # who may write the snapshot: judged on the public functions (their effect summaries are
        # transitive, so private helpers are accounted to the public function that uses them)
        pubs = [f for f in ctx.prog.find(crate="bourse_de", adt=owner) if f.impl_trait is None and f.pub]
        writing = [f.name for f in pubs if any(w[0] == 1 and sf in w[1] for w in E.summary(f)["writes"])]
        ctx.check(writing == ["step"], "snapshot", owner + "|writers", ctx.loc(getter("step")), "among the public functions only step (and the constructor) assigns the cached snapshot",
                  "cached snapshot may be written by %s" % writing)
        writers = [(step.f, w) for w in step.q.writes() if w.root == ("param", 1, "self") and sf in w.names]
        ctx.check(len(writers) == 1, "snapshot", owner + "|single-assignment", writers[0][1].loc() if writers else ctx.loc(step.f), "step assigns the snapshot exactly once",
                  "step assigns the snapshot %d times" % len(writers))
        for f, w in writers:
            if f.name != "step":
                continue
            v = w.val
            ok = v[0] == "call" and v[4] == "level_2_data" and fld(v[2][0], obj)
            ctx.check(ok, "snapshot", owner + "|source", w.loc(), "step refreshes the snapshot from self.%s.level_2_data()" % obj, "snapshot refreshed from %s" % render(v))
            # unconditional: the only condition allowed on the refresh is "the processing loop has finished"
            extra = [a for a in w.guards if not (a[0] == "variant" and a[2] == ("None",) and a[1][0] == "call" and a[1][4] == "next")]
            whole = w.names[-1:] == [sf]
            ctx.check(not extra and whole and not step.q.cfg.in_loop(w.b), "snapshot", owner + "|unconditional", w.loc(),
                      "the whole snapshot is refreshed on every step, unconditionally",
                      "the snapshot refresh is conditional / partial: [%s] %s" % (w.gtext(), w.text()[:80]))
            after_loop = step.head is not None and w.b not in step.body and step.q.cfg.strictly_after(step.head, w.b) and not step.q.cfg.can_reach(w.b, step.head)
            last_set = [c for c in step.set_times if c.b not in step.body]
            ctx.check(after_loop and all(step.q.body.dominates(c.b, w.b) for c in last_set) and bool(last_set), "snapshot", owner + "|after-step", w.loc(),
                      "the refresh happens after the processing loop and the final clock write", "the snapshot is refreshed before the step's processing is complete")
            # .. and so is the READ of the live data it stores: a value taken before the batch is processed and stored afterwards is stale
            reads = [c for c in step.q.calls("level_2_data") if c.args and fld(c.args[0], obj)]
            fresh = bool(reads) and step.head is not None and all(
                c.b not in step.body and step.q.cfg.strictly_after(step.head, c.b) and not step.q.cfg.can_reach(c.b, step.head) and all(step.q.body.dominates(t_.b, c.b) for t_ in last_set)
                for c in reads)
            ctx.check(fresh, "snapshot", owner + "|fresh-read", w.loc(), "the live level-2 data stored in the snapshot is read after the processing loop and the final clock write",
                      "the level-2 data stored in the snapshot is read before the step's processing is complete (stale when stored)")
        new = getter("new")
        r = m.qi(new).ret()       # (a private struct grouping the recorded data may be built by its own private constructor)
        agg = [x for x in walk(r) if x[0] == "agg" and x[1] == "adt" and x[2].endswith(owner + "::" + owner)]
        ok = False
        if agg:
            fields = dict(zip(agg[0][4], agg[0][3]))
            v = fields.get(sf)
            if v is None:
                for inner in agg[0][3]:
                    if inner[0] == "agg" and inner[1] == "adt" and sf in inner[4]:
                        v = dict(zip(inner[4], inner[3]))[sf]
            ok = v is not None and v[0] == "call" and v[4] == "level_2_data" and same_obj(v[2][0], fields.get(obj))
        ctx.check(ok, "snapshot", owner + "|new", ctx.loc(new), "new() initialises the snapshot from the fresh book/market's level_2_data()",
                  "new() initialises the snapshot differently")
        g = getter("level_2_data")
        ctx.check(fld(m.qi(g).ret(), sf), "snapshot", owner + "|getter", ctx.loc(g), "level_2_data() returns the cached snapshot field", "level_2_data() returns %s" % render(m.q(g).ret()))
        # no &mut out
        for f in ctx.prog.find(crate="bourse_de", adt=owner):
            if f.pub and f.impl_trait is None and "->" in f.sig:
                ret = f.sig.split("->", 1)[1]
                import re
                ctx.check(not re.search(r"&('\w+ )?mut |\*mut |IterMut", ret), "no-mut-out", "%s::%s" % (owner, f.name), ctx.loc(f),
                          "%s::%s returns no mutable access (%s)" % (owner, f.name, ret.strip()[:50]), "%s::%s hands out mutable access: %s" % (owner, f.name, ret.strip()))
        for x in ctx.prog.adt_fields(adt):
            ctx.check(not x["pub"], "no-mut-out", "%s|field|%s" % (owner, x["name"]), "-", "field %s.%s is private" % (owner, x["name"]), "field %s.%s is public" % (owner, x["name"]))


def same_obj(a, b):
    return b is not None and (a == b or a == ("ref", b) or render(a) == render(b))
