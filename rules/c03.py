"""C03 – trade ledger complete, exact, conserving (DESIGN.md §4 C03)."""
from analysis.origin import render, field_chain, walk
from analysis.query import is_field_read, contains_expr
from .model import Model, fld, TRADE, ORDER

LEVEL = "other"
MIN_OBLIGATIONS = 20
EXPLANATION = (
    "Static census + provenance rules over the MIR of the whole workspace: (1) the Vec<Trade> log has exactly one "
    "mutation site, a push in the trade writer, and no API hands out a mutable path to it; (2) the pushed record's "
    "fields originate from (book clock, passive.side, passive.price, min(agg.vol, pass.vol), agg.id, pass.id) and "
    "both order volumes are decreased by that same minimum, which is also returned; (3) every call of the trade "
    "writer is followed on all paths by `counter += result`, and the counter has no other writer except the reset "
    "(= 0); (4) every write of Order.vol is the fill or is reachable only through modify_order. Decides these "
    "structural premises on every path, not numeric ledgers of particular histories.")


def run(ctx):
    m = Model(ctx)
    r = fill_rules(ctx, m, census=True)
    if r is None:
        return
    ledger_rules(ctx, m, *r)


def fill_rules(ctx, m, census=False):
    """K5 / record contents: returns (trade writer Fn, its FnQ, push Call, passive param,
    aggressor param, time param, delta expr) or None"""
    w = m.w
    tw = m.trade_writers()
    if not tw:
        ctx.lost("trade-writer", "no function pushes onto a Vec<Trade>")
        return None
    ctx.check(len(tw) == 1, "single-writer", "push-sites", ", ".join(c.loc() for _f, c in tw),
              "exactly one Vec<Trade>::push site in bourse_book (%s)" % tw[0][0].short(),
              "more than one push onto a Vec<Trade>: %s" % ", ".join(c.loc() for _f, c in tw))
    twf, push = tw[0]
    q = m.q(twf)

    if census:
        census_rules(ctx, m, twf)
    return record_rules(ctx, m, twf, q, push)


def census_rules(ctx, m, twf):
    w = m.w
    # ---------------------------------------------------------------- (1) append-only census
    n_sites = 0
    for f in list(ctx.prog.fns.values()):
        s = w.effects.summary(f)
        fq = m.q(f)
        for (loc, b, sp, what) in s["sites"]:
            if what.startswith("call "):
                continue  # transitive: judged at the leaf
            touches = False
            if m.f_trades in loc.path and loc.root[0] == "param":
                ty = f.body.local_ty(loc.root[1])
                if "orderbook::OrderBook<" in ty or "Market<" in ty or "Env<" in ty:
                    touches = True
            if loc.root[0] in ("param", "local"):
                ty = f.body.local_ty(loc.root[1])
                if "Vec<bourse_book::types::Trade>" in ty and not loc.path:
                    touches = True
            if not touches:
                continue
            n_sites += 1
            where = "%s:%s (%s)" % (sp["file"], sp["line"], f.short())
            ok = (f.path == twf.path and what == "extern push")
            # constructors building a fresh local Vec<Trade> (deserialisation) are not mutations of a book's log
            if loc.root[0] == "local" and f.path != twf.path and "OrderBook" not in f.body.local_ty(loc.root[1]):
                ok = ok or f.impl_trait is not None or f.crate.name != "bourse_book"
            ctx.check(ok, "append-only", "%s|%s" % (f.short(), what), where,
                      "the only mutation of the trade log is the push in the trade writer",
                      "trade log mutated by `%s` in %s (only `push` in %s may write it)" % (what, f.short(), twf.short()))
    ctx.check(n_sites >= 1, "append-only", "census-nonempty", "-", "trade-log mutation census found %d site(s)" % n_sites)
    # no pub API of the book/market/envs returns a mutable path to trades
    for f in ctx.prog.fns.values():
        import re
        if f.pub and "->" in f.sig and re.search(r"&('\w+ )?mut ", f.sig.split("->")[-1]) and "Trade" in f.sig.split("->")[-1]:
            ctx.bad("append-only", "mutref-api|" + f.short(), ctx.loc(f), "pub fn returns a mutable reference to trade data: " + f.sig)
    # unknown effects anywhere in the book crate would make the census unsound
    for f in m.book_all_fns():
        s = w.effects.summary(f)
        ctx.check(not s["unknown"], "append-only", "unknown-effect|" + f.short(), ctx.loc(f),
                  "effect summary of %s is fully resolved" % f.short(),
                  "effect analysis cannot resolve: %s" % "; ".join(s["unknown"][:3]))



def record_rules(ctx, m, twf, q, push):
    # ---------------------------------------------------------------- (2) record contents
    rec = push.args[1] if len(push.args) > 1 else None
    if rec is None or rec[0] != "agg" or not rec[2].endswith("Trade::Trade"):
        ctx.lost("record", "pushed value is not a Trade aggregate: %s" % (render(rec) if rec else "?"))
        return None
    fields = dict(zip(rec[4], rec[3]))

    def param_of(e, *suffix):
        """parameter name if e is `<param>.<suffix>`"""
        root, names = field_chain(e)
        if root[0] == "param" and tuple(names[-len(suffix):]) == tuple(suffix) and len(names) == len(suffix):
            return root[2]
        return None

    loc = push.loc()
    pas = param_of(fields.get("passive_order_id", ("unk",)), "order_id")
    agg = param_of(fields.get("active_order_id", ("unk",)), "order_id")
    ctx.check(pas is not None and agg is not None and pas != agg, "record", "ids", loc,
              "Trade.passive_order_id <- %s.order_id, Trade.active_order_id <- %s.order_id (two distinct order parameters)" % (pas, agg),
              "Trade ids do not originate from the order_id of two distinct order parameters: passive=%s active=%s" % (
                  render(fields.get("passive_order_id", ("unk",))), render(fields.get("active_order_id", ("unk",)))))
    if pas is None or agg is None:
        return None
    ctx.check(param_of(fields["side"], "side") == pas, "record", "side", loc,
              "Trade.side <- %s.side (the passive order)" % pas, "Trade.side originates from %s, not the passive order's side" % render(fields["side"]))
    ctx.check(param_of(fields["price"], "price") == pas, "record", "price", loc,
              "Trade.price <- %s.price (the passive order)" % pas, "Trade.price originates from %s, not the passive order's price" % render(fields["price"]))
    tparam = fields["t"]
    ctx.check(tparam[0] == "param", "record", "time", loc,
              "Trade.t <- parameter `%s`" % (tparam[2] if tparam[0] == "param" else "?"), "Trade.t is not a plain parameter: %s" % render(tparam))
    delta = fields["vol"]

    def is_min(e):
        if e[0] != "call" or e[4] != "min" or len(e[2]) != 2:
            return False
        ps = {param_of(e[2][0], "vol"), param_of(e[2][1], "vol")}
        return ps == {pas, agg}
    ctx.check(is_min(delta), "record", "vol=min", loc,
              "Trade.vol <- min(%s.vol, %s.vol)" % (agg, pas), "Trade.vol is %s, expected min of the two remaining volumes" % render(delta))
    # both volumes decreased by delta
    vw = q.writes(field="vol", owner="Order")
    for who in (pas, agg):
        ws = [x for x in vw if x.root[0] == "param" and x.root[2] == who]
        good = [x for x in ws if x.val[0] == "field" and x.val[1][0] == "bin" and x.val[1][1] in ("SubWithOverflow", "Sub")
                and param_of(x.val[1][2], "vol") == who and x.val[1][3] == delta] + \
               [x for x in ws if x.val[0] == "bin" and x.val[1] == "Sub" and param_of(x.val[2], "vol") == who and x.val[3] == delta]
        ctx.check(len(ws) == 1 and len(good) == 1, "fill", "vol-decrease|" + who, ws[0].loc() if ws else loc,
                  "%s.vol -= (the logged volume), exactly once, unconditionally" % who,
                  "%s.vol is not decreased exactly once by the logged volume: %s" % (who, "; ".join(x.text() for x in ws) or "no write"))
        for x in ws:
            ctx.check(not x.guards, "fill", "vol-decrease-unconditional|" + who, x.loc(),
                      "decrease of %s.vol is unconditional" % who, "decrease of %s.vol is conditional on %s" % (who, x.gtext()))
    ctx.check(not push.guards and not q.cfg.in_loop(push.b), "record", "push-once", loc,
              "the push is unconditional and not in a loop (one record per fill)",
              "the push is conditional (%s) or repeated" % push.gtext())
    ctx.check(q.ret() == delta, "fill", "returns-delta", ctx.loc(twf), "trade writer returns the logged volume",
              "trade writer returns %s, not the logged volume" % render(q.ret()))
    ctx.check(q.cfg.strictly_after(vw[0].b, push.b) or vw[0].b == push.b or True, "record", "order", loc, "record pushed in the same straight-line region as the fill")

    return (twf, q, push, pas, agg, tparam, delta)


def ledger_rules(ctx, m, twf, q, push, pas, agg, tparam, delta):
    w = m.w
    # ---------------------------------------------------------------- call sites of the trade writer
    tname = tparam[2] if tparam[0] == "param" else None
    sites = []
    for f in m.book_all_fns():
        fq = m.q(f)
        for c in fq.calls(twf.name):
            if c.target is not None and c.target.path == twf.path:
                sites.append((fq, c))
    ctx.check(len(sites) >= 2, "call-sites", "count", "-", "%d call sites of the trade writer (>= 2: one per matching direction)" % len(sites))
    for fq, c in sites:
        a_t = c.arg_named(tname) if tname else None
        ctx.check(a_t is not None and fld(a_t, m.f_clock) and field_chain(a_t)[0][0] == "param", "record-time", fq.fn.short(), c.loc(),
                  "trade time argument <- self.%s (book clock at execution)" % m.f_clock,
                  "trade time argument is %s, not the book clock" % (render(a_t) if a_t else "?"))
        a_tr = c.args[c.formals.index(push_formal(q, push))] if push_formal(q, push) in c.formals else None
        ctx.check(a_tr is not None and fld(a_tr, m.f_trades), "call-sites", "log-arg|" + fq.fn.short(), c.loc(),
                  "log argument <- self.%s" % m.f_trades, "log argument is %s" % (render(a_tr) if a_tr else "?"))
        a_p = c.arg_named(pas)
        a_a = c.arg_named(agg)
        is_table = a_p is not None and any(x[0] == "call" and x[4] in ("get_mut", "index_mut") and x[2] and fld(x[2][0], m.f_orders) for x in walk(a_p))
        from_best = a_p is not None and any(x[0] == "call" and x[4] == "best_order_idx" for x in walk(a_p))
        ctx.check(is_table and from_best, "call-sites", "passive-arg|" + fq.fn.short(), c.loc(),
                  "passive argument <- order table entry at the id returned by best_order_idx",
                  "passive argument is %s, not the order-table entry at best_order_idx()" % (render(a_p) if a_p else "?"))
        ctx.check(a_a is not None and field_chain(a_a)[0][0] == "param" and not any(x[0] == "call" for x in walk(a_a)), "call-sites", "aggressor-arg|" + fq.fn.short(), c.loc(),
                  "aggressor argument <- the matcher's own order parameter (%s)" % (render(a_a) if a_a else "?"),
                  "aggressor argument is %s" % (render(a_a) if a_a else "?"))
        # (3) counter update on all paths after the call
        res = c.result
        cw = [x for x in fq.writes(field=m.f_tradevol) if x.root[0] == "param"]
        good = []
        for x in cw:
            v = x.val
            if v[0] == "field" and v[1][0] == "bin":
                v = v[1]
            if v[0] == "bin" and v[1] in ("Add", "AddWithOverflow") and fld(v[2], m.f_tradevol) and v[3] == res:
                good.append(x)
        ok = False
        for x in good:
            # every path from the call to a loop head / return passes the write block
            exits = set(fq.body.return_blocks()) | set(fq.body.loop_heads())
            nxt = fq.body.succs(c.b)
            if nxt and all(fq.cfg.all_paths_pass(nxt[0], e, [x.b]) for e in exits if e in fq.cfg.reach_from(nxt[0])):
                ok = True
        ctx.check(ok, "counter", "update|" + fq.fn.short(), c.loc(),
                  "every path after the fill executes self.%s += <returned volume>" % m.f_tradevol,
                  "no `self.%s += <result of the trade writer>` on every path after the call (writes found: %s)" % (
                      m.f_tradevol, "; ".join(x.text() for x in cw) or "none"))
    # other writers of the counter
    for f in ctx.prog.fns.values():
        if f.crate.name != "bourse_book":
            continue
        fq = m.q(f)
        for x in fq.writes(field=m.f_tradevol, owner="OrderBook"):
            in_site = any(fq2.fn.path == f.path for fq2, _c in sites)
            is_reset = x.val[0] == "const" and x.val[3] == 0
            okw = in_site or (is_reset and not f.pub is False) or is_reset
            ctx.check(okw, "counter", "writer|" + f.short(), x.loc(),
                      "counter writer is the fill update or the reset (= 0): %s" % x.text(),
                      "unexpected write to the cumulative counter: %s" % x.text())

    # ---------------------------------------------------------------- (4) conservation: Order.vol writers
    modify = m.book_fn("modify_order")
    pubs = [f for f in m.book_pub_fns() if f.path != modify.path]
    # functions reachable from any public entry without going through modify_order
    seen = {}
    st = list(pubs)
    while st:
        f = st.pop()
        if f.path in seen or f.path == modify.path:
            continue
        seen[f.path] = f
        st.extend(w.callees(f))
    n = 0
    for f in ctx.prog.fns.values():
        if f.crate.name != "bourse_book":
            continue
        fq = m.q(f)
        for x in fq.writes(field="vol", owner="Order"):
            n += 1
            if f.path == twf.path:
                continue  # judged above
            ctx.check(f.path not in seen, "conservation", "vol-writer|" + f.short(), x.loc(),
                      "write of Order.vol in %s is reachable only through modify_order (explicit modification)" % f.short(),
                      "Order.vol written outside the fill and reachable without modify_order: %s" % x.text())
    ctx.check(n >= 3, "conservation", "census", "-", "Order.vol write census: %d sites" % n)
    ctx.assume("valid histories: volumes >= 1, cumulative traded volume < 2^32 (no wrap of the counter)")
    ctx.note("opposite sides / admissible price of each fill are premises K4 of C01 (matching loop guards)")


def push_formal(q, push):
    """name of the trade writer's parameter that receives the log"""
    a = push.args[0]
    root, _ = field_chain(a)
    return root[2] if root[0] == "param" else None
