"""C03 – trade ledger complete, exact, conserving (DESIGN.md §4 C03)."""
from analysis.origin import render, field_chain, walk
from analysis.query import is_field_read, contains_expr
from .model import Model, fld, TRADE, ORDER

LEVEL = "other"
MIN_OBLIGATIONS = 20
EXPLANATION = (
    "Static census + provenance rules over the MIR of the whole workspace: (1) the Vec<Trade> log has exactly one "
    "mutation site, a push in the trade writer, and no API hands out a mutable path to it; (2) the pushed record's "
    "fields originate from (book clock, passive.side, passive.price, min(agg.vol, pass.vol), agg.id, pass.id) and "
    "both order volumes are decreased by that same minimum, which is also returned; (3) every call of the trade "
    "writer is followed on all paths by `counter += result`, and the counter has no other writer except the reset "
    "(= 0); (4) every write of Order.vol is the fill or is reachable only through modify_order. Decides these "
    "structural premises on every path, not numeric ledgers of particular histories.")


def run(ctx):
    m = Model(ctx)
    r = fill_rules(ctx, m, census=True)
    if r is None:
        return
    ledger_rules(ctx, m, *r)
    # "the volume an order has lost other than through an explicit volume modification equals the sum of its logged trades": the
    # only volume writer besides the fill is modify_order (conservation rule above) - and it must change the volume only as
    # requested: kept when the volume is omitted, the requested value otherwise (C06's per-case rules on modify_order)
    from .c06 import modify_rules, _Prefixed
    modify_rules(_Prefixed(ctx, "conservation-modify-"), m, with_typestate=False)
    # .. and the fills an operation applies to its working copy of the order must reach the order table: every path that
    # modifies the copy stores it back (otherwise the record keeps its old volume while its fills are in the ledger)
    from .c02 import writeback
    writeback(_Prefixed(ctx, "conservation-"), m)
    # "whose limits both admit the trade price": a fill happens only inside a matching loop whose condition tests the aggressor's
    # limit against the CURRENT best price of the passive side (the passive order is the head at that price: K5 / call sites)
    from .c01 import matching_loop_rules
    matching_loop_rules(ctx, m, RULE="limits-admit")


def fill_rules(ctx, m, census=False):
    """K5 / record contents: returns (trade writer Fn, its FnQ, push Call, passive param,
    aggressor param, time param, delta expr) or None"""
    w = m.w
    tw = m.trade_writers()
    if not tw:
        ctx.lost("trade-writer", "no function pushes onto a Vec<Trade>")
        return None
    ctx.check(len(tw) == 1, "single-writer", "push-sites", ", ".join(c.loc() for _f, c in tw),
              "exactly one Vec<Trade>::push site in bourse_book (%s)" % tw[0][0].short(),
              "more than one push onto a Vec<Trade>: %s" % ", ".join(c.loc() for _f, c in tw))
    twf, push = tw[0]
    q = m.q(twf)

    if census:
        census_rules(ctx, m, twf)
    return record_rules(ctx, m, twf, q, push)


def census_rules(ctx, m, twf):
    w = m.w
    # ---------------------------------------------------------------- (1) append-only census
    n_sites = 0
    for f in list(ctx.prog.units()):
        s = w.effects.summary(f)
        fq = m.q(f)
        for (loc, b, sp, what) in s["sites"]:
            if what.startswith("call ") or what.startswith("closure "):
                continue  # transitive: judged at the leaf
            touches = False
            if m.f_trades in loc.path and loc.root[0] == "param":
                ty = fq.body.local_ty(loc.root[1])
                if "orderbook::OrderBook<" in ty or "Market<" in ty or "Env<" in ty:
                    touches = True
            if loc.root[0] in ("param", "local"):
                ty = fq.body.local_ty(loc.root[1])
                if "Vec<bourse_book::types::Trade>" in ty and not loc.path:
                    touches = True
            if not touches:
                continue
            n_sites += 1
            where = "%s:%s (%s)" % (sp["file"], sp["line"], f.short())
            ok = (f.path == twf.path and what == "extern push")
            # constructors building a fresh local Vec<Trade> (deserialisation) are not mutations of a book's log
            if loc.root[0] == "local" and f.path != twf.path and "OrderBook" not in fq.body.local_ty(loc.root[1]):
                ok = ok or f.impl_trait is not None or f.crate.name != "bourse_book"
            ctx.check(ok, "append-only", "%s|%s" % (f.short(), what), where,
                      "the only mutation of the trade log is the push in the trade writer",
                      "trade log mutated by `%s` in %s (only `push` in %s may write it)" % (what, f.short(), twf.short()))
    ctx.check(n_sites >= 1, "append-only", "census-nonempty", "-", "trade-log mutation census found %d site(s)" % n_sites)
    # no pub API of the book/market/envs returns a mutable path to trades
    for f in ctx.prog.units():
        import re
        if f.pub and "->" in f.sig and re.search(r"&('\w+ )?mut ", f.sig.split("->")[-1]) and "Trade" in f.sig.split("->")[-1]:
            ctx.bad("append-only", "mutref-api|" + f.short(), ctx.loc(f), "pub fn returns a mutable reference to trade data: " + f.sig)
    # unknown effects anywhere in the book crate would make the census unsound
    for f in m.book_all_fns():
        s = w.effects.summary(f)
        ctx.check(not s["unknown"], "append-only", "unknown-effect|" + f.short(), ctx.loc(f),
                  "effect summary of %s is fully resolved" % f.short(),
                  "effect analysis cannot resolve: %s" % "; ".join(s["unknown"][:3]))



def record_rules(ctx, m, twf, q, push):
    # ---------------------------------------------------------------- (2) record contents
    rec = push.args[1] if len(push.args) > 1 else None
    if rec is None or rec[0] != "agg" or not rec[2].endswith("Trade::Trade"):
        ctx.lost("record", "pushed value is not a Trade aggregate: %s" % (render(rec) if rec else "?"))
        return None
    fields = dict(zip(rec[4], rec[3]))

    def param_of(e, *suffix):
        """parameter name if e is `<param>.<suffix>`"""
        root, names = field_chain(e)
        if root[0] == "param" and tuple(names[-len(suffix):]) == tuple(suffix) and len(names) == len(suffix):
            return root[2]
        return None

    loc = push.loc()
    pas = param_of(fields.get("passive_order_id", ("unk",)), "order_id")
    agg = param_of(fields.get("active_order_id", ("unk",)), "order_id")
    ctx.check(pas is not None and agg is not None and pas != agg, "record", "ids", loc,
              "Trade.passive_order_id <- %s.order_id, Trade.active_order_id <- %s.order_id (two distinct order parameters)" % (pas, agg),
              "Trade ids do not originate from the order_id of two distinct order parameters: passive=%s active=%s" % (
                  render(fields.get("passive_order_id", ("unk",))), render(fields.get("active_order_id", ("unk",)))))
    if pas is None or agg is None:
        return None
    ctx.check(param_of(fields["side"], "side") == pas, "record", "side", loc,
              "Trade.side <- %s.side (the passive order)" % pas, "Trade.side originates from %s, not the passive order's side" % render(fields["side"]))
    ctx.check(param_of(fields["price"], "price") == pas, "record", "price", loc,
              "Trade.price <- %s.price (the passive order)" % pas, "Trade.price originates from %s, not the passive order's price" % render(fields["price"]))
    tparam = fields["t"]
    ctx.check(tparam[0] == "param", "record", "time", loc,
              "Trade.t <- parameter `%s`" % (tparam[2] if tparam[0] == "param" else "?"), "Trade.t is not a plain parameter: %s" % render(tparam))
    delta = fields["vol"]

    def is_min(e):
        if e[0] != "call" or e[4] != "min" or len(e[2]) != 2:
            return False
        ps = {param_of(e[2][0], "vol"), param_of(e[2][1], "vol")}
        return ps == {pas, agg}
    ctx.check(is_min(delta), "record", "vol=min", loc,
              "Trade.vol <- min(%s.vol, %s.vol)" % (agg, pas), "Trade.vol is %s, expected min of the two remaining volumes" % render(delta))
    # both volumes decreased by delta
    vw = q.writes(field="vol", owner="Order")
    for who in (pas, agg):
        ws = [x for x in vw if x.root[0] == "param" and x.root[2] == who]
        good = [x for x in ws if x.val[0] == "field" and x.val[1][0] == "bin" and x.val[1][1] in ("SubWithOverflow", "Sub")
                and param_of(x.val[1][2], "vol") == who and x.val[1][3] == delta] + \
               [x for x in ws if x.val[0] == "bin" and x.val[1] == "Sub" and param_of(x.val[2], "vol") == who and x.val[3] == delta]
        ctx.check(len(ws) == 1 and len(good) == 1, "fill", "vol-decrease|" + who, ws[0].loc() if ws else loc,
                  "%s.vol -= (the logged volume), exactly once, unconditionally" % who,
                  "%s.vol is not decreased exactly once by the logged volume: %s" % (who, "; ".join(x.text() for x in ws) or "no write"))
        for x in ws:
            ctx.check(not x.guards, "fill", "vol-decrease-unconditional|" + who, x.loc(),
                      "decrease of %s.vol is unconditional" % who, "decrease of %s.vol is conditional on %s" % (who, x.gtext()))
    ctx.check(not push.guards and not q.cfg.in_loop(push.b), "record", "push-once", loc,
              "the push is unconditional and not in a loop (one record per fill)",
              "the push is conditional (%s) or repeated" % push.gtext())
    ctx.check(q.ret() == delta, "fill", "returns-delta", ctx.loc(twf), "trade writer returns the logged volume",
              "trade writer returns %s, not the logged volume" % render(q.ret()))

    return (twf, q, push, pas, agg, tparam, delta)


def record_time_rules(ctx, m, rule="record-time"):
    """every trade is stamped with the book clock at execution: the trade writer's time parameter receives self.<clock> at every
    call context, and the record's time field is that parameter"""
    tw = m.trade_writers()
    if len(tw) != 1:
        ctx.lost(rule, "exactly one trade writer expected, found %d" % len(tw))
        return
    twf, push = tw[0]
    q = m.q(twf)
    rec = push.args[1] if len(push.args) > 1 else None
    tfield = None
    if rec is not None and rec[0] == "agg" and rec[2].endswith("Trade::Trade"):
        tfield = dict(zip(rec[4], rec[3])).get("t")
    ok = tfield is not None and tfield[0] == "param"
    ctx.check(ok, rule, "field", push.loc(), "Trade.t <- the trade writer's time parameter", "Trade.t is %s, not a time parameter handed in by the matching loop" % (render(tfield) if tfield is not None else "?"))
    if not ok:
        return
    tname = tfield[2]
    n = 0
    for f in [f_ for f_ in m.book_pub_fns() if f_.params and f_.params[0] == "self"]:
        for S_ in ("Bid", "Ask"):
            fq = m.sv(f, S_)
            live = fq.cfg.reach_from(0)
            for c in fq.calls(twf.name):
                if c.target is None or c.target.path != twf.path or c.b not in live:
                    continue
                n += 1
                a_t = c.arg_named(tname)
                ctx.check(a_t is not None and fld(a_t, m.f_clock) and field_chain(a_t)[0] == ("param", 1, "self"), rule, "arg|" + fq.fn.short(), c.loc(),
                          "trade time argument <- self.%s (book clock at execution)" % m.f_clock, "trade time argument is %s, not the book clock" % (render(a_t) if a_t else "?"))
    ctx.check(n >= 2, rule, "census", "-", "%d trade-writer call contexts" % n)


def ledger_rules(ctx, m, twf, q, push, pas, agg, tparam, delta):
    w = m.w
    # ---------------------------------------------------------------- call sites of the trade writer
    tname = tparam[2] if tparam[0] == "param" else None
    # (call contexts in the side-specialised whole-operation views of the public mutating entry points)
    sites = []
    for f in [f_ for f_ in m.book_pub_fns() if f_.params and f_.params[0] == "self"]:
        for S_ in ("Bid", "Ask"):
            fq = m.sv(f, S_)
            live = fq.cfg.reach_from(0)
            for c in fq.calls(twf.name):
                if c.target is not None and c.target.path == twf.path and c.b in live:
                    sites.append((fq, c))
    ctx.check(len(sites) >= 2, "call-sites", "count", "-", "%d call sites of the trade writer (>= 2: one per matching direction)" % len(sites))
    for fq, c in sites:
        a_t = c.arg_named(tname) if tname else None
        ctx.check(a_t is not None and fld(a_t, m.f_clock) and field_chain(a_t)[0] == ("param", 1, "self"), "record-time", fq.fn.short(), c.loc(),
                  "trade time argument <- self.%s (book clock at execution)" % m.f_clock,
                  "trade time argument is %s, not the book clock" % (render(a_t) if a_t else "?"))
        a_tr = c.args[c.formals.index(push_formal(q, push))] if push_formal(q, push) in c.formals else None
        ctx.check(a_tr is not None and fld(a_tr, m.f_trades), "call-sites", "log-arg|" + fq.fn.short(), c.loc(),
                  "log argument <- self.%s" % m.f_trades, "log argument is %s" % (render(a_tr) if a_tr else "?"))
        a_p = c.arg_named(pas)
        a_a = c.arg_named(agg)
        is_table = a_p is not None and any((x[0] == "call" and x[4] in ("get_mut", "index_mut") and x[2] and fld(x[2][0], m.f_orders)) or
                                           (x[0] == "index" and fld(x[1], m.f_orders)) for x in walk(a_p))
        from_best = a_p is not None and any(x[0] == "call" and x[4] == "best_order_idx" for x in walk(a_p))
        ctx.check(is_table and from_best, "call-sites", "passive-arg|" + fq.fn.short(), c.loc(),
                  "passive argument <- order table entry at the id returned by best_order_idx",
                  "passive argument is %s, not the order-table entry at best_order_idx()" % (render(a_p) if a_p else "?"))
        ctx.check(a_a is not None and not any(x[0] == "call" and x[4] == "best_order_idx" for x in walk(a_a)) and a_a != a_p, "call-sites", "aggressor-arg|" + fq.fn.short(), c.loc(),
                  "aggressor argument <- the order the operation is about (%s), not a queue head" % (render(a_a) if a_a else "?"),
                  "aggressor argument is %s" % (render(a_a) if a_a else "?"))
    # (3) every fill volume reaches the cumulative counter (directly or through returned accumulators)
    fill_flow(ctx, m, twf, rule="counter")

    # ---------------------------------------------------------------- (4) conservation: Order.vol writers
    modify = m.book_fn("modify_order")
    pubs = [f for f in m.book_pub_fns() if f.path != modify.path]
    # functions reachable from any public entry without going through modify_order
    seen = {}
    st = list(pubs)
    while st:
        f = st.pop()
        if f.path in seen or f.path == modify.path:
            continue
        seen[f.path] = f
        st.extend(w.callees(f))
    n = 0
    for f in ctx.prog.units():
        if f.crate.name != "bourse_book":
            continue
        fq = m.q(f)
        for x in fq.writes(field="vol", owner="Order"):
            n += 1
            if f.path == twf.path:
                continue  # judged above
            ctx.check(f.path not in seen, "conservation", "vol-writer|" + f.short(), x.loc(),
                      "write of Order.vol in %s is reachable only through modify_order (explicit modification)" % f.short(),
                      "Order.vol written outside the fill and reachable without modify_order: %s" % x.text())
    ctx.check(n >= 3, "conservation", "census", "-", "Order.vol write census: %d sites" % n)
    ctx.assume("valid histories: volumes >= 1, cumulative traded volume < 2^32 (no wrap of the counter)")
    ctx.note("opposite sides / admissible price of each fill are premises K4 of C01 (matching loop guards)")


def fill_flow(ctx, m, twf, rule="counter"):
    """Must-flow of fill volumes into the cumulative counter (interprocedural, bottom-up; the crate has no recursion).

    A *source* is a call of the trade writer (it returns the logged volume) or of a function that returns fills it has
    not yet counted.  On every path after a source, its result must be added either to the counter field of the
    receiver book (`self.trade_vol += r`: a sink) or to a local accumulator that is initialised to 0, only ever
    accumulates such results, and is itself flushed into the counter or returned (then the function *returns fills* and
    its call sites are sources in turn).  Every other write of the counter must be the reset (`= 0`)."""
    from analysis.origin import strip
    book = [f for f in ctx.prog.units() if f.crate.name == "bourse_book"]
    summary = {}          # fn path -> True if the function returns uncounted fills
    sinks = set()         # (fn path, block, stmt index) of recognised counter updates
    n_src = [0]

    def is_res(x, res):
        return x == res or (x[0] == "phi" and res in x[1])

    def add_of(v, res):
        """other operand if v is `o + res` (checked or plain add), else None"""
        if v[0] == "field" and v[2] == "0" and v[1][0] == "bin" and v[1][1] == "AddWithOverflow":
            v = v[1]
        elif not (v[0] == "bin" and v[1] == "Add"):
            return None
        if is_res(v[3], res):
            return v[2]
        if is_res(v[2], res):
            return v[3]
        return None

    def local_assigns(q):
        out = []
        for blk in q.body.blocks:
            if blk.cleanup:
                continue
            for i, st in enumerate(blk.stmts):
                if st.k == "assign" and st.place.is_local():
                    out.append((blk.i, i, st.place.local, strip(q.ev.rvalue(st.rv, (blk.i, i))), st.sp))
        return out

    def must_pass(q, frm, blocks):
        exits = set(q.body.return_blocks()) | set(q.body.loop_heads())
        nxt = q.body.succs(frm)
        nxt = [x for x in nxt if not q.body.blocks[x].cleanup]
        if not nxt:
            return False
        reach = q.cfg.reach_from(nxt[0])
        return all(q.cfg.all_paths_pass(nxt[0], e, blocks) for e in exits if e in reach)

    def counter_step(q, x, res):
        """memory write x is `self.counter += res`"""
        o = add_of(x.val, res)
        return o is not None and x.field == m.f_tradevol and x.root[0] == "param" and fld(o, m.f_tradevol) and field_chain(o)[0][0] == "param"

    def judge(q, c, res, what, depth=0):
        """-> 'counted' | 'returned' | None (lost) for the value `res` produced at block c_b"""
        steps = [x for x in q.writes(field=m.f_tradevol) if counter_step(q, x, res)]
        for x in steps:
            if must_pass(q, c, [x.b]):
                sinks.add((q.fn.path, x.b, x.i))
                return "counted"
        # the function's own result IS the value (a pass-through wrapper)
        rets = q.body.return_blocks()
        if rets and all(is_res(strip(q.ev.local_val(0, q.ev.term_at(rb))), res) for rb in rets if rb in q.cfg.reach_from(c)) \
                and any(rb in q.cfg.reach_from(c) for rb in rets):
            return "returned"
        # local accumulators
        for (b, i, l, v, sp) in local_assigns(q):
            o = add_of(v, res)
            if o is None or not must_pass(q, c, [b]):
                continue
            if o != strip(q.ev.local_val(l, (b, i if v[0] != "field" else i))) and not _reads_local(q, b, i, l):
                continue
            # every other definition of the accumulator: 0 or another accumulation step
            others_ok = True
            for (b2, i2, l2, v2, _sp2) in local_assigns(q):
                if l2 != l or (b2, i2) == (b, i):
                    continue
                if v2[0] == "const" and v2[3] == 0:
                    continue
                if (v2[0] == "field" and v2[1][0] == "bin" and v2[1][1] == "AddWithOverflow") or (v2[0] == "bin" and v2[1] == "Add"):
                    continue
                others_ok = False
            if not others_ok or depth > 2:
                continue
            # outflow of the accumulator
            acc_ok = None
            for x in q.writes(field=m.f_tradevol):
                vv = x.val
                if vv[0] == "field" and vv[1][0] == "bin":
                    vv = vv[1]
                if vv[0] == "bin" and vv[1] in ("Add", "AddWithOverflow") and x.root[0] == "param" and fld(vv[2], m.f_tradevol) \
                        and vv[3] == strip(q.ev.local_val(l, (x.b, x.i if x.i is not None else 0))) and must_pass_ret(q, c, [x.b]):
                    sinks.add((q.fn.path, x.b, x.i))
                    acc_ok = "counted"
            if acc_ok is None:
                rr = [rb for rb in rets if rb in q.cfg.reach_from(c)]
                if rr and all(strip(q.ev.local_val(0, q.ev.term_at(rb))) == strip(q.ev.local_val(l, q.ev.term_at(rb))) for rb in rr):
                    acc_ok = "returned"
            if acc_ok:
                return acc_ok
        return None

    def _reads_local(q, b, i, l):
        """the add at (b, i) reads local l as its other operand (MIR-level: `T = AddWithOverflow(copy l, _); l = move T.0`)"""
        st = q.body.blocks[b].stmts[i]
        rv = st.rv
        def uses(rv2):
            return any(o.k in ("copy", "move") and o.place.is_local() and o.place.local == l for o in rv2.ops)
        if rv.k == "bin":
            return uses(rv)
        if rv.k == "use" and rv.ops and rv.ops[0].k in ("copy", "move") and rv.ops[0].place.proj:
            t = rv.ops[0].place.local
            for d in q.ev.def_sites().get(t, []):
                if d[0] == "s":
                    st2 = q.body.blocks[d[1]].stmts[d[2]]
                    if st2.rv.k == "bin" and uses(st2.rv):
                        return True
        return False

    def must_pass_ret(q, frm, blocks):
        nxt = [x for x in q.body.succs(frm) if not q.body.blocks[x].cleanup]
        if not nxt:
            return False
        reach = q.cfg.reach_from(nxt[0])
        return all(q.cfg.all_paths_pass(nxt[0], e, blocks) for e in q.body.return_blocks() if e in reach)

    def returns_fills(f, stack=()):
        if f.path in summary:
            return summary[f.path]
        if f.path in stack:
            return False
        summary[f.path] = False
        q = m.q(f)
        ret = False
        for c in q.calls():
            t = c.target
            if t is None or t.crate.name != "bourse_book":
                continue
            src = t.path == twf.path or (t.path != f.path and returns_fills(t, stack + (f.path,)))
            if not src:
                continue
            n_src[0] += 1
            v = judge(q, c.b, c.result, c.name)
            key = "%s|%s" % (f.short(), c.name)
            if v == "counted":
                ctx.ok(rule, c.loc(), "the volume returned by %s is added to self.%s on every path after the call" % (c.name, m.f_tradevol))
            elif v == "returned":
                ctx.ok(rule, c.loc(), "the volume returned by %s is accumulated and returned to the caller (judged at %s's call sites)" % (c.name, f.short()))
                ret = True
            else:
                ctx.bad(rule, "update|" + key, c.loc(),
                        "the fill volume returned by %s is neither added to self.%s nor accumulated into the function's result on every path "
                        "after the call: these trades are logged but missing from the cumulative counter" % (c.name, m.f_tradevol))
        summary[f.path] = ret
        return ret

    for f in book:
        if f.kind == "Closure":
            continue
        returns_fills(f)
    for f in book:
        if summary.get(f.path) and (f.pub or not m.w.callers(f)) and f.path != twf.path:
            ctx.bad(rule, "escapes|" + f.short(), ctx.loc(f), "%s returns fill volume that was not added to the counter, and it is an API entry / has no caller that counts it" % f.short())
    ctx.check(n_src[0] >= 1, rule, "census", "-", "%d fill-volume sources followed to the counter" % n_src[0])
    reset_rule(ctx, m, rule)
    # other writers of the counter
    for f in book:
        fq = m.q(f)
        for x in fq.writes(field=m.f_tradevol, owner="OrderBook"):
            is_reset = x.val[0] == "const" and x.val[3] == 0
            okw = (f.path, x.b, x.i) in sinks or is_reset
            ctx.check(okw, rule, "writer|" + f.short(), x.loc(),
                      "counter writer is a fill update or the reset (= 0): %s" % x.text(),
                      "unexpected write to the cumulative counter: %s" % x.text())


def reset_rule(ctx, m, rule):
    """the reset entry really resets: OrderBook::reset_trade_vol writes counter := 0 unconditionally (and nothing else);
    Market::reset_trade_vols reaches it for every book (fan-out is C13/C14's sibling rule)"""
    try:
        f = m.book_fn("reset_trade_vol")
    except Exception:
        ctx.lost(rule, "OrderBook::reset_trade_vol (the reset the environments call at the start of a step)")
        return
    q = m.q(f)
    ws = [x for x in q.writes() if x.root[0] == "param"]
    zero = [x for x in ws if x.field == m.f_tradevol and x.val[0] == "const" and x.val[3] == 0 and not x.guards]
    ctx.check(len(zero) >= 1 and len(ws) == len(zero) and not [c for c in q.calls() if c.target is not None], rule, "reset-body", ctx.loc(f),
              "reset_trade_vol sets self.%s = 0 unconditionally and writes nothing else" % m.f_tradevol,
              "reset_trade_vol does not (only) reset the counter: writes %s" % ("; ".join(x.text() for x in ws) or "nothing"))
    g = m.book_fn("get_trade_vol")
    ctx.check(fld(m.q(g).ret(), m.f_tradevol), rule, "getter", ctx.loc(g), "get_trade_vol returns the counter field")


def push_formal(q, push):
    """name of the trade writer's parameter that receives the log"""
    a = push.args[0]
    root, _ = field_chain(a)
    return root[2] if root[0] == "param" else None
