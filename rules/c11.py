"""C11 – recorded histories complete, aligned, faithful (DESIGN.md §4 C11)."""
from analysis.origin import render, field_chain, walk
from analysis.typestate import same
from .model import Model, fld, RECORDS
from .stepmodel import StepShape

LEVEL = "other"
MIN_OBLIGATIONS = 30
EXPLANATION = (
    "append_record: each of the 4 + 4*N series receives exactly one push per call (4 straight-line pushes, 4 pushes in a "
    "loop over the full range 0..N whose body is straight-line); side-qualifier and quantity agreement for all 8 pushes "
    "(.0 series from bid fields, .1 from ask; volumes from the level tuple's .0, counts from .1; same level index on both "
    "sides of the push). step (single and multi asset): exactly one append_record per asset per step from the snapshot "
    "refreshed in that step, and one traded-volume push fed from the book's counter read after the processing loop, with "
    "matching asset indexes; no other function writes those vectors. Getters return the series their name says "
    "(touch = level 0; volumes vs order counts; bid .0 / ask .1; asset parameter used as the index).")

PUSH_TABLE = {  # series field path -> (record field, tuple component or None)
    ("prices", "0"): ("bid_price", None), ("prices", "1"): ("ask_price", None),
    ("volumes", "0"): ("bid_vol", None), ("volumes", "1"): ("ask_vol", None),
    ("volumes_at_levels", "0"): ("bid_price_levels", "0"), ("orders_at_levels", "0"): ("bid_price_levels", "1"),
    ("volumes_at_levels", "1"): ("ask_price_levels", "0"), ("orders_at_levels", "1"): ("ask_price_levels", "1"),
}


def names_of(e):
    root, names = field_chain(e)
    return root, [n for n in names if not n.startswith("as ")]


def run(ctx):
    m = Model(ctx)
    # conventions come from the declared field docs: .0 bid, .1 ask ("Bid-ask ... histories")
    rec_fields = {x["name"]: x for x in ctx.prog.adt_fields(RECORDS)}
    ctx.check(set(rec_fields) == {"prices", "volumes", "volumes_at_levels", "orders_at_levels"}, "records", "fields", "-",
              "Level2DataRecords has the four (bid, ask) series groups", "Level2DataRecords fields: %s" % sorted(rec_fields))
    ap = ctx.prog.method("Level2DataRecords", "append_record", crate="bourse_de")
    q = m.qi(ap)    # a private per-level helper is spliced in
    pushes = q.calls("push")
    ctx.check(len(pushes) == 8, "append", "count", ctx.loc(ap), "append_record has 8 push sites (4 scalar series + 4 per-level series)", "append_record has %d push sites" % len(pushes))
    # the level loop(s), read through their symbolic item (analysis/iterelem.py): `for i in 0..N`,
    # `iter().zip(..).enumerate()`, one loop for all four per-level series or one loop each (a shared helper) all give
    # "position i of the level arrays"; restricting / reordering adapters are not interpreted
    from analysis.iterelem import loop_item, rewrite, I
    l2_fields = {x["name"]: x["ty"] for x in ctx.prog.adt_fields("bourse_book::types::Level2Data")}
    heads = list(q.body.loop_heads())
    loops = {}
    for h in heads:
        body_h = q.body.loop_body(h)
        nx = [c for c in q.calls("next") if c.b in body_h]
        sym, bounds = loop_item(q, nx[0]) if len(nx) == 1 else (None, [])
        rng_ok = sym is not None and bool(bounds)
        for bd in bounds:
            if bd[0] == "range":
                rng_ok = rng_ok and bd[2][0] == "const" and "N" in str(bd[2][2])
            elif bd[0] == "take":
                rng_ok = False
            else:
                root, ns = names_of(bd[1])
                ty = l2_fields.get(ns[-1], "") if ns and root[0] == "param" and root[2] == "record" else (rec_fields.get(ns[0], {}).get("ty", "") if ns and root[0] == "param" and root[1] == 1 else "")
                rng_ok = rng_ok and ("; N]" in ty)
        loops[h] = (nx[0] if len(nx) == 1 else None, sym, body_h)
        ctx.check(rng_ok, "append", "full-range", nx[0].loc() if nx else ctx.loc(ap), "the level loop visits every published level 0..N exactly once (%s)" % ("; ".join(b[0] for b in bounds) or "-"),
                  "the level loop does not range over exactly the N published levels (restricting / unrecognised iterator chain)")
        ctx.check(q.cfg.loop_runs_to_completion(h)[0], "append", "one-loop", nx[0].loc() if nx else ctx.loc(ap), "the level loop runs over every level (no early exit), straight-line body",
                  "append_record's level loop can be left early")
    ctx.check(1 <= len(heads) <= 4 and not any(h2 != h and h2 in loops[h][2] for h in heads for h2 in heads), "append", "loops", ctx.loc(ap),
              "%d level loop(s), not nested" % len(heads), "append_record has %d loops / nested loops" % len(heads))
    seen = set()
    for c in pushes:
        a0, a1 = c.args[0], c.args[1]
        mine = [h for h in heads if c.b in loops[h][2]]
        nxt, sym = (loops[mine[0]][0], loops[mine[0]][1]) if mine else (None, None)
        if sym is not None:
            a0, a1 = rewrite(a0, nxt, sym), rewrite(a1, nxt, sym)
        root, tgt = names_of(a0)
        _r2, src = names_of(a1)
        key = tuple(x for x in tgt if x != "[]")[:2]
        want = PUSH_TABLE.get(key)
        lvl = "[]" in tgt
        ok = want is not None and root[0] == "param" and root[1] == 1
        if ok:
            srcn = [x for x in src if x != "[]"]
            ok = srcn[:1] == [want[0]] and (srcn[1:] == ([want[1]] if want[1] is not None else []))
            ok = ok and (("[]" in src) == lvl)
            ok = ok and _r2[0] == "param" and _r2[2] == "record"
        if ok and lvl:
            # same position on both sides, and it is the loop position
            i1 = [x for x in walk(a0) if x[0] == "index"]
            i2 = [x for x in walk(a1) if x[0] == "index"]
            ok = bool(i1 and i2) and i1[0][2] == I and i2[0][2] == I
        in_loop = q.cfg.in_loop(c.b)
        # (the only conditions: this loop still has an item; an earlier level loop has run to its end)
        only_some = all(a[0] == "variant" and a[1][0] == "call" and a[1][4] == "next" and
                        (a[2] == ("Some",) if (nxt is not None and a[1] == nxt.result) else a[2] == ("None",)) for a in c.guards)
        ok = ok and (in_loop == lvl) and only_some
        seen.add(key)
        ctx.check(ok, "append", "push|%s" % ".".join(key), c.loc(), "self.%s%s <- record.%s%s" % (".".join(key), "[i]" if lvl else "", want[0] if want else "?", ("[i].%s" % want[1]) if want and want[1] else ""),
                  "series %s is fed from %s [%s]" % (render(a0), render(a1), c.gtext()))
    ctx.check(seen == set(PUSH_TABLE), "append", "all-series", ctx.loc(ap), "all 8 series groups are appended to", "series without a push: %s" % sorted(set(PUSH_TABLE) - seen))

    step_rules(ctx, m, (("Env", m.env_fn, "order_book"), ("MarketEnv", m.menv_fn, "market")))
    # "per-step traded volume = volume of the trades stamped within the step": the recorded value is the book's
    # cumulative counter (reset at the start of the step), so every fill must reach that counter (rule shared with C03)
    from . import c03
    tw = m.trade_writers()
    # .. and "the trades time-stamped within step j" are the trades executed in step j: every trade carries the book clock at
    # execution (rule shared with C03)
    c03.record_time_rules(ctx, m, rule="trade-time")
    if len(tw) == 1:
        c03.fill_flow(ctx, m, tw[0][0], rule="traded-volume-counter")
    else:
        ctx.lost("traded-volume-counter", "exactly one trade writer expected, found %d" % len(tw))
    # "entry j equals the corresponding value of the live book": what is recorded is the level-2 snapshot, so the snapshot
    # feeds (OrderBook::level_2_data, and Market::level_2_data for every asset) must be composed of exactly the live book's own
    # queries of the same side and quantity, unconditionally (rule shared with C02 / C14)
    from . import c02
    from .c06 import _Prefixed
    c02.views(_Prefixed(ctx, "feed-"), m)


def step_rules(ctx, m, owners):
    """recording rules of the step functions and the getters, per environment type"""
    # ---------------------------------------------------------------- step
    for owner, getter, obj in owners:
        f = getter("step")
        s = StepShape(m, f, obj)
        sq = s.q
        tag = owner + "::step"
        if s.head is None:
            ctx.lost("step", tag + " processing loop")
            continue
        adt = "bourse_de::env::Env" if owner == "Env" else "bourse_de::market_env::MarketEnv"
        fields = m.deep_fields(adt)
        rec_f = [n for n, t in fields.items() if "Level2DataRecords" in t]
        snap_f = [n for n, t in fields.items() if "Level2Data<" in t and "Records" not in t]
        tv_f = [n for n, t in fields.items() if "Vec<u32>" in t]
        if not (len(rec_f) == len(snap_f) == len(tv_f) == 1):
            ctx.lost("step", "%s record/snapshot/trade-volume fields (%s %s %s)" % (owner, rec_f, snap_f, tv_f))
            continue
        rec_f, snap_f, tv_f = rec_f[0], snap_f[0], tv_f[0]
        aps = [c for c in sq.calls("append_record")]
        after = lambda c: c.b not in s.body and sq.cfg.strictly_after(s.head, c.b)  # noqa: E731
        # the recorded per-step volume is the cumulative counter: it must be reset at the start of EVERY step (an idle step with
        # nothing queued records 0, not the previous step's volume)
        ctx.check(len(s.resets) == 1 and not s.resets[0].guards and sq.body.dominates(s.resets[0].b, s.head), "step", tag + "|reset-every-step",
                  s.resets[0].loc() if s.resets else ctx.loc(f), "the traded-volume counter is reset once, unconditionally, before the processing loop",
                  "the traded-volume counter reset is %s: an idle step would record the previous step's volume again" % (
                      "conditional on [%s]" % s.resets[0].gtext() if s.resets and s.resets[0].guards else "missing / repeated / not before the loop"))
        # the per-asset recording loop (multi-asset): read through its symbolic item, so that `enumerate().take(ASSETS)`,
        # `for asset in 0..ASSETS` and a zip over the per-asset arrays all mean "position i of every per-asset array"
        from analysis.iterelem import loop_item, rewrite, I as POS
        rec_next = [c for c in sq.calls("next") if c.b != s.loop_next.b and sq.cfg.in_loop(c.b) and after(c)]
        # (one loop for both per-asset series or one loop each: every call is read through the item of ITS loop)
        loop_syms = {}
        for nx in rec_next:
            hs_ = sorted(sq.cfg.loops_containing(nx.b), key=lambda h: len(sq.body.loop_body(h)))
            if owner != "Env" and hs_:
                sy, bd = loop_item(sq, nx)
                loop_syms[hs_[0]] = (nx, sy, bd, sq.body.loop_body(hs_[0]))

        def loop_of(c):
            for h_, (nx, sy, bd, body_) in loop_syms.items():
                if c.b in body_:
                    return h_
            return None

        def rw(e, c=None):
            h_ = loop_of(c) if c is not None else (next(iter(loop_syms)) if len(loop_syms) == 1 else None)
            if h_ is None or loop_syms[h_][1] is None:
                return e
            return rewrite(e, loop_syms[h_][0], loop_syms[h_][1])
        tvp = [c for c in sq.calls("push") if fld(rw(c.args[0], c), tv_f) or any(fld(x, tv_f) for x in walk(rw(c.args[0], c)) if x[0] == "field")]
        ctx.check(len(aps) == 1 and after(aps[0]), "step", tag + "|append-once", aps[0].loc() if aps else ctx.loc(f), "one append_record per step, after the processing loop",
                  "%d append_record calls / not after the loop" % len(aps))
        ctx.check(len(tvp) == 1 and after(tvp[0]), "step", tag + "|tradevol-once", tvp[0].loc() if tvp else ctx.loc(f), "one traded-volume push per step, after the processing loop",
                  "%d traded-volume pushes / not after the loop" % len(tvp))
        if len(aps) != 1 or len(tvp) != 1:
            continue
        a, t = aps[0], tvp[0]
        if owner == "Env":
            # (the record appended is the snapshot field, or the very value `self.<book>.level_2_data()` the snapshot is refreshed from)
            l2calls = [c for c in sq.calls("level_2_data") if c.args and fld(c.args[0], obj)]
            live_val = a.args[1][0] == "call" and a.args[1][4] == "level_2_data" and a.args[1][2] and fld(a.args[1][2][0], obj) and bool(l2calls) and all(after(c) for c in l2calls)
            ok = fld(a.args[0], rec_f) and (fld(a.args[1], snap_f) or live_val) and not sq.cfg.in_loop(a.b)
            ctx.check(ok, "step", tag + "|append-args", a.loc(), "append_record(self.%s <- &self.%s)" % (rec_f, snap_f), "append_record called as %s" % a.text())
            v = t.args[1]
            ok = v[0] == "call" and v[4] == "get_trade_vol" and fld(v[2][0], obj) and not sq.cfg.in_loop(t.b)
            ctx.check(ok, "step", tag + "|tradevol-src", t.loc(), "traded volume <- self.%s.get_trade_vol() read after the loop" % obj, "traded volume <- %s" % render(v))
            gv = [c for c in sq.calls("get_trade_vol")]
            ctx.check(all(after(c) for c in gv), "step", tag + "|tradevol-after", t.loc(), "the counter is read after the processing loop")
        else:
            # coverage: every asset, once (each loop that records something)
            used = sorted({h_ for h_ in (loop_of(a), loop_of(t)) if h_ is not None})
            ok = len(used) >= 1 and loop_of(a) is not None and loop_of(t) is not None and all(loop_syms[h_][1] is not None for h_ in used)
            cover = []
            if ok:
              for h_ in used:
                bounds = loop_syms[h_][2]
                for bd in bounds:
                    if bd[0] == "range":
                        ok = ok and bd[1][0] == "const" and bd[1][3] == 0 and bd[2][0] == "const" and "ASSETS" in str(bd[2][2])
                        cover.append("0..ASSETS")
                    elif bd[0] == "take":
                        ok = ok and "ASSETS" in str(bd[1][2])
                        cover.append("take(ASSETS)")
                    else:
                        # a per-asset array of the environment / the market's per-asset result
                        x = bd[1]
                        okc = fld(x, rec_f) or fld(x, snap_f) or fld(x, tv_f) or (x[0] == "call" and x[4] == "get_trade_vols" and fld(x[2][0], obj)) or \
                            any(fld(y, rec_f) or fld(y, snap_f) or fld(y, tv_f) for y in walk(x) if y[0] == "field")
                        ok = ok and okc
                        cover.append(render(x)[:30])
                ok = ok and sq.cfg.loop_runs_to_completion(h_)[0]
            ctx.check(ok, "step", tag + "|asset-loop", rec_next[0].loc() if rec_next else ctx.loc(f), "per-asset recording loop covers every asset once (%s)" % ", ".join(cover),
                      "per-asset recording loop not recognised / restricted")
            if ok:
                a0, a1, t0, tv = rw(a.args[0], a), rw(a.args[1], a), rw(t.args[0], t), rw(t.args[1], t)
                i0 = [x for x in walk(a0) if x[0] == "index"]
                i1 = [x for x in walk(a1) if x[0] == "index"]
                i2 = [x for x in walk(t0) if x[0] == "index"]
                okx = bool(i0 and i1 and i2) and all(x[0][2] == POS for x in (i0, i1, i2)) and fld(i0[0][1], rec_f) and fld(i1[0][1], snap_f) and fld(i2[0][1], tv_f)
                ctx.check(okx, "step", tag + "|asset-index", a.loc(), "records[i] <- snapshot[i] and trade_vols[i] use the same asset position i",
                          "asset positions differ: %s / %s / %s" % (render(a0), render(a1), render(t0)))
                while tv[0] in ("conv", "cast"):
                    tv = tv[1] if tv[0] == "conv" else tv[2]
                okv = tv[0] == "index" and tv[2] == POS and tv[1][0] == "call" and tv[1][4] == "get_trade_vols" and fld(tv[1][2][0], obj)
                ctx.check(okv, "step", tag + "|tradevol-src", t.loc(), "trade_vols[i] <- get_trade_vols()[i]", "trade_vols[i] <- %s" % render(tv))
                gv = [c for c in sq.calls("get_trade_vols")]
                ctx.check(len(gv) == 1 and after(gv[0]), "step", tag + "|tradevol-after", gv[0].loc() if gv else ctx.loc(f), "the counters are read after the processing loop")
        # snapshot refreshed before recording in the same step (C10 checks its source)
        sw = [w for w in sq.writes(field=snap_f) if w.root[0] == "param"]
        reads_ = [c for c in sq.calls("level_2_data") if c.args and fld(c.args[0], obj)]
        ctx.check(bool(reads_) and all(after(c) for c in reads_), "step", tag + "|fresh-read", a.loc(), "the live level-2 data that is recorded is read after the processing loop",
                  "the level-2 data that is recorded is read from the book before the batch is processed (the entry is stale)")
        # (or the record is that refreshed value itself: both the append and the snapshot write take `level_2_data()` of the live
        #  book computed after the loop - then their order does not matter)
        same_value = owner == "Env" and len(sw) == 1 and a.args[1][0] == "call" and a.args[1][4] == "level_2_data" and same(sw[0].val, a.args[1]) and \
            all(after(c) for c in sq.calls("level_2_data") if c.args and fld(c.args[0], obj))
        ctx.check(len(sw) == 1 and (sq.body.dominates(sw[0].b, a.b) or same_value), "step", tag + "|fresh-snapshot", a.loc(), "the recorded snapshot is the one refreshed in this step")
        # no other writers of the record vectors
        for g in ctx.prog.find(crate="bourse_de", adt=owner):
            if g.impl_trait is not None or g.name in ("step", "new") or not g.pub:
                continue  # private helpers are accounted to the public function that calls them (transitive summaries)
            sm = m.w.effects.summary(g)
            bad = [w for w in sm["writes"] if w[0] == 1 and w[1] and w[1][0] in (rec_f, tv_f)]
            ctx.check(not bad, "writers", "%s::%s" % (owner, g.name), ctx.loc(g), "%s::%s does not write the recorded series" % (owner, g.name), "%s::%s writes %s" % (owner, g.name, bad))
        # getters
        getters = {"get_prices": ("prices", None), "get_volumes": ("volumes", None), "get_touch_volumes": ("volumes_at_levels", 0), "get_touch_order_counts": ("orders_at_levels", 0)}
        for gname, (series, lvl) in getters.items():
            g = getter(gname)
            r = m.qi(g).ret()
            if lvl is None:
                root, ns = names_of(r)
                ns2 = [x for x in ns if x != "[]"]
                ok = ns2[-2:] == [rec_f, series] and root[0] == "param"
                if owner == "MarketEnv":
                    ix = [x for x in walk(r) if x[0] == "index"]
                    ok = ok and len(ix) == 1 and ix[0][2][0] == "param" and ix[0][2][2] == "asset"
                ctx.check(ok, "getters", "%s::%s" % (owner, gname), ctx.loc(g), "%s returns self.%s%s.%s" % (gname, rec_f, "[asset]" if owner == "MarketEnv" else "", series), "%s returns %s" % (gname, render(r)))
            else:
                ok = r[0] == "agg" and r[1] == "tuple" and len(r[3]) == 2
                if ok:
                    for side, e in enumerate(r[3]):
                        root, ns = names_of(e)
                        ns2 = [x for x in ns if x != "[]"]
                        ok = ok and ns2[-3:] == [rec_f, series, str(side)] and root[0] == "param"
                        ci = [x for x in walk(e) if x[0] == "cindex"] + [x for x in walk(e) if x[0] == "index" and x[2][0] == "const"]
                        ok = ok and len(ci) == 1 and (ci[0][2] == 0 if ci[0][0] == "cindex" else ci[0][2][3] == 0)
                        if owner == "MarketEnv":
                            ix = [x for x in walk(e) if x[0] == "index" and x[2][0] == "param"]
                            ok = ok and len(ix) == 1 and ix[0][2][2] == "asset"
                ctx.check(ok, "getters", "%s::%s" % (owner, gname), ctx.loc(g), "%s returns (bid, ask) of self.%s%s.%s at level 0" % (gname, rec_f, "[asset]" if owner == "MarketEnv" else "", series),
                          "%s returns %s" % (gname, render(r)))
        g = getter("get_trade_vols")
        r = m.qi(g).ret()
        root, ns = names_of(r)
        ok = [x for x in ns if x != "[]"][-1:] == [tv_f]
        if owner == "MarketEnv":
            ix = [x for x in walk(r) if x[0] == "index"]
            ok = ok and len(ix) == 1 and ix[0][2][0] == "param" and ix[0][2][2] == "asset"
        ctx.check(ok, "getters", "%s::get_trade_vols" % owner, ctx.loc(g), "get_trade_vols returns self.%s%s" % (tv_f, "[asset]" if owner == "MarketEnv" else ""), "get_trade_vols returns %s" % render(r))
        g = getter("get_level_2_data_history")
        r = m.qi(g).ret()
        root, ns = names_of(r)
        ok = [x for x in ns if x != "[]"][-1:] == [rec_f]
        ctx.check(ok, "getters", "%s::get_level_2_data_history" % owner, ctx.loc(g), "get_level_2_data_history returns self.%s" % rec_f, "returns %s" % render(r))
    ctx.note("per-step traded volume = volume of the step's trades follows from C03's counter rule plus the reset dominating the loop (C08); it additionally needs batch <= step size")
