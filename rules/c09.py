"""C09 – a simulation is a pure function of seed and parameters (DESIGN.md §4 C09)."""
import re
from analysis.origin import render, field_chain, walk
from .model import Model, fld
from .c15 import lock_entry

LEVEL = "other"
MIN_OBLIGATIONS = 30
EXPLANATION = (
    "Effect analysis by reachability: from the roots {both runners, both step functions, every Agent / MarketAgent / "
    "AgentSet / MarketAgentSet::update impl, the agent helper functions, the PyO3 step and constructors} no call path reaches "
    "a deny-listed source of nondeterminism (thread_rng, random(), OsRng, from_entropy, getrandom, SystemTime/Instant::now, "
    "process-wide once-initialised or shared mutable statics (OnceLock, Lazy, atomics, Mutex), "
    "std::env, std::thread, file/network I/O, available_parallelism, RandomState / HashMap / HashSet construction or "
    "iteration, pointer-to-integer casts, pointer formatting, TypeId/type_name). Generator threading: every draw site takes "
    "its generator argument from the enclosing function's own generator parameter (through reborrows and closure captures); "
    "generators are constructed only in the two runners and the PyO3 constructors, once each, by seed_from_u64(<seed "
    "parameter>); the two progress-bar branches of each runner make the same calls with the same arguments. Cargo.lock pins "
    "rand / rand_xoshiro / rand_distr. 'Different seeds give different runs' is a statement about generator output and is "
    "not decided.")

DENY = [
    (r"thread_rng|ThreadRng", "thread-local OS-seeded generator"),
    (r"^rand::random$|rand::random\b", "rand::random()"),
    (r"OsRng|from_entropy|getrandom", "OS entropy"),
    (r"SystemTime|Instant::now|time::Instant|UNIX_EPOCH", "wall-clock time"),
    (r"^std::env::|std::env::", "process environment"),
    (r"std::thread::|available_parallelism|rayon", "threads"),
    (r"std::fs::|std::net::|std::io::stdin|File::", "file / network I/O"),
    (r"RandomState|collections::hash|HashMap|HashSet", "hash-order dependent collection"),
    (r"OnceLock|OnceCell|LazyLock|LazyCell|lazy_static|once_cell|sync::Once\b|Once::call_once|thread_local|LocalKey", "process-wide / thread-wide state initialised once (the first run decides what later runs see)"),
    (r"sync::atomic|Atomic(U|I|Bool|Ptr)|sync::Mutex|sync::RwLock|Mutex<|RwLock<", "shared mutable state outliving a run"),
    (r"TypeId|type_name", "type identity"),
    (r"fmt::Pointer|pointer::fmt|as_ptr|addr\(\)", "address-dependent value"),
]
EXEMPT_CRATES = {"kdam": "progress bar display only: its iterator adapter yields the wrapped range unchanged; nothing it returns reaches the simulation"}
RNG_CRATES = ("rand", "rand_core", "rand_distr", "rand_xoshiro", "rand_chacha")
CONSTRUCT = ("seed_from_u64", "from_seed", "from_rng", "from_entropy")


def roots(ctx, m):
    out = []
    for f in ctx.prog.units():
        if f.crate.name == "bourse_de":
            if f.name in ("sim_runner", "market_sim_runner") and f.kind == "Fn":
                out.append(f)
            if f.name == "step" and (f.impl_adt or "").split("::")[-1] in ("Env", "MarketEnv"):
                out.append(f)
            if f.name == "update" and (f.impl_trait or "").split("::")[-1] in ("Agent", "MarketAgent", "AgentSet", "MarketAgentSet"):
                out.append(f)
            if f.kind == "Fn" and "::agents::common::" in f.path:
                out.append(f)
            # constructing the environment and the agents is part of "a simulation as a function of seed and parameters"
            if f.name == "new" and f.pub and ("::agents::" in f.path or (f.impl_adt or "").split("::")[-1] in ("Env", "MarketEnv")):
                out.append(f)
        # compositions through the derive macros: the generated update bodies live in the deriving crate (the workspace's own
        # derive sites are in the integration-test crate), and are simulation code like any hand-written update
        if f.crate.name == "bourse":
            if f.name in ("step", "new") and (f.impl_adt or "").split("::")[-1] in ("StepEnv", "StepEnvNumpy"):
                out.append(f)
    # compositions through the derive macros: the generated update bodies live in the deriving crate (the workspace's own
    # derive sites are in the integration-test crate) and are simulation code like any hand-written update
    for tc in ctx.prog.tests.values():
        for f in tc.fns:
            if f.name == "update" and (f.impl_trait or "").split("::")[-1] in ("AgentSet", "MarketAgentSet"):
                out.append(f)
    return out


def run(ctx):
    m = Model(ctx)
    rs = roots(ctx, m)
    derived = [f for f in rs if f.crate.name not in ("bourse_de", "bourse")]
    ctx.check(len(derived) >= 2, "roots", "derived", "-", "%d macro-generated AgentSet / MarketAgentSet update bodies are simulation roots (%s)" % (len(derived), ", ".join(sorted({f.crate.name for f in derived}))),
              "no macro-generated update body found among the extracted crates (derive sites of tests/test_macros.rs expected)")
    ctx.check(len(rs) >= 14, "roots", "count", "-", "%d simulation roots (runners, steps, %d update impls, helpers, PyO3 step/new)" % (
        len(rs), sum(1 for f in rs if f.name == "update")), "only %d simulation roots found" % len(rs))
    reach, n_calls = deny_rules(ctx, m, rs)
    ctx.extra["reachable_functions"] = len(reach)
    for cr, why in EXEMPT_CRATES.items():
        used = sorted({f.short() for f in reach for c in m.q(f).calls() if (c.term.j.get("callee_crate") or "") == cr})
        only_runners = all(u.endswith("sim_runner") for u in used)
        ctx.check(only_runners, "deny-list", "exempt|" + cr, "-", "crate %s is used only in the runners' progress branch (%s)" % (cr, why), "crate %s is called from %s" % (cr, used))
    threading_rules(ctx, m)


def deny_rules(ctx, m, rs, what="the simulation roots"):
    """no deny-listed source of nondeterminism is reachable from the given roots (shared with C18: a StepEnv is deterministic
    in its seed)"""
    reach = m.w.reachable(rs)
    n_calls = 0
    hits = []
    for f in reach:
        q = m.q(f)
        for c in q.calls():
            n_calls += 1
            crate = c.term.j.get("callee_crate") or ""
            if crate in EXEMPT_CRATES:
                continue
            text = " ".join(str(x) for x in (c.term.j.get("callee"), c.term.j.get("resolved"), c.term.j.get("callee_dp"), c.term.j.get("resolved_dp")) if x)
            for pat, why in DENY:
                if re.search(pat, text):
                    hits.append((f, c, why))
                    break
        # pointer -> integer casts
        for blk in q.body.blocks:
            for st in blk.stmts:
                if st.k == "assign" and st.rv.k == "cast" and "ExposeProvenance" in st.rv.j.get("ck", "") and "Pointer" in st.rv.j.get("ck", ""):
                    if st.rv.j["ck"] == "PointerExposeProvenance":
                        hits.append((f, None, "pointer-to-integer cast at line %s" % st.sp["line"]))
    for f, c, why in hits:
        where = c.loc() if c is not None else ctx.loc(f)
        ctx.bad("deny-list", "%s|%s" % (f.short(), (c.name if c is not None else "cast")), where,
                "%s reaches a source of nondeterminism (%s): %s" % (f.short(), why, c.text()[:80] if c is not None else why))
    ctx.check(not hits, "deny-list", "clean", "-", "no deny-listed call among %d call sites in %d functions reachable from %s" % (n_calls, len(reach), what))
    return reach, n_calls


def threading_rules(ctx, m):
    # ---------------------------------------------------------------- generator threading
    n_draw = 0
    from .c19 import builder_view, PYCLASSES

    def helper_of_extension(f):
        """method of a helper type of the extension crate (not a Python class): analysed inside the pymethods that use it"""
        return f.crate.name == "bourse" and f.kind == "AssocFn" and f.impl_trait is None and (f.impl_adt or "").split("::")[-1].split("<")[0] not in PYCLASSES

    def view(f):
        return builder_view(m, f) if f.crate.name == "bourse" else m.q(f)
    lib_fns = [f for f in ctx.prog.units() if f.crate.name in ("bourse_de", "bourse") and not helper_of_extension(f)]
    for f in lib_fns:
        q = view(f)
        for c in q.calls():
            crate = c.term.j.get("callee_crate") or ""
            if crate not in RNG_CRATES or c.name in CONSTRUCT:
                continue
            # generator argument(s): &mut to a generic parameter or a concrete generator type
            gens = []
            for op, a in zip(c.term.args, c.args):
                ty = op.place.ty if op.place is not None else ""
                if ty.startswith("&mut ") and (re.fullmatch(r"&mut [A-Z]\w?", ty) or "Xoroshiro" in ty or "Rng" in ty):
                    gens.append((ty, a))
            if not gens:
                continue
            n_draw += 1
            for ty, a in gens:
                ok, why = own_generator(m, q, a)
                ctx.check(ok, "threading", "%s|%s" % (f.short(), c.name), c.loc(), "%s draws from %s" % (c.name, why),
                          "%s in %s draws from %s, which is not the generator handed to this function" % (c.name, f.short(), render(a)))
    ctx.check(n_draw >= 20, "threading", "census", "-", "%d draw sites in the simulation crates" % n_draw)
    # calls that pass a generator on to workspace functions: must pass the own generator too
    for f in lib_fns:
        q = view(f)
        for c in q.calls():
            if c.target is None and not (c.term.j.get("trait") or "").startswith("bourse_de::agents"):
                continue
            for i, (op, a) in enumerate(zip(c.term.args, c.args)):
                ty = op.place.ty if op.place is not None else ""
                formal = c.formals[i] if i < len(c.formals) else ""
                if ty.startswith("&mut ") and ((re.fullmatch(r"&mut [A-Z]\w?", ty) and formal.lstrip("_") == "rng") or "Xoroshiro" in ty):
                    ok, why = own_generator(m, q, a, allow_local_seeded=True)
                    ctx.check(ok, "threading", "pass|%s|%s" % (f.short(), c.name), c.loc(), "%s passes on %s" % (c.name, why),
                              "%s in %s is given the generator %s" % (c.name, f.short(), render(a)))
    # ---------------------------------------------------------------- construction sites
    cons = []
    for f in lib_fns:
        q = view(f)
        for c in q.calls():
            crate = c.term.j.get("callee_crate") or ""
            if c.name in CONSTRUCT or (crate in RNG_CRATES and c.name == "new" and "Rng" in c.resolved):
                cons.append((f, c))
    allowed_owner = lambda f: (f.crate.name == "bourse_de" and f.name in ("sim_runner", "market_sim_runner")) or (  # noqa: E731
        f.crate.name == "bourse" and f.name == "new" and (f.impl_adt or "").split("::")[-1] in ("StepEnv", "StepEnvNumpy"))
    per_fn = {}
    for f, c in cons:
        per_fn.setdefault(f.path, []).append(c)
        ok = allowed_owner(f) and c.name == "seed_from_u64" and c.args and c.args[0][0] == "param" and c.args[0][2] == "seed" and not c.guards and not view(f).cfg.in_loop(c.b)
        ctx.check(ok, "construction", f.short(), c.loc(), "%s seeds its generator once from its `seed` parameter" % f.short(),
                  "generator constructed in %s by %s" % (f.short(), c.text()))
    ctx.check(len(cons) >= 4 and all(len(v) == 1 for v in per_fn.values()), "construction", "census", "-", "%d generator construction sites (2 runners + PyO3 constructors), one per function" % len(cons))
    # ---------------------------------------------------------------- runner branches are siblings
    for name in ("sim_runner", "market_sim_runner"):
        f = ctx.prog.free_fn("bourse_de", name)
        q = m.qi(f)    # a private per-step helper (`advance(env, agents, rng)`) is spliced in
        arms = {}
        for c in q.calls():
            if c.name in ("update", "step"):
                prog = [a for a in c.guards if a[0] == "bool" and a[1][0] == "param" and a[1][2] == "show_progress"]
                key = prog[0][2] if prog else None
                arms.setdefault(key, []).append((c.name, tuple(render(a) for a in c.args), q.cfg.in_loop(c.b)))
        ok = set(arms) == {True, False} and sorted(arms[True]) == sorted(arms[False]) and [x[0] for x in sorted(arms[True], key=lambda x: x[0], reverse=True)] == ["update", "step"] \
            and all(x[2] for x in arms[True])
        ctx.check(ok, "runner", name + "|branches", ctx.loc(f), "both progress branches run update(env, &mut rng) then step(&mut rng) per iteration with identical arguments",
                  "the progress branches of %s differ: %s" % (name, arms))
        if ok:
            # order inside each arm: update dominates step
            for key in (True, False):
                cs = [c for c in q.calls(("update", "step")) if any(a[0] == "bool" and a[2] is key for a in c.guards)]
                u = [c for c in cs if c.name == "update"][0]
                s = [c for c in cs if c.name == "step"][0]
                ctx.check(q.body.dominates(u.b, s.b), "runner", "%s|order|%s" % (name, key), u.loc(), "agents update before the environment steps (progress=%s)" % key)
    # ---------------------------------------------------------------- lock pins
    for crate, ver in (("rand", "0.8.5"), ("rand_xoshiro", None), ("rand_distr", None)):
        ents = lock_entry(ctx.repo, crate)
        ok = ents is not None and len(ents) == 1 and ents[0][1] and (ver is None or ents[0][0] == ver)
        ctx.check(ok, "library", "pin|" + crate, "Cargo.lock", "Cargo.lock pins %s %s (checksum %s...)" % (crate, ents[0][0] if ents else "?", (ents[0][1] or "")[:12] if ents else ""),
                  "Cargo.lock does not pin a single %s version: %s" % (crate, ents))
    ctx.note("the only HashMap in the workspace is the keyed result dictionary of the PyO3 get_market_data (not reachable from the roots; keys are looked up, never iterated into results)")
    ctx.assume("rand / rand_distr / rand_xoshiro are deterministic functions of the generator state (trusted, pinned)")


def own_generator(m, q, a, allow_local_seeded=False):
    """is generator expression `a` the enclosing function's own generator parameter?"""
    root, names = field_chain(a)
    f = q.fn
    if root[0] == "param":
        l = root[1]
        ty = f.body.local_ty(l)
        if f.kind == "Closure" and l == 1:
            # captured generator: map to the creator's operand
            cap = names[0] if names else None
            for g in m.w.callers(f) + [m.prog.fns.get(f.root)]:
                if g is None:
                    continue
                for (cq, ops, cnames, _b) in m.q(g).closures():
                    if cq.fn.path == f.path and cap in cnames:
                        return own_generator(m, m.q(g), ops[cnames.index(cap)], allow_local_seeded)
            return False, "?"
        if (re.fullmatch(r"&mut [A-Z]\w?", ty) or (ty.startswith("&mut ") and ("Xoroshiro" in ty or ty.split("::")[-1].split("<")[0].endswith("Rng")))) and not names:
            return True, "its own generator parameter `%s`" % root[2]
        if l == 1 and names and ("StepEnv" in ty or "bourse::" in ty) and names[-1] == "rng":
            return True, "the environment's seeded generator self.%s" % ".".join(names)
        return False, "?"
    if root[0] == "local" and names:
        # a captured generator read through the closure object (closure spliced into its creator by the unit view):
        # continue with the captured operand
        l = root[1]
        defs = q.ev.def_sites().get(l, [])
        if len(defs) == 1 and defs[0][0] == "s":
            st = q.body.blocks[defs[0][1]].stmts[defs[0][2]]
            from analysis.origin import strip
            v = strip(q.ev.rvalue(st.rv, (defs[0][1], defs[0][2]))) if st.k == "assign" else ("unk",)
            if v[0] == "agg" and v[1] == "closure" and len(v) > 4 and len(names) == 1 and names[0] in list(v[4]):
                op = strip(v[3][list(v[4]).index(names[0])])
                return own_generator(m, q, op, allow_local_seeded)
    if root[0] == "local" and allow_local_seeded:
        l = root[1]
        defs = q.ev.def_sites().get(l, [])
        if len(defs) == 1 and defs[0][0] == "c":
            e = q.ev.call_expr(defs[0][1])
            if e[4] == "seed_from_u64":
                return True, "the generator seeded in this function"
    return False, "?"
