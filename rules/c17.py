"""C17 – momentum agents trade symmetrically in rising and falling markets (DESIGN.md §4 C17)."""
from analysis.origin import render, field_chain, walk, const_float
from analysis.typestate import same
from .model import Model, fld

LEVEL = "other"
MIN_OBLIGATIONS = 20
EXPLANATION = (
    "Abstract interpretation in the sign domain {-,0,+} of both momentum `update` bodies. The generator M is found by "
    "provenance (the value stored back into the agent's momentum field, which also flows into tanh and into the comparisons "
    "with 0.0). With the documented parameters positive and u in [0,1), for each forced sign of M the feasibility of every "
    "placement site is computed through its controlling conditions (`u < p` is feasible only if p may be positive): M > 0 must "
    "reach buy sites only, M < 0 sell sites only (both limit and market), M = 0 none; the probability compared with the draw "
    "must be non-negative for either sign (magnitude even in M). The recurrence stored into the momentum field has the "
    "documented form m(1-decay) + decay(P-p), the last price is updated to the observed mid-price, buy and sell branches make "
    "the same draws (mirror), and the single/multi-asset variants are siblings. Numeric values of the probability are not decided.")

POSITIVE = ("demand", "scale", "order_ratio", "n", "decay")


def sign(e, G, s):
    """set of possible signs of expression e when the generator G has sign s"""
    if same(e, G):
        return {s}
    t = e[0]
    if t == "const":
        v = const_float(e)
        if v is None:
            v = e[3] if isinstance(e[3], (int, float)) else None
        if v is None:
            return {-1, 0, 1}
        return {0 if v == 0 else (1 if v > 0 else -1)}
    if t == "field":
        if e[2] in POSITIVE:
            return {1}
        return {-1, 0, 1}
    if t == "phi":
        out = set()
        for a in e[1]:
            out |= sign(a, G, s)
        return out
    if t == "call":
        if e[4] == "tanh" and e[2]:
            return sign(e[2][-1], G, s)
        if e[4] == "abs" and e[2]:
            return {abs(x) for x in sign(e[2][0], G, s)}
        return {-1, 0, 1}
    if t == "conv" or t == "cast":
        return sign(e[1] if t == "conv" else e[2], G, s)
    if t == "un" and e[1] == "Neg":
        return {-x for x in sign(e[2], G, s)}
    if t == "bin":
        a, b = sign(e[2], G, s), sign(e[3], G, s)
        if e[1] in ("Mul", "Div"):
            if e[1] == "Div":
                b = b - {0} or {1}
            return {x * y for x in a for y in b}
        if e[1] == "Add":
            out = set()
            for x in a:
                for y in b:
                    out |= {x} if y == 0 else ({y} if x == 0 else ({x} if x == y else {-1, 0, 1}))
            return out
        if e[1] == "Sub":
            out = set()
            for x in a:
                for y in b:
                    out |= {x} if y == 0 else ({-y} if x == 0 else ({x} if x == -y else {-1, 0, 1}))
            return out
    return {-1, 0, 1}


def site_side(m, c):
    """'Bid' / 'Ask' of a placement call (direct place_order or a helper that places with a constant side)"""
    if c.name == "place_order":
        for a in c.args:
            if a[0] == "agg" and a[2].endswith("Side::Bid"):
                return "Bid"
            if a[0] == "agg" and a[2].endswith("Side::Ask"):
                return "Ask"
        return None
    for a in c.args:      # a helper taking the side as an argument
        if a[0] == "agg" and a[2].endswith("Side::Bid"):
            return "Bid"
        if a[0] == "agg" and a[2].endswith("Side::Ask"):
            return "Ask"
    if c.target is not None:
        sides = {site_side(m, x) for x in m.q(c.target).calls("place_order")}
        if len(sides) == 1:
            return sides.pop()
    return None


def site_kind(c):
    """'market' for a direct placement without a price, else 'limit'"""
    if c.name == "place_order":
        pr = [a for a in c.args if a[0] == "agg" and "Option::" in a[2]]
        if any(a[2].endswith("Option::Some") for a in pr):
            return "limit"
        return "market"
    return "limit"


def run(ctx):
    m = Model(ctx)
    ups = [f for f in ctx.prog.units() if f.name == "update" and f.crate.name == "bourse_de" and (f.impl_adt or "").split("::")[-1] in ("MomentumAgent", "MomentumMarketAgent")]
    ctx.check(len(ups) == 2, "anchor", "updates", "-", "both momentum update implementations found", "found %d momentum update impls" % len(ups))
    abstractions = {}
    for f in ups:
        q = m.qi(f)       # private helpers (a signal helper, a side-parametric placement method ..) spliced in
        tag = f.impl_adt.split("::")[-1]
        # generator: the value stored into the (single) f64 state field
        fw = [w for w in q.writes() if w.root[0] == "param" and w.root[1] == 1 and len(w.names) == 1]
        f64w = [w for w in fw if any(x[0] == "call" and x[4] == "mid_price" for x in walk(w.val)) and w.val[0] != "agg"]
        if len(f64w) != 1:
            ctx.lost("generator", "%s: momentum state write not found (%d candidates)" % (tag, len(f64w)))
            continue
        mw = f64w[0]
        M = mw.val
        mfield = mw.names[0]
        alts = [a for a in (M[1] if M[0] == "phi" else (M,)) if a[0] != "const"]
        if len(alts) != 1:
            ctx.lost("generator", "%s: cannot isolate the recurrence in %s" % (tag, render(M)))
            continue
        G = alts[0]
        # recurrence form
        ok = False
        mid = last = None
        if G[0] == "bin" and G[1] == "Add":
            for x, y in ((G[2], G[3]), (G[3], G[2])):
                if x[0] == "bin" and x[1] == "Mul" and y[0] == "bin" and y[1] == "Mul":
                    keep = [(a, b) for a, b in ((x[2], x[3]), (x[3], x[2])) if fld(a, mfield) and b[0] == "bin" and b[1] == "Sub" and const_float(b[2]) == 1.0 and fld(b[3], "decay")]
                    new = [(a, b) for a, b in ((y[2], y[3]), (y[3], y[2])) if fld(a, "decay") and b[0] == "bin" and b[1] == "Sub"]
                    if keep and new:
                        d = new[0][1]
                        if d[2][0] == "call" and d[2][4] == "mid_price" and d[3][0] == "field" and d[3][1][0] == "downcast":
                            ok = True
                            mid = d[2]
                            last = field_chain(d[3])[1][0]
        ctx.check(ok, "recurrence", tag, mw.loc(), "momentum := m*(1-decay) + decay*(mid_price - last_price) (0 on the first step)",
                  "momentum recurrence is %s" % render(G))
        # the recurrence is applied on EVERY step that has a previous price: the block that computes it is reached under no
        # condition but `last price is Some` (a fast path such as `Some(p) if p != mid_price` resets M to 0 on a flat step)
        from analysis.origin import strip as _strip
        rec_sites = []
        for blk_ in q.body.blocks:
            if blk_.cleanup or blk_.i not in q.cfg.reach_from(0):
                continue
            for i_, st_ in enumerate(blk_.stmts):
                if st_.k != "assign":
                    continue
                try:
                    rv_ = _strip(q.ev.rvalue(st_.rv, (blk_.i, i_)))
                except Exception:
                    continue
                if same(rv_, G) or (rv_[0] == "agg" and rv_[1] == "tuple" and any(same(x, G) for x in rv_[3])):
                    rec_sites.append((blk_.i, st_))
        okr = bool(rec_sites)
        extra_g = []
        for (b_, st_) in rec_sites:
            for a in q.cfg.guards(b_):
                if a[0] == "variant" and a[2] == ("Some",) and last is not None and fld(a[1], last):
                    continue
                if loop_exit(a):
                    continue
                extra_g.append(a)
        from analysis.cfg import render_atom as _ra
        ctx.check(okr and not extra_g, "recurrence", tag + "|always-applied", q.loc(rec_sites[0][1].sp) if rec_sites else ctx.loc(f),
                  "the recurrence is computed on every step that has a previous price (only condition: last price is Some)",
                  "the recurrence is skipped unless [%s]: on the other steps the momentum is reset instead of decayed" % " && ".join(_ra(a)[:80] for a in extra_g) if extra_g else "recurrence site not found")
        lw = [w for w in fw if last is not None and w.names[0] == last]
        okl = len(lw) == 1 and lw[0].val[0] == "agg" and lw[0].val[2].endswith("Option::Some") and mid is not None and lw[0].val[3][0] == mid and not [a for a in lw[0].guards if not loop_exit(a)]
        ctx.check(okl, "recurrence", tag + "|last-price", lw[0].loc() if lw else ctx.loc(f), "last price := Some(observed mid-price), every step",
                  "last price update: %s" % "; ".join(w.text() for w in lw))
        ctx.check(not [a for a in mw.guards if not loop_exit(a)], "recurrence", tag + "|every-step", mw.loc(), "the momentum is stored every step")
        # placement sites
        def placement_sites(qx):
            live = qx.cfg.reach_from(0)
            return [c for c in qx.calls() if c.b in live and (c.name == "place_order" or (c.target is not None and m.q(c.target).calls("place_order") and c.target.crate.name == "bourse_de"
                                                                                          and "cancel" not in c.name)) and c.name not in ("cancel_live_orders", "cancel_live_orders_market")]
        sites = placement_sites(q)
        ctx.check(len(sites) >= 2, "sites", tag + "|count", ctx.loc(f), "%d placement sites" % len(sites), "%d placement sites" % len(sites))

        def m_vs_zero(a):
            """(set of signs of M for which the comparison holds) for an atom comparing the generator with 0.0, else None"""
            if a[0] != "cmp":
                return None
            lhs, rhs = a[2], a[3]
            if a[1] in ("gt", "lt", "ge", "le", "eq", "ne") and same_gen(lhs, M, G) and rhs[0] == "const" and const_float(rhs) == 0.0:
                return {"gt": {1}, "lt": {-1}, "ge": {0, 1}, "le": {-1, 0}, "eq": {0}, "ne": {-1, 1}}[a[1]]
            if a[1] in ("gt", "lt", "ge", "le") and same_gen(rhs, M, G) and lhs[0] == "const" and const_float(lhs) == 0.0:
                return {"gt": {-1}, "lt": {1}, "ge": {-1, 0}, "le": {0, 1}}[a[1]]
            return None
        probs = []
        probs_case = {1: [], -1: [], 0: []}
        extra_conditions = {}
        case_seq = {}
        for s in (1, -1, 0):
            # the update body specialised to the sign of M: comparisons of M with 0 are decided, what only the other sign reaches
            # is cut, values joined over the sign (a side chosen once, |M| taken once) collapse to this sign's alternative
            def decide(a, _s=s):
                need = m_vs_zero(a)
                return None if need is None else (_s in need)
            qs = m.case_view(q, decide)
            feas = []
            for c in placement_sites(qs):
                ok_site = True
                for a in c.guards:
                    if a[0] != "cmp":
                        if not loop_exit(a) and not (a[0] == "variant" and a[2] == ("Some",)):
                            extra_conditions.setdefault(c.loc(), (c, []))[1].append(a)
                        continue
                    lhs, rhs = a[2], a[3]
                    # draw < P
                    if a[1] == "lt" and lhs[0] == "call" and lhs[4] == "gen":
                        probs.append((c, rhs))
                        probs_case[s].append((c, rhs))
                        if 1 not in sign(rhs, G, s):
                            ok_site = False
                    elif m_vs_zero(a) is not None:
                        if s not in m_vs_zero(a):
                            ok_site = False
                    else:
                        # any other comparison deciding a placement (the stored momentum of the PREVIOUS step, a price, a
                        # counter ..): the propensity is no longer a function of this step's M alone
                        extra_conditions.setdefault(c.loc(), (c, []))[1].append(a)
                if ok_site:
                    feas.append(c)
            sides = [site_side(m, c) for c in feas]
            kinds = sorted({site_kind(c) for c in feas})
            case_seq[s] = [(site_kind(c), site_side(m, c)) for c in qs.ordered(feas)]
            label = {1: "M > 0", -1: "M < 0", 0: "M = 0"}[s]
            if s == 0:
                ctx.check(not feas, "sign", "%s|zero" % tag, ctx.loc(f), "%s: no placement site is feasible (does nothing)" % label,
                          "%s: placement still feasible at %s" % (label, [c.loc() for c in feas]))
            else:
                want = "Bid" if s == 1 else "Ask"
                ok_dir = bool(feas) and all(x == want for x in sides) and kinds == ["limit", "market"]
                key = "%s|%s" % (tag, "buy" if s == 1 else "sell")
                if not feas:
                    ctx.bad("sign", key + "-infeasible", ctx.loc(f),
                            "%s: no %s placement is feasible: the probability compared with the uniform draw cannot be positive when M is %s "
                            "(it carries the sign of M), so the agent never %s" % (label, "buy" if s == 1 else "sell", "positive" if s == 1 else "negative", "buys" if s == 1 else "sells"))
                else:
                    ctx.check(ok_dir, "sign", key, ctx.loc(f), "%s: exactly the %s sites (limit and market) are feasible" % (label, "buy" if s == 1 else "sell"),
                              "%s: feasible sites have sides %s / kinds %s (expected only %s, limit and market)" % (label, sides, kinds, want))
        # nothing but {per-trader loop, the Bernoulli draw, the sign of M} may decide a placement
        from analysis.cfg import render_atom
        for (c, atoms) in extra_conditions.values():
            uniq = []
            for a in atoms:
                if a not in uniq:
                    uniq.append(a)
            ctx.bad("sign", "%s|extra-condition|%s" % (tag, c.name), c.loc(), "placement %s additionally depends on [%s]: the propensity to trade is no longer a function of |M| alone" % (
                c.name, " && ".join(render_atom(a)[:80] for a in uniq)))
        # probabilities non-negative for either sign, with definite parity (judged per sign of M on that sign's view: a
        # magnitude taken once - `let strength = if m < 0 { -m } else { m }` - is -M there and M here)
        def distinct(lst):
            out = []
            for c_, P_ in lst:
                if P_ not in [x[1] for x in out]:
                    out.append((c_, P_))
            return out
        seen_pos, seen_neg = distinct(probs_case[1]), distinct(probs_case[-1])
        sig = {1: [], -1: []}
        for s_, lst in ((1, seen_pos), (-1, seen_neg)):
            for k_, (c, P) in enumerate(lst):
                sg = sign(P, G, s_)
                sig[s_].append(sorted(sg))
                ctx.check(-1 not in sg, "parity", "%s|%s|%d" % (tag, "pos" if s_ == 1 else "neg", k_ + 1), c.loc(),
                          "probability %s is non-negative for M %s 0" % (render(P)[:90], ">" if s_ == 1 else "<"),
                          "probability %s has sign %s for M %s 0" % (render(P)[:120], sorted(sg), ">" if s_ == 1 else "<"))
        ctx.check(sorted(sig[1]) == sorted(sig[-1]), "parity", tag + "|even", ctx.loc(f), "the probabilities have the same signs for +M and -M (even in M)",
                  "probabilities have signs %s for M > 0 but %s for M < 0" % (sig[1], sig[-1]))
        ctx.check(len(seen_pos) == 2 and len(seen_neg) == 2, "parity", tag + "|census", ctx.loc(f), "two probabilities compared with draws (limit, market) for either sign of M",
                  "%d / %d probability expressions for M > 0 / M < 0" % (len(seen_pos), len(seen_neg)))
        seen = [P for (_c, P) in seen_pos]
        # first step (no last price yet): M = 0 and probability 0 – the only constant alternatives of M and of the probability
        consts_M = [a for a in (M[1] if M[0] == "phi" else (M,)) if a[0] == "const"]
        ctx.check(all(const_float(a) == 0.0 for a in consts_M) and len(consts_M) <= 1, "recurrence", tag + "|first-step", mw.loc(),
                  "without a previous price the momentum is 0.0", "first-step momentum is %s" % [render(a) for a in consts_M])
        for P in seen:
            pm = [x for x in walk(P) if x[0] == "phi" and any(y[0] == "call" and y[4] == "tanh" for y in walk(x))]
            for ph in pm[:1]:
                cs = [a for a in ph[1] if a[0] == "const"]
                ctx.check(all(const_float(a) == 0.0 for a in cs), "parity", "%s|first-step-prob" % tag, ctx.loc(f), "without a previous price the trading probability is 0.0",
                          "first-step probability is %s" % [render(a) for a in cs])
        # the documented magnitude: |demand * tanh(scale * M)| / n   (market), times order_ratio (limit)
        def is_formula(e):
            """abs(demand * tanh(scale*M) / n) in any association of the products (the abs may be omitted where the quotient
            is non-negative for the sign at hand: the parity rule above has judged that)"""
            x = e[2][0] if (e[0] == "call" and e[4] == "abs" and e[2]) else e
            if not (x[0] == "bin" and x[1] == "Div" and fld(x[3], "n")):
                return False
            y = x[2]
            if not (y[0] == "bin" and y[1] == "Mul"):
                return False
            for a_, b_ in ((y[2], y[3]), (y[3], y[2])):
                if fld(a_, "demand") and b_[0] == "call" and b_[4] == "tanh":
                    return True
            return False
        forms = []
        for P in seen:
            fa = [x for x in walk(P) if x[0] == "call" and x[4] == "abs"]
            forms += fa or [x for x in walk(P) if x[0] == "bin" and x[1] == "Div" and fld(x[3], "n")][:1]
        ctx.check(bool(forms) and all(is_formula(x) for x in forms), "parity", tag + "|formula", ctx.loc(f), "probability magnitude = |demand * tanh(scale * M) / n| as documented",
                  "probability magnitude is %s (documented: |demand*tanh(scale*M)|/n)" % [render(x)[:100] for x in forms])
        # limit probability = order_ratio * market probability
        if len(seen) == 2:
            a, b = seen
            rel = any(x[0] == "bin" and x[1] == "Mul" and ((fld(x[2], "order_ratio") and x[3] == y) or (fld(x[3], "order_ratio") and x[2] == y)) for x, y in ((a, b), (b, a)))
            ctx.check(rel, "parity", tag + "|ratio", ctx.loc(f), "p_limit = order_ratio * p_market")
        # tanh argument = scale * M
        th = [x for x in walk(seen[0] if seen else ("unk",)) if x[0] == "call" and x[4] == "tanh"] + [x for x in walk(seen[1] if len(seen) > 1 else ("unk",)) if x[0] == "call" and x[4] == "tanh"]
        okt = bool(th) and all(t_[2][-1][0] == "bin" and t_[2][-1][1] == "Mul" and ((fld(t_[2][-1][2], "scale") and same(t_[2][-1][3], G)) or (fld(t_[2][-1][3], "scale") and same(t_[2][-1][2], G))) for t_ in th)
        ctx.check(okt, "parity", tag + "|tanh-arg", ctx.loc(f), "the probability is demand*tanh(scale*M)/n of the same M that chooses the direction",
                  "tanh is applied to %s" % [render(t_[2][-1]) for t_ in th])
        # mirror: buy and sell sites take the same arguments except the helper / side
        lim = [c for c in sites if site_kind(c) == "limit"]
        mk = [c for c in sites if site_kind(c) == "market"]
        if len(lim) == 2:
            ctx.check(lim[0].args == lim[1].args, "mirror", tag + "|limit", lim[0].loc(), "limit buy and sell helpers receive identical arguments", "limit buy/sell arguments differ")
        if len(mk) == 2:
            a0 = [x for x in mk[0].args if not (x[0] == "agg" and "Side::" in x[2])]
            a1 = [x for x in mk[1].args if not (x[0] == "agg" and "Side::" in x[2])]
            ctx.check(a0 == a1, "mirror", tag + "|market", mk[0].loc(), "market buy and sell differ only in the side", "market buy/sell arguments differ")
        # per-trader: draws and placements inside the trader loop, no inner loop
        loops = q.body.loop_heads()
        ctx.check(len(loops) == 1 and all(q.cfg.in_loop(c.b) for c in sites), "sites", tag + "|per-trader", ctx.loc(f), "placements sit in the single per-trader loop")
        abstractions[tag] = [case_seq.get(1), case_seq.get(-1)]
    for f in ctx.prog.units():
        if f.name == "new" and f.crate.name == "bourse_de" and (f.impl_adt or "").split("::")[-1] in ("MomentumAgent", "MomentumMarketAgent"):
            r = m.q(f).ret()
            fv = dict(zip(r[4], r[3])) if r[0] == "agg" else {}
            f64s = [k for k, v in fv.items() if v[0] == "const" and "f64" in str(v[1])]
            okc = bool(fv) and all(const_float(fv[k]) == 0.0 for k in f64s) and len(f64s) == 1 and any(v[0] == "agg" and v[2].endswith("Option::None") for v in fv.values())
            ctx.check(okc, "recurrence", "ctor|" + f.impl_adt.split("::")[-1], ctx.loc(f), "a new agent starts with momentum 0.0 and no last price",
                      "a new momentum agent starts with %s" % {k: render(fv[k]) for k in f64s})
    if len(abstractions) == 2:
        a, b = list(abstractions.values())
        ctx.check(a == b, "siblings", "single-vs-market", "-", "single- and multi-asset momentum agents place through the same sequence of (kind, side) sites for M > 0 and for M < 0: %s" % a,
                  "single/multi-asset site sequences differ: %s vs %s" % (a, b))
    # buy/sell helper mirror (consume the same draws)
    for suffix in ("", "_market"):
        b = ctx.prog.free_fn("bourse_de", "place_buy_limit_order" + suffix)
        s = ctx.prog.free_fn("bourse_de", "place_sell_limit_order" + suffix)
        db = [c.name for c in m.qi(b).calls() if (c.term.j.get("callee_crate") or "").startswith("rand")]
        ds = [c.name for c in m.qi(s).calls() if (c.term.j.get("callee_crate") or "").startswith("rand")]
        ctx.check(db == ds and len(db) == 1, "mirror", "helpers" + suffix, ctx.loc(s), "buy and sell helpers consume the same draws (%s)" % db, "buy helper draws %s, sell helper draws %s" % (db, ds))
    ctx.assume("documented parameters positive: demand, scale, order_ratio, n (agent count), decay in (0, 1]")


def loop_exit(a):
    """the only condition allowed on the end-of-step state updates: the trader loop has finished"""
    return a[0] == "variant" and a[1][0] == "call" and a[1][4] == "next"


def same_gen(e, M, G):
    return same(e, M) or same(e, G)
