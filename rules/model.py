"""Role discovery shared by the rule files (DESIGN.md §3.1).

Roles are found by type / effect / public API, not by private function names; every
lookup fails closed (FactsError) when the role has no instance."""
from analysis.facts import FactsError
from analysis.origin import strip, render, field_chain, walk
from analysis.query import World, is_field_read

BOOK = "bourse_book::orderbook::OrderBook"
ENTRY = "bourse_book::orderbook::OrderEntry"
ORDER = "bourse_book::types::Order"
TRADE = "bourse_book::types::Trade"
SIDE_STRUCT = "bourse_book::side::OrderBookSide"
SIDE_TRAIT = "bourse_book::side::SideFunctionality"
MARKET = "bourse_book::market::Market"
ENV = "bourse_de::env::Env"
MENV = "bourse_de::market_env::MarketEnv"
RECORDS = "bourse_de::data::Level2DataRecords"

SIDE_OPS = ("insert_order", "remove_order", "remove_vol", "best_price", "best_vol",
            "best_vol_and_orders", "vol", "best_order_idx", "vol_and_orders_at_price")


def one(xs, what):
    xs = list(xs)
    if len(xs) != 1:
        raise FactsError("role '%s': expected exactly one instance, found %d" % (what, len(xs)))
    return xs[0]


class Model:
    """Roles are discovered lazily: a check only fails closed on the roles it actually uses (a renamed private field of the
    side index must not disturb, say, the determinism or the PyO3 checks)."""

    BOOK_ROLES = ("book_fields", "f_orders", "f_trades", "f_trading", "f_ask", "f_bid", "f_clock", "f_tradevol", "f_stamp", "f_tick")
    SIDE_ROLES = ("s_prio", "s_levels", "s_total", "side_struct")

    def __init__(self, ctx):
        self.ctx = ctx
        self.prog = ctx.prog
        self.w = World(ctx.prog)

    def __getattr__(self, name):
        if name in Model.BOOK_ROLES:
            self._book_roles()
            return self.__dict__[name]
        if name in Model.SIDE_ROLES:
            self._side_roles()
            return self.__dict__[name]
        raise AttributeError(name)

    def _book_roles(self):
        p = self.prog
        # ---- OrderBook fields by type / getter.  Serialised field names (t, tick_size, trade_vol, orders, trades, trading) are
        #      part of the snapshot format, i.e. public contract; the side indexes and the stamp counter are private.
        bf = {f["name"]: f["ty"] for f in p.adt_fields(BOOK)}
        d = self.__dict__
        d["book_fields"] = bf
        d["f_orders"] = one([n for n, t in bf.items() if "Vec<" in t and "OrderEntry" in t], "order table field")
        d["f_trades"] = one([n for n, t in bf.items() if "Vec<" in t and t.rstrip(">").endswith("Trade")], "trade log field")
        d["f_trading"] = one([n for n, t in bf.items() if t == "bool"], "trading flag field")
        sides = [n for n, t in bf.items() if "side::" in t or t.endswith("Side") or "Side<" in t]
        asks = [n for n in sides if bf[n].endswith("AskSide") or "Ascending" in bf[n] or "ask" in n.lower()]
        bids = [n for n in sides if bf[n].endswith("BidSide") or "Descending" in bf[n] or "bid" in n.lower()]
        d["f_ask"] = one(asks, "ask side field")
        d["f_bid"] = one(bids, "bid side field")
        d["f_clock"] = self.getter_field("get_time")
        d["f_tradevol"] = self.getter_field("get_trade_vol")
        rest = [n for n in bf if n not in (d["f_orders"], d["f_trades"], d["f_trading"], d["f_ask"], d["f_bid"], d["f_clock"], d["f_tradevol"])]
        # queue-stamp counter (if any): a second field of the clock's type
        stamps = [n for n in rest if bf[n] == bf[d["f_clock"]]]
        d["f_stamp"] = stamps[0] if len(stamps) == 1 else None
        rest = [n for n in rest if n != d["f_stamp"]]
        if "tick_size" in rest:
            d["f_tick"] = "tick_size"     # serialised name (snapshot format)
        else:
            d["f_tick"] = one(rest, "tick size field (the remaining OrderBook field)")

    def deep_fields(self, adt_path, depth=2):
        """{field name: type} of an ADT including the fields of its private same-crate struct fields (a maintainer may group
        several private fields into a small private struct): names are the innermost field names"""
        out = {}
        crate = adt_path.split("::")[0]
        for f in self.prog.adt_fields(adt_path):
            ty = f["ty"]
            base = ty.split("<")[0]
            a = self.prog.adts.get(base)
            if depth > 0 and a is not None and base.startswith(crate + "::") and a["kind"] == "struct" and not a.get("pub", False) and base != adt_path:
                for k, v in self.deep_fields(base, depth - 1).items():
                    out.setdefault(k, v)
            else:
                out.setdefault(f["name"], ty)
        return out

    def market_books_field(self):
        """the field of Market holding the per-asset books (an array of OrderBook); its name is private"""
        fs = [f["name"] for f in self.prog.adt_fields(MARKET) if "OrderBook<" in f["ty"] and f["ty"].lstrip().startswith("[")]
        return one(fs, "Market's array of order books")

    def _side_roles(self):
        p = self.prog
        d = self.__dict__
        # ---- side struct: the ADT of module `side` that owns a BTreeMap keyed by (price key, time) with OrderId values
        cands = []
        for path, a in p.adts.items():
            if not path.startswith("bourse_book::side::"):
                continue
            fs = {f["name"]: f["ty"] for v in a["variants"] for f in v["fields"]}
            if any("BTreeMap<(" in t and t.rstrip(">").endswith("usize") for t in fs.values()):
                cands.append((path, fs))
        path, sf = one(cands, "side index struct (owns the priority map)")
        d["side_struct"] = path
        d["s_prio"] = one([n for n, t in sf.items() if "BTreeMap<(" in t and t.rstrip(">").endswith("usize")], "priority map")
        d["s_levels"] = one([n for n, t in sf.items() if "BTreeMap<u32," in t], "level map")
        d["s_total"] = one([n for n, t in sf.items() if t == "u32"], "side total")

    # ------------------------------------------------------------------ helpers
    def q(self, fn):
        self.ctx.analysed_fns.add(fn.path)
        return self.w.q(fn)

    def qi(self, fn):
        """inlined view (private helpers of the same crate spliced in)"""
        self.ctx.analysed_fns.add(fn.path)
        return self.w.qi(fn)

    def ov(self, f):
        """whole-operation view of an API entry of the book: every private function of the crate spliced in (placement
        helpers, side dispatchers, matching loops, queue / unqueue helpers ...), so that the analysis does not depend on how
        the operation is cut into functions.  Only the trade writer stays a call (its record / fill rules are judged on its
        own body); the side index operations (trait impls) are primitive."""
        from analysis.inline import Inliner, default_policy
        from analysis.query import FnQ
        cache = self.__dict__.setdefault("_opviews", {})
        if "inl" not in cache:
            tw = {f_.path for (f_, _c) in self.trade_writers()}
            st = self.stamp_fn()
            if st is not None:
                tw.add(st.path)    # (the queue-stamp method is judged on its own body as well: C05 stamp rules)
            cache["inl"] = Inliner(self.prog, lambda caller, callee: default_policy(caller, callee) and callee.path not in tw, max_depth=10)
        if f.path not in cache:
            self.ctx.analysed_fns.add(f.path)
            cur = FnQ(self.w, cache["inl"].inlined(f))
            # normalise: branches on constants (a shared helper inlined with `Side::Bid` passed in) are cut for good, and
            # tests of values joined from several predecessors are threaded
            for _round in range(40):
                dead = {(b, t) for (b, t) in cur.cfg.dead_edges() if cur.body.blocks[t].term is None or cur.body.blocks[t].term.k != "unreachable"}
                if dead:
                    cur = self._pruned(cur, dead)
                    continue
                cur, changed = self._threaded(cur)
                if not changed:
                    break
            cache[f.path] = cur
        return cache[f.path]

    # ------------------------------------------------------------------ side-specialised views
    def side_subject(self, subj):
        """base entity E when `subj` denotes the side of an order entry: E.order.side / E.key.0 (the key's side component
        equals the order's side: typestate key-side rule + K1 create rule); ("const", side) for a key-builder result"""
        if subj[0] == "field" and subj[2] == "side" and (len(subj) < 4 or subj[3].endswith("Order") or subj[3] == ""):
            o = subj[1]
            if o[0] == "field" and o[2] == "order":
                return o[1]
            return ("order", o)
        if subj[0] == "param" and subj[2] == "side":
            return subj       # the side parameter of a creating entry point: the order being created is on that side
        if subj[0] == "field" and subj[2] == "0":
            k = subj[1]
            if k[0] == "field" and k[2] == "key":
                return k[1]
            if k[0] == "call":
                f = self.prog.fn_by_short(k[1])
                if f is not None and f.crate.name == "bourse_book":
                    r = self.w.q(f).ret()
                    if r[0] == "agg" and r[1] == "tuple" and r[3] and r[3][0][0] == "agg" and r[3][0][1] == "adt":
                        n = r[3][0][2].split("::")[-1]
                        if n in ("Bid", "Ask"):
                            return ("const", n)
        return None

    def _pruned(self, cur, dead):
        """copy of the view `cur` with the branch edges in `dead` redirected to a fresh `unreachable` block and every block
        that can no longer be reached emptied (block numbers are kept)"""
        import copy
        from analysis.query import FnQ
        from analysis.facts import Fn, Term
        j = copy.deepcopy(cur.fn.j)
        n = len(j["blocks"])
        j["blocks"].append({"i": n, "cleanup": False, "stmts": [], "term": {"k": "unreachable", "sp": j["blocks"][0]["term"].get("sp") if j["blocks"][0]["term"] else None}})
        for (b, tgt) in dead:
            t = j["blocks"][b]["term"]
            if t["k"] != "switch":
                continue
            t["ts"] = [[v, (n if x == tgt else x)] for (v, x) in t["ts"]]
            if t["o"] == tgt:
                t["o"] = n
        reach = set()
        st_ = [0]
        byi = {bj["i"]: bj for bj in j["blocks"]}
        while st_:
            x = st_.pop()
            if x in reach:
                continue
            reach.add(x)
            tj = byi[x]["term"]
            if tj:
                st_.extend(Term(tj).succs())
        for bj in j["blocks"]:
            if bj["i"] not in reach and not bj["cleanup"]:
                bj["stmts"] = []
                bj["term"] = {"k": "unreachable", "sp": (bj["term"] or {}).get("sp")}
        return FnQ(self.w, Fn(j, cur.fn.crate))

    def _threaded(self, cur):
        """jump threading: a block that only switches on a value joined from several predecessors
        (`let filled = self.trading && self.match_order(..); if !filled { .. }`) is duplicated per predecessor, so that each
        incoming path tests its own value (constants then fold to dead edges).  Semantics-preserving tail duplication; only
        blocks whose statements define plain temporaries are duplicated, never loop heads.  Returns (view, changed)."""
        import copy
        from analysis.query import FnQ
        from analysis.facts import Fn
        body = cur.body
        preds = body.preds()
        heads = set(body.loop_heads())
        live = cur.cfg.reach_from(0)
        mem = cur.ev.memory_locals()
        j = None
        for blk in body.blocks:
            b = blk.i
            t = blk.term
            if b not in live or blk.cleanup or t is None or t.k != "switch" or b in heads or t.discr.place is None or t.discr.place.proj:
                continue
            ps = sorted({p for p in preds[b] if p in live and not body.blocks[p].cleanup})
            if len(ps) < 2:
                continue
            if not all(st.k == "assign" and st.place.is_local() and st.place.local not in mem for st in blk.stmts):
                continue
            # the switched value, traced to what enters the block
            L = t.discr.place.local
            for st in reversed(blk.stmts):
                if st.place.local == L:
                    src = st.rv.place if st.rv.k == "discr" else (st.rv.ops[0].place if st.rv.k == "use" and st.rv.ops and st.rv.ops[0].place is not None else None)
                    if src is None or src.proj:
                        L = None
                    else:
                        L = src.local
                    break
            if L is None or L in mem:
                continue
            defs = cur.ev.reaching_defs(L, (b, 0))
            if len({d[1] for d in defs}) < 2:
                continue
            if j is None:
                j = copy.deepcopy(cur.fn.j)
            for p in ps[1:]:
                n = len(j["blocks"])
                nb = copy.deepcopy(cur.fn.j["blocks"][b])
                nb["i"] = n
                j["blocks"].append(nb)
                pt = j["blocks"][p]["term"]
                k = pt["k"]
                if k == "goto":
                    pt["t"] = n
                elif k == "switch":
                    pt["ts"] = [[v, (n if x == b else x)] for (v, x) in pt["ts"]]
                    if pt["o"] == b:
                        pt["o"] = n
                elif k in ("drop", "assert", "call"):
                    if pt.get("t") == b:
                        pt["t"] = n
                elif k == "other":
                    pt["succ"] = [(n if x == b else x) for x in pt.get("succ", [])]
            break      # one block per round (predecessor lists change)
        if j is None:
            return cur, False
        return FnQ(self.w, Fn(j, cur.fn.crate)), True

    def case_view(self, q, decide):
        """the view `q` specialised to a case: `decide(atom)` returns False for a branch atom that cannot hold in the case
        (None / True otherwise); edges carrying such an atom are cut, then constants are folded, joined-value tests threaded
        and everything only the cut edges reach is emptied, to a fixpoint.  Every execution that satisfies the case follows
        a path of the result."""
        cur = q
        for _round in range(40):
            dead = set()
            for blk in cur.body.blocks:
                t = blk.term
                if blk.cleanup or not t or t.k != "switch":
                    continue
                for tgt in set(cur.body.succs(blk.i)):
                    if any(decide(a) is False for a in cur.cfg.edge_atoms(blk.i, tgt)):
                        dead.add((blk.i, tgt))
            dead |= cur.cfg.dead_edges()
            dead = {(b, t) for (b, t) in dead if cur.body.blocks[t].term is None or cur.body.blocks[t].term.k != "unreachable"}
            if not dead:
                cur, changed = self._threaded(cur)
                if not changed:
                    break
                continue
            cur = self._pruned(cur, dead)
        return cur

    def sv(self, f, S):
        """whole-operation view of `f` specialised to the case "the order the operation is about is on side S": branch
        edges that test that order's side (order.side, the stored key's side component, a side parameter bound to either, a
        freshly built key's side component) against the other side are cut and everything only they reach is emptied, so
        that joins over the two sides (`let key = match side { Bid => get_bid_key(..), Ask => get_ask_key(..) }`) collapse
        to the S alternative.  Sound for rules that quantify over paths: every concrete execution with that order on side S
        follows a path of the S view.  When several different entities have their side tested, the entries looked up at the head of
        a queue (passive orders) are left alone."""
        import copy
        from analysis.query import FnQ
        from analysis.facts import Fn
        from analysis.typestate import same
        cache = self.__dict__.setdefault("_sviews", {})
        if (f.path, S) in cache:
            return cache[(f.path, S)]
        cur = self.ov(f)
        for _round in range(40):
            body = cur.body
            subjects = []
            edges = []
            for blk in body.blocks:
                t = blk.term
                if blk.cleanup or not t or t.k != "switch":
                    continue
                for tgt in set(body.succs(blk.i)):
                    for a in cur.cfg.edge_atoms(blk.i, tgt):
                        if a[0] == "variant" and a[2] and set(a[2]) <= {"Bid", "Ask"}:
                            e = self.side_subject(a[1])
                            if e is not None:
                                edges.append((blk.i, tgt, e, a[2]))
                                if e[0] != "const" and not any(same(e, x) for x in subjects):
                                    subjects.append(e)
            # the order the operation is about: not an entry looked up at the head of a queue (those are the passive orders)
            from analysis.origin import walk as _walk
            primary = [e for e in subjects if not any(x[0] == "call" and x[4] == "best_order_idx" for x in _walk(e))]
            if len(primary) > 1:
                primary = [e for e in primary if any(x[0] == "param" and x[2] == "order_id" for x in _walk(e))]
            dead = set()
            for (b, tgt, e, names) in edges:
                if e[0] == "const":
                    if e[1] not in names:
                        dead.add((b, tgt))
                elif any(same(e, x) for x in primary) and S not in names:
                    dead.add((b, tgt))
            dead |= cur.cfg.dead_edges()      # (constant conditions, exhausted `otherwise` arms)
            dead = {(b, t) for (b, t) in dead if cur.body.blocks[t].term is None or cur.body.blocks[t].term.k != "unreachable"}
            if not dead:
                cur, changed = self._threaded(cur)
                if not changed:
                    break
                continue
            cur = self._pruned(cur, dead)
        cache[(f.path, S)] = cur
        return cur

    def stamp_fn(self):
        """the queue-stamp method: returns max(clock, counter) and stores result + 1 in the counter"""
        if "_stamp_fn" not in self.__dict__:
            self.__dict__["_stamp_fn"] = None
            if self.f_stamp is not None:
                for f in self.book_all_fns():
                    ws = [w for w in self.q(f).writes(field=self.f_stamp) if w.root[0] == "param"]
                    if ws and f.sig.endswith("-> u64"):
                        self.__dict__["_stamp_fn"] = f
                        break
        return self.__dict__["_stamp_fn"]

    def ov_matching_loops(self, q):
        """matching loops inside a view: [(loop head block, passive side, best_order_idx Call)] - one per inlined copy"""
        out = []
        seen = set()
        for (c, side) in self.side_op_calls(q, "best_order_idx"):
            heads = q.cfg.loops_containing(c.b)
            if heads and (heads[0], side) not in seen:
                seen.add((heads[0], side))
                out.append((heads[0], side, c))
        return out

    def book_fn(self, name):
        return self.prog.method("OrderBook", name, crate="bourse_book")

    def market_fn(self, name):
        return self.prog.method("Market", name, crate="bourse_book")

    def env_fn(self, name):
        return self.prog.method("Env", name, crate="bourse_de")

    def menv_fn(self, name):
        return self.prog.method("MarketEnv", name, crate="bourse_de")

    def getter_field(self, name):
        f = self.book_fn(name)
        r = self.w.q(f).ret()
        root, names = field_chain(r)
        if root[0] != "param" or len(names) != 1:
            raise FactsError("getter OrderBook::%s does not return a field of self (%s)" % (name, render(r)))
        return names[0]

    def book_pub_fns(self):
        return [f for f in self.prog.find(crate="bourse_book", adt="OrderBook") if f.pub and f.impl_trait is None]

    def book_all_fns(self):
        """analysis units of the book: OrderBook's inherent functions that can be analysed on their own (a helper that is
        generic over the side or takes a closure is analysed inside its callers: World.q splices it)"""
        from analysis.inline import higher_order
        return [f for f in self.prog.find(crate="bourse_book", adt="OrderBook") if f.impl_trait is None and not higher_order(f)]

    def lib_fns(self, crate):
        from analysis.inline import higher_order
        return [f for f in self.prog.units() if f.crate.name == crate and not higher_order(f)]

    def side_inner(self, name):
        return self.prog.method("OrderBookSide", name, crate="bourse_book")

    def side_wrapper(self, which, name):
        """trait impl method of BidSide / AskSide"""
        return self.prog.method(which, name, trait="SideFunctionality", crate="bourse_book")

    # ------------------------------------------------------------------ side op call sites
    def side_of_receiver(self, arg):
        """'Bid' / 'Ask' for a receiver expression `<book>.bid_side` / `<book>.ask_side` or a
        local of type BidSide/AskSide; None otherwise"""
        root, names = field_chain(arg)
        if names and names[-1] == self.f_bid:
            return "Bid"
        if names and names[-1] == self.f_ask:
            return "Ask"
        return None

    def side_op_calls(self, q, op):
        """calls of a SideFunctionality op in q: list of (Call, side) – side from the
        resolved impl type (exact) """
        out = []
        for c in q.calls(op):
            r = c.resolved
            if "SideFunctionality" not in r and "SideFunctionality" not in (c.term.j.get("trait") or ""):
                continue
            side = None
            if "BidSide" in r:
                side = "Bid"
            elif "AskSide" in r:
                side = "Ask"
            out.append((c, side))
        return out

    # ------------------------------------------------------------------ derived roles
    def trade_writers(self):
        """functions that push onto a Vec<Trade>"""
        out = []
        for f in self.lib_fns("bourse_book"):
            q = self.w.q(f)
            for c in q.calls("push"):
                if "Vec" in c.resolved and c.term.args and "Trade" in (c.term.args[0].place.ty if c.term.args[0].place is not None else ""):
                    out.append((f, c))
        return out

    def matchers(self):
        """functions containing a loop that acquires a passive order id from best_order_idx:
        list of (Fn, passive side, Call best_order_idx)"""
        out = []
        for f in self.book_all_fns():
            q = self.w.q(f)
            for (c, side) in self.side_op_calls(q, "best_order_idx"):
                if q.cfg.in_loop(c.b):
                    out.append((f, side, c))
        return out


def opposite(side):
    return {"Bid": "Ask", "Ask": "Bid"}.get(side)


def fld(e, *suffix):
    return is_field_read(e, *suffix)


def is_const(e, value=None):
    if e[0] != "const":
        return False
    return value is None or e[3] == value


def is_max_u32(e):
    return e[0] == "const" and (e[3] == 0xFFFFFFFF or "MAX" in str(e[2]))


def variant_of(e):
    """'Bid' for an aggregate `Side::Bid{}` expression etc."""
    if e[0] == "agg" and e[1] == "adt":
        return e[2].split("::")[-1]
    return None


def status_const(e):
    v = variant_of(e)
    return v if v in ("New", "Active", "Filled", "Cancelled", "Rejected") else None
