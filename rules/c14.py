"""C14 – assets are independent books sharing one clock (DESIGN.md §4 C14)."""
from analysis.origin import render, field_chain, walk
from analysis.typestate import same
from analysis.effects import covers
from .model import Model, fld, MARKET
from .stepmodel import StepShape

LEVEL = "other"
MIN_OBLIGATIONS = 40
EXPLANATION = (
    "Forwarding conformance of Market and MarketEnv: every Market method addressed to an asset indexes the book array "
    "with exactly its asset parameter (order_id.0), passes order_id.1 as the per-book id, calls the same-named OrderBook "
    "method with the remaining arguments bound by name, and returns (asset, book result) for creations; every all-asset "
    "query is array::from_fn over a closure in which every index into the book array is the closure index and which calls "
    "the singular query of the same side/quantity; set_time / trading toggles / reset visit every book, get_time reads book "
    "0 (shared clock: table exception); effect summaries show a per-asset mutator writes only below order_books[asset]; "
    "MarketEnv getters index with their asset parameter. The multi-asset step is held to the single-asset step's batch, "
    "snapshot and recording rules (C08 / C10 / C11 rule sets instantiated for MarketEnv).")

PER_ASSET = {  # Market method -> (OrderBook method, how the asset/id is given)
    "get_order_book": None, "get_order_book_mut": None,
    "order": ("order", "id"), "create_order": ("create_order", "asset"), "create_and_place_order": ("create_and_place_order", "asset"),
    "place_order": ("place_order", "id"), "cancel_order": ("cancel_order", "id"), "modify_order": ("modify_order", "id"), "get_orders": ("get_orders", "asset"),
}
ALL_ASSET = {  # Market query -> OrderBook query
    "get_trade_vols": "get_trade_vol", "bid_vols": "bid_vol", "bid_best_vols": "bid_best_vol", "bid_best_vol_and_orders": "bid_best_vol_and_orders",
    "bid_levels": "bid_levels", "ask_vols": "ask_vol", "ask_best_vols": "ask_best_vol", "ask_best_vol_and_orders": "ask_best_vol_and_orders",
    "ask_levels": "ask_levels", "bid_asks": "bid_ask",
}
FAN_OUT = {"set_time": "set_time", "enable_trading": "enable_trading", "disable_trading": "disable_trading", "reset_trade_vols": "reset_trade_vol"}


def per_asset_rules(ctx, m, names=None, RULE="per-asset"):
    """a Market method addressed to one asset forwards to the same-named OrderBook method of order_books[asset], exactly once,
    unconditionally, with the remaining arguments bound by name"""
    books_f = [x["name"] for x in ctx.prog.adt_fields(MARKET)]
    BF = books_f[0]
    pub = {f.name: f for f in ctx.prog.find(crate="bourse_book", adt="Market") if f.pub and f.impl_trait is None}

    from analysis.typestate import _elem
    from analysis.origin import strip

    def book_index(e):
        """element accesses of the book array inside e, however spelled (books[i], books.get(i) matched as Some, ..),
        as ("index", container, index) triples"""
        out = []
        for x in walk(e):
            el = _elem(x) if isinstance(x, tuple) and x and x[0] in ("index", "call", "field") else None
            if el is not None and fld(strip(el[0]), BF):
                t = ("index", el[0], strip(el[1]))
                if t not in out:
                    out.append(t)
        return out

    def only_lookup_guards(c):
        """the call is unconditional, or conditional only on the lookup of its own book having succeeded (the other
        branch aborts, exactly like the bounds check of books[i])"""
        for a in c.guards:
            if a[0] == "variant" and a[2] == ("Some",) and a[1][0] == "call" and a[1][4] in ("get", "get_mut") and fld(strip(a[1][2][0]), BF):
                continue
            return False
        return True
    for name, spec in PER_ASSET.items():
        if names is not None and name not in names:
            continue
        f = pub.get(name)
        if f is None:
            ctx.lost(RULE, "Market::" + name)
            continue
        q = m.qi(f)      # private helpers (`fn book_mut(&mut self, asset)`) spliced in
        if spec is None:
            r = q.ret()
            ix = book_index(r)
            ok = len(ix) == 1 and ix[0][2][0] == "param" and ix[0][2][2] == "asset"
            ctx.check(ok, RULE, name, ctx.loc(f), "%s returns order_books[asset]" % name, "%s returns %s" % (name, render(r)))
            continue
        target, mode = spec
        calls = [c for c in q.calls(target) if c.target is not None and (c.target.impl_adt or "").endswith("orderbook::OrderBook")]
        if len(calls) != 1 or not only_lookup_guards(calls[0]):
            ctx.bad(RULE, name + "|forward", ctx.loc(f), "Market::%s does not forward to OrderBook::%s exactly once, unconditionally" % (name, target))
            continue
        c = calls[0]
        ix = book_index(c.args[0])
        if mode == "asset":
            idx_ok = len(ix) == 1 and ix[0][2][0] == "param" and ix[0][2][2] == "asset"
        else:
            idx_ok = len(ix) == 1 and ix[0][2][0] == "field" and ix[0][2][2] == "0" and ix[0][2][1][0] == "param" and ix[0][2][1][2] == "order_id"
        ctx.check(idx_ok, RULE, name + "|book", c.loc(), "Market::%s addresses order_books[%s]" % (name, "asset" if mode == "asset" else "order_id.0"),
                  "Market::%s addresses %s" % (name, render(c.args[0])))
        # remaining arguments
        ok = True
        for i, formal in enumerate(c.formals[1:], start=1):
            a = c.args[i]
            if formal == "order_id":
                ok = ok and a[0] == "field" and a[2] == "1" and a[1][0] == "param" and a[1][2] == "order_id"
            else:
                ok = ok and a[0] == "param" and a[2] == formal
        ctx.check(ok, RULE, name + "|args", c.loc(), "arguments forwarded by name (%s)%s" % (", ".join(c.formals[1:]), "; id = order_id.1" if mode == "id" else ""),
                  "Market::%s forwards %s" % (name, c.text()))
        if name in ("create_order", "create_and_place_order"):
            from analysis.beta import normalize
            r = normalize(m.w, q.ret())   # `?` + Ok((asset, id)) and Result::map(|id| (asset, id)) read alike
            oks = [x for x in walk(r) if x[0] == "agg" and x[2].endswith("Result::Ok")]
            okr = len(oks) == 1 and oks[0][3][0][0] == "agg" and oks[0][3][0][1] == "tuple" and len(oks[0][3][0][3]) == 2
            if okr:
                a0, a1 = oks[0][3][0][3]
                okr = a0[0] == "param" and a0[2] == "asset" and any(x[0] == "call" and x[4] == target for x in walk(a1))
            ctx.check(okr, RULE, name + "|id", ctx.loc(f), "returns Ok((asset, id assigned by that book))", "Market::%s returns %s" % (name, render(r)))
        elif name in ("order", "get_orders"):
            ctx.check(same(q.ret(), c.result), RULE, name + "|ret", ctx.loc(f), "returns the book's result unchanged")
        s = m.w.effects.summary(f)
        if s["writes"]:
            okw = all(covers([(1, (BF, "[]"))], w) for w in s["writes"]) and not s["unknown"]
            ctx.check(okw, RULE, name + "|effects", ctx.loc(f), "writes only below order_books[<that index>]", "Market::%s writes %s" % (name, sorted(s["writes"])))



def run(ctx):
    m = Model(ctx)
    books_f = [x["name"] for x in ctx.prog.adt_fields(MARKET)]
    ctx.check(len(books_f) == 1, "shape", "market-fields", "-", "Market holds exactly one field: the array of books", "Market fields: %s" % books_f)
    BF = books_f[0]
    ctx.check(not ctx.prog.adt_fields(MARKET)[0]["pub"], "shape", "private", "-", "the book array is private")
    pub = {f.name: f for f in ctx.prog.find(crate="bourse_book", adt="Market") if f.pub and f.impl_trait is None}
    known = set(PER_ASSET) | set(ALL_ASSET) | set(FAN_OUT) | {"new", "get_time", "level_2_data", "process_event", "save_json", "load_json"}
    unknown = sorted(set(pub) - known)
    # public methods beyond the ones the rules name: a query (`&self`: cannot write, no interior mutability exists) needs no rule;
    # a mutator is accepted iff it changes the market only THROUGH the ruled public methods (every write below `self` happens
    # inside a call of one of them), so that per-asset independence and the shared clock are inherited from those
    uncovered = []
    for name in unknown:
        f = pub[name]
        s0 = m.w.effects.summary(f)
        uq = m.q(f)

        def through_ruled(b, what):
            """the write at block b happens inside a call of a ruled public method OF THE MARKET (not of a book: `self.order_books[0]
            .set_time(..)` is a direct write)"""
            if not (what.startswith("call ") and what[5:] in known and what[5:] != "new"):
                return False
            t = uq.fn.body.blocks[b].term if b < len(uq.fn.body.blocks) else None
            tgt = ctx.prog.target(t) if t is not None and t.k == "call" else None
            return tgt is not None and (tgt.impl_adt or "").endswith("market::Market") and tgt.name == what[5:]
        direct = [(loc, what) for (loc, b_, _sp, what) in s0["sites"] if loc.root[0] in ("param", "unknown") and not through_ruled(b_, what)]
        if direct or s0["unknown"]:
            uncovered.append("%s (writes %s)" % (name, sorted({what for _l, what in direct}) or s0["unknown"][:1]))
        else:
            ctx.note("Market::%s is not named by a forwarding rule: %s" % (name, "read-only query" if not s0["writes"] else "changes the market only through " + ", ".join(sorted({w[5:] for (_l, _b, _s, w) in s0["sites"] if w.startswith("call ")}))))
    ctx.check(not uncovered, "shape", "api-covered", "-", "all %d public Market methods are covered by a forwarding rule (%d further ones are read-only or built on the ruled methods)" % (len(pub), len(unknown)),
              "public Market methods that write the books directly and have no rule: %s" % uncovered)

    def book_index(e):
        """index expression used to reach a book in `e` (the receiver of a forwarded call)"""
        ix = [x for x in walk(e) if x[0] == "index" and fld(x[1], BF)]
        return ix

    # ---------------------------------------------------------------- per-asset methods
    per_asset_rules(ctx, m)

    # ---------------------------------------------------------------- all-asset queries
    n_cl = n_ix = 0
    for name, target in list(ALL_ASSET.items()) + [("level_2_data", None)]:
        f = pub.get(name)
        if f is None:
            ctx.lost("all-asset", "Market::" + name)
            continue
        # element expression E(i) of `array::from_fn(..)`: closures beta-reduced, private helpers (e.g. a `map_books(query)`
        # combinator) inlined – the rule reads what element i IS, not how the closure is spelled
        from analysis.beta import from_fn_element
        q = m.qi(f)
        E = from_fn_element(m.w, q.ret(), ("var", "i"))
        if E is None:
            ctx.bad("all-asset", name + "|shape", ctx.loc(f), "Market::%s is not `array::from_fn(<per-index expression>)` (got %s)" % (name, render(q.ret())[:120]))
            continue
        for (cq, _ops, _names, _b) in q.closures():
            ctx.analysed_fns.add(cq.fn.path)
        n_cl += 1
        idxs = [x[2] for x in walk(E) if x[0] == "index" and any(y[0] == "field" and y[2] == BF for y in walk(x[1]))]
        n_ix += len(idxs)
        ok = bool(idxs) and all(i == ("var", "i") for i in idxs)
        ctx.check(ok, "all-asset", name + "|index", ctx.loc(f), "every book access in element i uses index i (%d accesses)" % len(idxs),
                  "Market::%s indexes the book array with %s" % (name, sorted({render(i) for i in idxs})))
        if target is not None:
            ok = E[0] == "call" and E[4] == target and "OrderBook" in E[1] and len(E[2]) >= 1 and E[2][0][0] == "index" and E[2][0][2] == ("var", "i") \
                and fld(E[2][0][1], BF)
            ctx.check(ok, "all-asset", name + "|query", ctx.loc(f), "element i = order_books[i].%s()" % target,
                      "Market::%s element is %s" % (name, render(E)[:160]))
    ctx.check(n_cl >= 11 and n_ix >= 11, "all-asset", "census", "-", "%d all-asset closures, %d book accesses" % (n_cl, n_ix))

    # ---------------------------------------------------------------- fan-out
    for name, target in FAN_OUT.items():
        f = pub.get(name)
        if f is None:
            ctx.lost("fan-out", "Market::" + name)
            continue
        q = m.qi(f)
        from .stepmodel import fanout_ok
        ok, c0, detail = fanout_ok(m, q, BF, target)
        if ok and name == "set_time":
            ok = c0.args[1][0] == "param" and c0.args[1][2] == "t"
        ctx.check(ok, "fan-out", name, ctx.loc(f), "Market::%s calls OrderBook::%s on every book (%s)" % (name, target, detail),
                  "Market::%s does not reach every book: %s" % (name, detail))
    f = pub["get_time"]
    r = m.q(f).ret()
    ix = [x for x in walk(r) if x[0] in ("index", "cindex")]
    ok = r[0] == "call" and r[4] == "get_time" and len(ix) == 1 and ((ix[0][0] == "index" and ix[0][2][0] == "const" and ix[0][2][3] == 0) or (ix[0][0] == "cindex" and ix[0][2] == 0))
    ctx.check(ok, "fan-out", "get_time", ctx.loc(f), "get_time reads book 0 (all books share the clock: set_time writes every book)", "get_time returns %s" % render(r))
    new = pub["new"]
    nq = m.q(new)
    cl = nq.closures()
    ok = len(cl) == 1
    if ok:
        cq = cl[0][0]
        is_book_new = lambda c: c.target is not None and (c.target.impl_adt or "").endswith("orderbook::OrderBook")  # noqa: E731
        cs = [c for c in cq.calls("new") if is_book_new(c)]
        ok = len(cs) == 1 and cs[0].args[1][0] == "field" or (len(cs) == 1)
        if len(cs) == 1:
            a = cs[0].args
            ok = any(x[0] == "index" and x[2][0] == "param" and x[2][1] == 2 for x in walk(a[1])) and "start_time" in render(a[0]) and "trading" in render(a[2])
    if not ok and len(cl) == 1:
        # `tick_size.map(|t| OrderBook::new(start_time, t, trading))`: array::map keeps positions
        mp = [c for c in nq.calls("map") if c.args and c.args[0][0] == "param" and c.args[0][2] == "tick_size" and "array" in c.resolved]
        cs = [c for c in cl[0][0].calls("new") if c.target is not None and (c.target.impl_adt or "").endswith("orderbook::OrderBook")]
        if len(mp) == 1 and len(cs) == 1:
            a = cs[0].args
            ok = a[1][0] == "param" and a[1][1] == 2 and "start_time" in render(a[0]) and "trading" in render(a[2])
    ctx.check(ok, "fan-out", "new", ctx.loc(new), "Market::new builds book i with (start_time, tick_size[i], trading)", "Market::new does not build book i from tick_size[i]")

    # ---------------------------------------------------------------- MarketEnv
    for name in ("get_prices", "get_volumes", "get_touch_volumes", "get_touch_order_counts", "get_trade_vols", "get_level_2_data_history"):
        f = m.menv_fn(name)
        r = m.q(f).ret()
        ix = [x for x in walk(r) if x[0] == "index" and x[2][0] != "const"]
        ok = bool(ix) and all(x[2][0] == "param" and x[2][2] == "asset" for x in ix)
        ctx.check(ok, "market-env", name, ctx.loc(f), "MarketEnv::%s indexes per-asset data with its asset parameter" % name, "MarketEnv::%s returns %s" % (name, render(r)))
    for name, target in (("get_orders", "get_orders"), ("get_trades", "get_order_book")):
        f = m.menv_fn(name)
        q = m.q(f)
        cs = [c for c in q.calls(target) if c.target is not None and (c.target.impl_adt or "").endswith("market::Market")]
        ok = len(cs) == 1 and cs[0].args[1][0] == "param" and cs[0].args[1][2] == "asset"
        ctx.check(ok, "market-env", name, ctx.loc(f), "MarketEnv::%s asks the market for asset `asset`" % name, "MarketEnv::%s does not pass its asset parameter" % name)
    for name in ("order", "order_status"):
        f = m.menv_fn(name)
        q = m.q(f)
        cs = [c for c in q.calls("order") if c.target is not None and (c.target.impl_adt or "").endswith("market::Market")]
        ok = len(cs) == 1 and cs[0].args[1][0] == "param" and cs[0].args[1][2] == "order_id"
        ctx.check(ok, "market-env", name, ctx.loc(f), "MarketEnv::%s forwards the (asset, id) pair unchanged" % name)
    f = m.menv_fn("place_order")
    q = m.q(f)
    cs = [c for c in q.calls("create_order") if c.target is not None]
    ok = len(cs) == 1 and all(c_a[0] == "param" and c_a[2] == fm for c_a, fm in zip(cs[0].args[1:], cs[0].formals[1:]))
    ctx.check(ok, "market-env", "place_order", ctx.loc(f), "MarketEnv::place_order forwards asset/side/vol/trader_id/price by name", "MarketEnv::place_order forwards %s" % (cs[0].text() if cs else "nothing"))
    # the multi-asset step refreshes and records EVERY asset, every step (siblings of the single-asset rules)
    from . import c10, c11
    only_menv = (("MarketEnv", m.menv_fn, "market"),)
    c10.env_rules(ctx, m, only_menv)
    c11.step_rules(ctx, m, only_menv)
    # the all-asset level-2 query returns each book's own view (rule shared with C02: Market::level_2_data[i] is book i's
    # level_2_data / the same literal over book i's queries, unconditionally)
    from . import c02
    from .c06 import _Prefixed as _P
    c02.views(_P(ctx, "all-asset-"), m)
    # the multi-asset environment queues exactly what its single-asset twin queues: one instruction per submission, built from the
    # same-named parameters, unconditionally (C08's submission rules instantiated for MarketEnv)
    c08_submit = getattr(__import__("rules.c08", fromlist=["submission_rules"]), "submission_rules")
    c08_submit(_P(ctx, "twin-"), m, (("MarketEnv", m.menv_fn, "market"),))
    # .. and applies EVERY queued instruction of every asset, once, at start + position (each asset's history equals that of a
    # stand-alone book fed that asset's operations at the same times): the batch rules of C08 on the multi-asset step
    from . import c08
    from .c06 import _Prefixed
    c08.step_rules(_Prefixed(ctx, "batch-"), m, "MarketEnv", StepShape(m, m.menv_fn("step"), "market"))
    # .. and an instruction delivered through Market::process_event is the direct call on the addressed book (C08's dispatch rule)
    c08.dispatch_rules(_Prefixed(ctx, "event-"), m, owners=("Market",))
    ctx.note("get_order_book_mut hands out &mut to one book (documented API); the shared-clock clause assumes callers do not desynchronise books through it")
    ctx.assume("ASSETS >= 1 (get_time reads book 0)")
