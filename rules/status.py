"""Per-property claim table used by bin/gen_manifest.py."""

TRUST = ("Trusted: rustc MIR construction/type resolution; std collections, mem::take, cmp::min; crates pinned in "
         "Cargo.lock; the informal argument from the checked structural premises to the behavioural statement (DESIGN.md section 4). ")

NOTES = ("Technique family: static analysis only. Every check re-extracts MIR facts from /repo's working tree (content-hash "
         "cache), evaluates repository-specific rules and reports file:line + function of the violating construct. "
         "No bourse code is executed, concretely or symbolically.")

STATUS = {
    "C03": dict(
        claimed=True,
        technique="MIR census + provenance (single writer, record field origins, must-pass counter update, write census of Order.vol)",
        text=("Decides on every path of the code: the trade log has one append-only writer; each record's fields originate from "
              "clock/passive side+price/min volume/aggressor+passive ids; both volumes decrease by the logged amount; the counter is "
              "updated after every fill and reset only by reset_trade_vol; Order.vol has no writer outside the fill and modify_order. "
              "These are necessary structural premises of the ledger property, not numeric reconciliation of particular histories."),
        note=TRUST + "Assumes valid histories (volumes >= 1, traded volume < 2^32)."),
    "C04": dict(
        claimed=True,
        technique="order-entity typestate (abstract interpretation with branch refinement, context-sensitive summaries) + write census + effect analysis of guard-failing CFG slices",
        text=("Sound abstract interpretation of the status/priority-map membership of every order entity through place/cancel/modify/"
              "loader and their callees: every status write checked against the predecessor table in all calling contexts, API entry->exit "
              "relation within the documented machine, terminal orders never written. Exact census rules for end_time/arr_time pairing with "
              "the clock, immutability of side/trader/id/start_vol, dense ids, and empty effect of the guard-failing slices (redundant requests)."),
        note=TRUST + "Assumes ids refer to existing orders; Filled<=>vol==0 is itself checked (filled-iff-zero)."),
    "C02": dict(
        claimed=True,
        technique="lock-step operand rules on the side structure + typestate accounting (pending-volume discipline) + sibling mirror of bid/ask wrappers + origin checks of views/level walk + must-pass-through (never crossed) + panic-site census with discharge table",
        text=("Decides the structural premises from which 'views == recomputation from active orders' follows: the three side structures move "
              "together by the same operand; every volume change of a filed order is mirrored at its own level before the API returns; "
              "bid wrappers differ from ask wrappers only by the MAX-price inversion; level walks step touch -/+ i*tick; every Level1/Level2 "
              "field is fed from the same-side getter; each live insertion is preceded by the trading test + opposite-side matching loop; no "
              "&self query can abort (panic census, discharge table). Numeric equality for particular states is not computed."),
        note=TRUST + "Assumes valid histories (resting volume < 2^32, LEVELS*tick < 2^32, valid ids)."),
}
