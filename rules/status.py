"""Per-property claim table used by bin/gen_manifest.py."""

TRUST = ("Trusted: rustc MIR construction/type resolution; std collections, mem::take, cmp::min; crates pinned in "
         "Cargo.lock; the informal argument from the checked structural premises to the behavioural statement (DESIGN.md section 4). ")

NOTES = ("Technique family: static analysis only. Every check re-extracts MIR facts from /repo's working tree (content-hash "
         "cache), evaluates repository-specific rules and reports file:line + function of the violating construct. "
         "No bourse code is executed, concretely or symbolically.")

STATUS = {
    "C03": dict(
        claimed=True,
        technique="MIR census + provenance (single writer, record field origins, must-pass counter update, write census of Order.vol)",
        text=("Decides on every path of the code: the trade log has one append-only writer; each record's fields originate from "
              "clock/passive side+price/min volume/aggressor+passive ids; both volumes decrease by the logged amount; the counter is "
              "updated after every fill and reset only by reset_trade_vol; Order.vol has no writer outside the fill and modify_order. "
              "These are necessary structural premises of the ledger property, not numeric reconciliation of particular histories."),
        note=TRUST + "Assumes valid histories (volumes >= 1, traded volume < 2^32)."),
}
