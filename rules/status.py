"""Per-property claim table used by bin/gen_manifest.py."""

TRUST = ("Trusted: rustc MIR construction/type resolution; std collections, mem::take, cmp::min; crates pinned in "
         "Cargo.lock; the informal argument from the checked structural premises to the behavioural statement (DESIGN.md section 4). ")

NOTES = ("Technique family: static analysis only. Every check re-extracts MIR facts from /repo's working tree (content-hash "
         "cache), evaluates repository-specific rules and reports file:line + function of the violating construct. "
         "No bourse code is executed, concretely or symbolically.")

STATUS = {
    "C03": dict(
        claimed=True,
        technique="MIR census + provenance (single writer, record field origins, argument origins at every trade-writer call context of the side-specialised whole-operation views, write census of Order.vol) + interprocedural must-flow of every fill volume into the cumulative counter (directly or through returned accumulators) + reset-body rule + matching-loop rules (limits admit the trade price, current best price) + per-case modify rules (volume changes only as requested) + write-back rule (every path that modifies the working copy of an order stores it back)",
        text=("Decides on every path of the code: the trade log has one append-only writer; each record's fields originate from "
              "clock/passive side+price/min volume/aggressor+passive ids; both volumes decrease by the logged amount; the counter is "
              "updated after every fill and reset only by reset_trade_vol; Order.vol has no writer outside the fill and modify_order. "
              "These are necessary structural premises of the ledger property, not numeric reconciliation of particular histories."),
        note=TRUST + "Assumes valid histories (volumes >= 1, traded volume < 2^32)."),
    "C04": dict(
        claimed=True,
        technique="order-entity typestate (abstract interpretation with branch refinement, context-sensitive summaries; components: status, queue membership, side, pending volume, kind, end/arrival time stamped from the clock) run per side on whole-operation views of place/cancel/modify and judged on their exit states + write census + effect analysis of guard-failing CFG slices + `Rejected` only under trading == false at placement",
        text=("Sound abstract interpretation of the status/priority-map membership of every order entity through place/cancel/modify/"
              "loader and their callees: every status write checked against the predecessor table in all calling contexts, API entry->exit "
              "relation within the documented machine, terminal orders never written. end_time := clock exactly for orders that become terminal in the call and arr_time := clock exactly for placed orders (exit-state rule, wherever in the call tree the stamp is written),  immutability of side/trader/id/start_vol, dense ids, and empty effect of the guard-failing slices (redundant requests)."),
        note=TRUST + "Assumes ids refer to existing orders; Filled<=>vol==0 is itself checked (filled-iff-zero)."),
    "C02": dict(
        claimed=True,
        technique="lock-step operand rules on the side structure + typestate accounting (pending-volume discipline, run per side on whole-operation views) + sibling mirror of bid/ask wrappers + origin checks of views/level walk + must-pass-through of the opposite-side matching loop before every insertion (never crossed, side views) + panic-site census with discharge table",
        text=("Decides the structural premises from which 'views == recomputation from active orders' follows: the three side structures move "
              "together by the same operand; every volume change of a filed order is mirrored at its own level before the API returns; "
              "bid wrappers differ from ask wrappers only by the MAX-price inversion; level walks step touch -/+ i*tick; every Level1/Level2 "
              "field is fed from the same-side getter; each live insertion is preceded by the trading test + opposite-side matching loop; no "
              "&self query can abort (panic census, discharge table). Numeric equality for particular states is not computed."),
        note=TRUST + "Assumes valid histories (resting volume < 2^32, LEVELS*tick < 2^32, valid ids)."),
    "C01": dict(
        claimed=True,
        technique="rules on side-specialised whole-operation views of the API entries (private helpers spliced in, the order's side fixed, constant and joined-value branches normalised): provenance of priority keys (K1/K3), sibling mirror of side wrappers (K2), loop-condition/exit-edge/termination/progress analysis of every matching-loop context and must-pass-through of the opposite-side loop (K4), fill-rule origins (K5), typestate exit states (K6), finite case analysis of the modify dispatch (K7) + fresh-stamp rule at every live insertion site (queue time taken in the same operation)",
        text=("Decides the premises K1-K6 from which agreement with a reference price-time engine follows by induction (given invariant I, itself "
              "proved by the typestate analysis, and BTreeMap ordering): key price = order price through a monotone side transform, key time = clock / "
              "strictly increasing stamp at the call, loops pop the head of the opposite side under `vol > 0 && limit admits best` and leave only when a "
              "conjunct fails or the side is empty, fill = min at the passive price, remainders queue on their own side iff limit and not Filled. "
              "The induction is an informal argument; extensional equality on concrete histories is not computed."),
        note=TRUST + "Assumes valid histories (clock non-decreasing, prices strictly inside (0, 2^32-1))."),
    "C05": dict(
        claimed=True,
        technique="provenance of the key's time component at every key write of the side-specialised whole-operation views + idiom check of the stamp method (returns max(clock, counter), counter := result+1, single writer) + loader origin check (loader helpers spliced in) + C08's batch rules for over-full steps + write-back rule for the re-keyed working copy",
        text=("Decides the necessary structural condition for tie histories: the priority-map key is injective over queued orders and ordered by "
              "queueing sequence, because every queue time is a strictly increasing stamp that feeds exactly one key, the map key contains it, and the "
              "loader restores the counter above all stored queue times. Raw clock / order id are rejected as uniqueness sources. Behaviour of the other "
              "properties on tie histories follows from their own rules and is not re-argued."),
        note=TRUST + "Assumes queue times stay below 2^64-1."),
    "C06": dict(
        claimed=True,
        technique="finite case analysis over (status, Option shapes of new_price/new_vol, v < current volume, price on grid) with branch conditions evaluated per case on the whole-operation view of modify_order (what runs: side-index operations, field writes and their values per case) + effect summaries (priority map untouched in place) + typestate of the replacement path + key provenance + write census + must-pass re-match rule and matching-loop rules on the replacement path",
        text=("Decides on modify_order's CFG: in-place iff (None, Some(v)) with v strictly below the current volume, that path never writes a priority "
              "map and only the volume; (None, None) reaches no effectful call; the other dispatches pass exactly requested/kept price and volume to one "
              "replacement routine that removes, assigns, re-matches under the trading guard and re-queues iff not Filled under a fresh key; identity fields "
              "and arr_time have no writer reachable from modify_order."),
        note=TRUST + "Assumes the order id exists and modify volumes >= 1."),
    "C12": dict(
        claimed=True,
        technique="grid-alignment abstract domain over price provenance (remainder-guard dominance / per-case unreachability, interprocedural through call sites) + finite case analysis of create_order (off-grid: no effect and an error; on-grid and market: always stored) + effect analysis of forwarding layers + level-walk rule and constructor-stores-argument rule",
        text=("Decides that every value that can reach Order.price (field writes and constructor calls) is a market sentinel, an existing order price, or "
              "dominated by `v % tick_size == 0` on every feasible path from the public API; that the rejecting slices of create_order have no effect and "
              "return an error; and that Market/Env/MarketEnv creation paths perform their own effects only after the creation succeeded."),
        note=TRUST + "tick_size > 0 is asserted by the constructor."),
    "C13": dict(
        claimed=True,
        technique="guard dominance on whole-operation views (every trade-writer call and every matching loop of every public entry is control-dependent on trading == true; the writer is called only inside matching loops), effect analysis of the `trading == false` branch slices of place_order per side and kind, must-pass-through (never crossed), writer census of the flag, fan-out shape rules + arrival rules (creation decides nothing; Rejected only under trading == false)",
        text=("Decides: no call chain from a public book entry reaches the trade writer without a call site controlled by trading == true; with the flag "
              "off market placement only marks Rejected + end_time; insertions do not depend on the flag; the flag has exactly two constant writers that "
              "write nothing else, no copy exists, and the Market/Env/MarketEnv toggles reach every book and the same-named toggle."),
        note=TRUST),
    "C07": dict(
        claimed=True,
        technique="writer/reader table agreement read from the MIR of the generated serde impls + loader provenance/typestate (loader mode) + semantic save/load rule on inlined views (serializer per `pretty`, truncating file sink, every fallible result propagated) + panic census of the load path",
        text=("Decides the structural core of snapshot fidelity: the serialised key set equals the reader struct's accepted key set by name and type, "
              "no field of any serialised type is skipped/renamed/defaulted beyond the rebuilt indexes; the loader copies every other field from the "
              "same-named reader field and rebuilds the indexes by filing exactly the Active entries on their own side under stored key/id/remaining "
              "volume over all entries (establishes invariant I from the order table alone); save/load are siblings that only propagate errors; no "
              "undischarged panic site on the load path. Value-level round-trip equality and serde_json's handling of truncated bytes are trusted."),
        note=TRUST + "serde_json rejects strict prefixes of an object document (trusted)."),
    "C08": dict(
        claimed=True,
        technique="shape rules on the step CFG (take/replace-with-empty, single loop with enumerate index or verified position counter, dominance of clock writes over process_event, origin of the time expressions, benign emptiness guards), mutator census, reset-body rule, dispatch name-role agreement, sibling comparison Env/MarketEnv + unconditional per-asset forwarding of place / cancel / modify by Market + batch-intact rule (between the take and the loop the batch is only shuffled, measured and iterated; in-place shuffle + full drain accepted)",
        text=("Decides: the queue is emptied by mem::take and exactly that batch is iterated once, every item gets `start + index` then one process_event, "
              "the clock ends at `start + step_size`, the volume reset precedes the loop, nothing else mutates the book; process_event dispatches all three "
              "instruction kinds with fields bound by name; submission functions queue exactly one same-named event. Replay equivalence with a plain book "
              "is by construction (the step drives its own OrderBook through the public API)."),
        note=TRUST + "Batch sizes up to the step size."),
    "C10": dict(
        claimed=True,
        technique="sound effect (mod) analysis with closure and cross-crate summaries; writer census of the cached snapshot; signature scan for mutable hand-outs + creation decides nothing about the order's outcome",
        text=("Proof-level for the effect clause: the computed may-write sets of the six submission functions are contained in {queue} (+ order-table "
              "append for place_order); unknown callees are over-approximated as writing everything below their &mut arguments and none remain. The "
              "cached snapshot has one assignment (end of step, from the live data) plus construction; no public API returns mutable access."),
        note=TRUST + "Soundness of the effect analysis rests on: no interior mutability (checked), no unsafe (none in the workspace), std semantics of push/take."),
    "C11": dict(
        claimed=True,
        technique="side-qualifier / quantity agreement of push origins against the frozen (bid, ask) conventions read through symbolic loop items (index / zip / enumerate loops alike); coverage of every level and asset; writer census; getter origin checks; must-flow of fill volumes into the recorded counter (shared with C03) + trade-time and reset-every-step rules + views rule on the snapshot feeds (OrderBook / Market level_2_data composed of the live book's own queries)",
        text=("Decides alignment and faithfulness structurally: one push per series per step, each series fed from the same-side same-quantity field at the "
              "same level index, per-asset indexes agree, traded volume read from the counter after the loop, no other writers, getters return the series "
              "their names say."),
        note=TRUST),
    "C15": dict(
        claimed=True,
        technique="resolved-callee and argument provenance of the shuffle call, dominance over the loop, deny list of reordering calls on the batch, Cargo.lock pin + nothing is decided at submission (creation rule) + C08's queue rules on the shuffled batch (taken whole, once, nothing split off, filtered or put back)",
        text=("Decides the reduction to the trusted library (not the statistics): one unconditional rand SliceRandom::shuffle of the whole batch with the "
              "step's generator, nothing reorders or drops afterwards, no other randomness in step, rand 0.8.5 pinned. Uniformity of Fisher-Yates and "
              "generator quality are trusted; no frequencies are measured."),
        note=TRUST + "rand 0.8.5 shuffle is Fisher-Yates driven only by the passed generator."),
    "C09": dict(
        claimed=True,
        technique="deny-list reachability on the resolved call graph + provenance of every generator argument (through reborrows and closure captures) + construction-site census + sibling comparison of the runner branches + Cargo.lock pins (roots include agent / environment constructors; deny list includes once-initialised and shared mutable statics) (roots include the macro-generated AgentSet / MarketAgentSet update bodies)",
        text=("Decides by effect analysis that nothing but the seeded generator can influence a run: no deny-listed nondeterminism source is reachable "
              "from any simulation root, every draw takes the enclosing function's own generator parameter, generators are built once from the seed "
              "parameter in the runners / PyO3 constructors only, both progress branches are identical. Sound over-approximation modulo the listed "
              "library trust. 'Different seeds give different runs' is not decided."),
        note=TRUST + "kdam (progress bar) is exempt: display only."),
    "C14": dict(
        claimed=True,
        technique="forwarding conformance: index provenance (asset parameter / closure index), name-role agreement of forwarded arguments, same-named callee, effect summaries confined to order_books[asset], fan-out loop shape; the multi-asset step is held to the single-asset batch / snapshot / recording rule sets (C08, C10, C11 instantiated for MarketEnv) + C02's all-asset view rule and C08's submission rules for MarketEnv",
        text=("Decides that Market and MarketEnv are literal forwarders: each per-asset method reaches exactly order_books[its asset] with id order_id.1 and "
              "name-bound arguments, all-asset queries index only with the closure index and call the matching singular query, clock/toggles/reset reach "
              "every book, MarketEnv getters index with their asset parameter. Equality with stand-alone books then follows from the book-level properties."),
        note=TRUST + "get_order_book_mut is a documented escape hatch (noted, not a violation)."),
    "C20": dict(
        claimed=True,
        technique="fact extraction of a generated witness crate (exhaustive struct shapes up to a bound) + the repository's own derive sites + deviation rules on the derive entry points (no restricting/reordering/grouping of fields, only the identifier read, count never consulted) + token-program reconstruction when the macro uses the accumulate-in-a-loop idiom",
        text=("Exhaustive over the bounded witness family (quick: all shapes with 1..3 fields over {A, B, nested set} + long shapes up to 8 fields, both "
              "macros; thorough: all shapes up to 6 fields + a 1/37 sample of the 8-field shapes) that each generated update is the straight-line "
              "declaration-order sequence of field updates on the shared env/rng, and a uniformity argument read off the macro's own code (only the "
              "identifier of each field is read, plain iteration, one fixed token sequence per field) that extends the verdict to all shapes."),
        note=TRUST + "quote/syn/proc-macro2 semantics of push_* calls (trusted)."),
    "C16": dict(
        claimed=True,
        technique="grid-alignment / sign abstract domains over price provenance on inlined helper views, sibling checks of the helper functions, element provenance through iterator chains / explicit loops and closure captures, per-slot model of the random agents (closure, helper and loop spellings), Bernoulli-comparison census, constructor origin checks, panic-site census with discharge table + an activated slot always acts (must-pass)",
        text=("Decides for the built-in agents: every submitted limit price is on the agent's tick grid (including after the final clamp), buys quote "
              "at or below and sells at or above the observed mid, ids/volumes/ticks come from the agent's own configuration, cancellations only "
              "target own ids that passed the Active filter, random agents hold at most one live order per slot, every draw-vs-probability comparison "
              "is `u < p` / `u >= p` (so p = 0 never and p >= 1 always acts, once per trader per step), and every panic-capable site reachable from an "
              "update is discharged under stated parameter assumptions. Probabilities strictly between 0 and 1 and runs outside the assumptions are not decided."),
        note=TRUST + "Assumes agent tick = environment tick, non-empty ranges, finite distribution parameters."),
    "C17": dict(
        claimed=True,
        technique="sign-domain abstract interpretation of the momentum update bodies with feasibility of guarded placement sites (only loop / draw / sign-of-M conditions admitted), origin checks of the recurrence, of the documented probability formula, of the first-step and constructor values, mirror/sibling checks (on views pruned by the sign of M) + recurrence applied on every step with a previous price",
        text=("Decides direction and symmetry structurally: for M > 0 exactly the buy sites are feasible, for M < 0 exactly the sell sites, for M = 0 none; "
              "the probability compared with the draw is non-negative and even in M; the stored recurrence is m(1-decay)+decay(P-p); buy/sell "
              "branches and single/multi-asset variants mirror each other. Sound sign abstraction under the stated positive-parameter assumptions; "
              "the numeric value of the probability is not decided."),
        note=TRUST + "Assumes demand, scale, order_ratio, n > 0 and decay in (0, 1]."),
    "C18": dict(
        claimed=True,
        technique="forwarding conformance of the PyO3 wrappers on their MIR: expected-callee table keyed by the public Python names, name-role and qualifier-token agreement (incl. (bid, ask) pair getters and constructors), whole-list rule for record getters, constant tables of the conversions, tuple-layout vs documentation, signature scan, StepEnv/StepEnvNumpy sibling comparison + C07's snapshot rule set for the JSON clause + C09's deny-list reachability rooted at the StepEnv methods (seed determinism)",
        text=("Decides that the Python classes are literal forwarders: each wrapper calls exactly the expected core function with arguments bound by name, "
              "reads the side/quantity its name says, converts bool<->Side and Status->u8 as documented, lays records out as documented, takes only core "
              "integer types (so out-of-range ints are rejected by PyO3 before the body), maps OrderError to ValueError without own effects, seeds and uses "
              "the generator only in new/step, and forwards snapshots. The compiled extension is not executed under CPython."),
        note=TRUST + "PyO3 0.20 extraction semantics (OverflowError on out-of-range ints) are trusted."),
    "C19": dict(
        claimed=True,
        technique="translation validation between documentation tables (Rust doc comments, Python docstrings parsed with ast/regex) and the element/key/column origins of the builders extracted from MIR through an abstract array/dictionary model (literal prefix + per-level block of one complete level loop; key templates evaluated with constant arguments) + dictionary complete on every path + C11's reset rule for array element 0 + C02's views / level-walk / wrapper rules on the records the builders read (documented quantity)",
        text=("Static conformance check, exactly as the property names it: for all four array builders, both market-data dictionaries and both data-frame "
              "helpers the documented layout (index -> quantity, key -> series, column -> field) equals the layout the code builds, element by element, "
              "including lengths and the per-level loop. Array contents for concrete states are not computed."),
        note=TRUST + "Decoding of format! templates from the compiled constant (literal pieces only)."),
}
