"""C08 – a step applies exactly the queued instructions, once each, as a batch (DESIGN.md §4 C08)."""
from analysis.origin import render, field_chain, walk
from analysis.typestate import same
from .model import Model, fld
from .stepmodel import StepShape, ADAPTERS
from . import c02

LEVEL = "other"
MIN_OBLIGATIONS = 40
EXPLANATION = (
    "Shape rules on both step functions and their siblings: the instruction queue field is emptied by mem::take and the "
    "taken vector is what the single processing loop iterates (adapter chain: enumerate last, no skip/take/filter/...); in "
    "the loop body, on every path, exactly one clock write `start + index` (start = get_time() read before any clock write, "
    "index = the enumerate index) dominates exactly one process_event with the loop item; after the loop one clock write "
    "`start + self.step_size`; the traded-volume reset dominates the loop; the only mutators of the book/market called by "
    "step are {reset, set_time, process_event}. process_event (book and market) dispatches exhaustively New->place, "
    "Cancellation->cancel, Modify->modify binding order_id/new_price/new_vol by name; the submission functions build the "
    "event from same-named parameters and push exactly one. Env::step and MarketEnv::step are compared as siblings.")


def run(ctx):
    m = Model(ctx)
    shapes = {}
    for owner, getter, obj in (("Env", m.env_fn, "order_book"), ("MarketEnv", m.menv_fn, "market")):
        f = getter("step")
        s = StepShape(m, f, obj)
        shapes[owner] = s
        step_rules(ctx, m, owner, s)
    # sibling comparison of the two step functions (event abstraction: ordered repo-local calls on the wrapped object)
    def abstraction(s):
        out = []
        for c in s.q.ordered(s.q.calls()):
            # mutators of the wrapped object, plus the three reads every step is built around; further read-only queries (an extra
            # recorded statistic) cannot change what the step does to the book and are judged, where they matter, by the recording rules
            mut = bool(c.term.args) and c.term.args[0].place is not None and (c.term.args[0].place.ty or "").startswith("&mut")
            if s.on_obj(c) and (mut or c.name in ("get_time", "level_2_data", "get_trade_vol", "get_trade_vols")):
                out.append(c.name.replace("reset_trade_vols", "reset_trade_vol").replace("get_trade_vols", "get_trade_vol"))
        return out
    a, b = abstraction(shapes["Env"]), abstraction(shapes["MarketEnv"])

    def canon(seq):
        # the counter reset and the getters commute with each other: compare what is called (multiset) and the order of the
        # clock writes / applications (that the reset precedes the loop is its own rule)
        return (sorted(seq), [x for x in seq if x in ("set_time", "process_event")])
    ctx.check(canon(a) == canon(b), "siblings", "step", ctx.loc(shapes["MarketEnv"].f), "Env::step and MarketEnv::step drive their book/market through the same call sequence %s" % a,
              "Env::step does %s but MarketEnv::step does %s" % (a, b))
    dispatch_rules(ctx, m)
    # submission functions
    submission_rules(ctx, m, (("Env", m.env_fn, "order_book"), ("MarketEnv", m.menv_fn, "market")))
    # a queued instruction reaches the addressed book unchanged: Market::{place,cancel,modify}_order forward unconditionally
    from .c14 import per_asset_rules
    per_asset_rules(ctx, m, names=("place_order", "cancel_order", "modify_order"), RULE="market-forward")
    ctx.assume("batch sizes up to the step size (beyond that intra-step times run into the next step; C05's stamp rule keeps queue order)")
    ctx.note("the permutation applied to the batch is rand's shuffle: C15")


def dispatch_rules(ctx, m, owners=("OrderBook", "Market")):
    """process_event hands every instruction to the direct method of its kind, once, unconditionally, fields bound by name
    (shared with C06 / C14: an instruction delivered as an event behaves exactly like the direct call)"""
    # process_event dispatch
    for owner, f in (("OrderBook", m.book_fn("process_event")), ("Market", m.market_fn("process_event"))):
        if owner not in owners:
            continue
        q = m.q(f)
        want = {"New": ("place_order", ["order_id"]), "Cancellation": ("cancel_order", ["order_id"]), "Modify": ("modify_order", ["order_id", "new_price", "new_vol"])}
        calls = [c for c in q.calls() if c.target is not None]
        if owner == "Market" and len(calls) != 3:
            # alternative spelling: split the instruction into (asset, per-book instruction) and forward to that book's
            # process_event (whose own dispatch is checked above)
            qi_ = m.qi(f)
            fw = [c for c in qi_.calls("process_event") if c.target is not None and (c.target.impl_adt or "").endswith("orderbook::OrderBook")]
            okf = len(fw) == 1 and not fw[0].guards and len([c for c in qi_.calls() if c.target is not None]) == 1
            detail = "%d forwarding calls" % len(fw)
            if okf:
                recv, ev = fw[0].args[0], fw[0].args[1]
                ix = [x for x in walk(recv) if x[0] == "index"]
                alts = ev[1] if ev[0] == "phi" else (ev,)
                vs = {}
                for a in alts:
                    if a[0] == "agg" and "Event::" in a[2]:
                        vs[a[2].split("::")[-1]] = dict(zip(a[4], a[3]))
                okf = set(vs) == set(want) and len(ix) == 1
                detail = "forwarded instruction kinds %s" % sorted(vs)
                for v, fields in vs.items():
                    for fname, e in fields.items():
                        root, names = field_chain(e)
                        names = [n for n in names if not n.startswith("as ")]
                        good = root[0] == "param" and root[2] == "event" and any(x[0] == "downcast" and x[2] == v for x in walk(e)) and \
                            (names == ["order_id", "1"] if fname == "order_id" else names == [fname])
                        if not good:
                            okf = False
                            detail = "%s.%s <- %s" % (v, fname, render(e))
                if okf:
                    idx = ix[0][2]
                    ialts = idx[1] if idx[0] == "phi" else (idx,)
                    okf = all(field_chain(a)[0][0] == "param" and [n for n in field_chain(a)[1] if not n.startswith("as ")] == ["order_id", "0"] for a in ialts)
                    detail = "book index %s" % render(idx)
            ctx.check(okf, "dispatch", "Market|forward", ctx.loc(f), "Market::process_event forwards each instruction, re-addressed to (asset, id), to order_books[asset].process_event, fields bound by name",
                      "Market::process_event neither dispatches on the three kinds nor forwards a faithfully re-addressed instruction: " + detail)
            continue
        ctx.check(len(calls) == 3, "dispatch", owner + "|arms", ctx.loc(f), "%s::process_event has exactly 3 dispatch calls" % owner, "%s::process_event makes %d calls" % (owner, len(calls)))
        seen = set()
        for c in calls:
            var = [a[2][0] for a in c.guards if a[0] == "variant" and a[1][0] == "param" and a[1][2] == "event" and len(a[2]) == 1]
            if len(var) != 1 or var[0] not in want:
                ctx.bad("dispatch", "%s|unguarded|%s" % (owner, c.name), c.loc(), "call %s is not under a single event-variant arm: [%s]" % (c.name, c.gtext()))
                continue
            v = var[0]
            seen.add(v)
            name, fields = want[v]
            ok = c.name == name and c.target.impl_adt == f.impl_adt and c.args[0] == ("param", 1, "self")
            for i, fn_ in enumerate(fields):
                a = c.args[i + 1] if i + 1 < len(c.args) else None
                ok = ok and a is not None and a[0] == "field" and a[2] == fn_ and a[1][0] == "downcast" and a[1][2] == v and c.formals[i + 1] == fn_
            ctx.check(ok, "dispatch", "%s|%s" % (owner, v), c.loc(), "%s -> %s(%s) with fields bound by name" % (v, name, ", ".join(fields)),
                      "%s arm calls %s" % (v, c.text()))
        ctx.check(seen == set(want), "dispatch", owner + "|exhaustive", ctx.loc(f), "all three instruction kinds are dispatched", "only %s dispatched" % sorted(seen))


def submission_rules(ctx, m, owners):
    """each submission function queues exactly one instruction built from its same-named parameters"""
    for owner, getter, obj in owners:
        qf = StepShape(m, getter("step"), obj).queue_field
        for name, variant, fields in (("place_order", "New", ["order_id"]), ("cancel_order", "Cancellation", ["order_id"]), ("modify_order", "Modify", ["order_id", "new_price", "new_vol"])):
            f = getter(name)
            q = m.qi(f)    # a private `submit(event)` wrapper around the queue push is spliced in
            pushes = [c for c in q.calls("push") if fld(c.args[0], qf)]
            ok = len(pushes) == 1 and not q.cfg.in_loop(pushes[0].b)
            if ok:
                # unconditional, except that place_order queues only after the creation succeeded
                extra = [a for a in pushes[0].guards if not (name == "place_order" and a[0] == "variant" and a[2] in (("Continue",), ("Ok",)))]
                ctx.check(not extra, "submit", "%s::%s|unconditional" % (owner, name), pushes[0].loc(), "%s::%s queues its instruction unconditionally" % (owner, name),
                          "%s::%s queues its instruction only under [%s]: a submitted instruction can be dropped" % (owner, name, pushes[0].gtext()))
            ctx.check(ok, "submit", "%s::%s|one-push" % (owner, name), ctx.loc(f), "%s::%s queues exactly one instruction" % (owner, name),
                      "%s::%s pushes %d instructions" % (owner, name, len(pushes)))
            if not ok:
                continue
            ev = pushes[0].args[1]
            okv = ev[0] == "agg" and ev[2].endswith("Event::" + variant)
            if okv:
                fv = dict(zip(ev[4], ev[3]))
                for fn_ in fields:
                    v = fv.get(fn_)
                    if name == "place_order" and fn_ == "order_id":
                        okv = okv and v is not None and any(x[0] == "call" and x[4] == "create_order" for x in walk(v)) and v[0] == "field" and v[1][0] == "downcast" and v[1][2] in ("Continue", "Ok")
                    else:
                        okv = okv and v is not None and v[0] == "param" and v[2] == fn_
            ctx.check(okv, "submit", "%s::%s|event" % (owner, name), pushes[0].loc(), "%s::%s queues Event::%s built from %s" % (owner, name, variant, ", ".join(fields)),
                      "%s::%s queues %s" % (owner, name, render(ev)))


def step_rules(ctx, m, owner, s):
    if not queue_rules(ctx, m, owner, s):
        return
    loop_rules(ctx, m, owner, s)


def queue_rules(ctx, m, owner, s):
    """the step takes the WHOLE queue, once, and nothing but the shuffle touches the batch before it is processed
    (shared with C15: the shuffled batch is everything that was queued)"""
    q, f = s.q, s.f
    tag = owner + "::step"
    if s.take is None or not s.has_batch():
        ctx.lost("queue", "%s does not empty its instruction queue with mem::take into a local" % tag)
        return False
    ctx.ok("queue", s.take.loc(), "%s empties self.%s %s" % (tag, s.queue_field, "by draining it completely in the processing loop" if s.in_place else "with mem::take into a local batch"))
    ctx.check(not s.take.guards and not q.cfg.in_loop(s.take.b), "queue", tag + "|take-once", s.take.loc(), "the queue is taken once, unconditionally")
    if s.take.name == "replace":
        rv = s.take.args[1] if len(s.take.args) > 1 else ("unk",)
        empty = rv[0] == "call" and ((rv[4] == "new" and "Vec" in rv[1] and not rv[2]) or rv[4] == "default") or (rv[0] == "call" and rv[4] in ("with_capacity",) and "Vec" in rv[1])
        ctx.check(empty, "queue", tag + "|replace-empty", s.take.loc(), "mem::replace leaves an empty queue behind", "mem::replace puts %s back into the queue" % render(rv))
    qw = [w for w in q.writes(field=s.queue_field) if w.root[0] == "param"]
    ctx.check(not qw, "queue", tag + "|no-refill", ctx.loc(f), "step does not write the queue field again (it stays empty)", "step writes the queue again: %s" % "; ".join(w.text() for w in qw))
    # "applies exactly the queued instructions": from the take to the loop nothing may add, drop, replace or filter batch elements.
    # The batch may only be shuffled, measured (len / is_empty) and turned into the loop's iterator.
    BATCH_READS = ("shuffle", "len", "is_empty", "into_iter", "iter", "enumerate", "zip", "rev", "deref", "deref_mut", "as_slice", "as_mut_slice",
                   "by_ref", "next", "borrow", "borrow_mut", "as_ref", "as_mut", "drop", "drop_in_place")
    touching = [x for x in q.calls() if x is not s.take and any(s.mentions_batch(a) for a in x.args)]
    bad = [x for x in touching if x.name not in BATCH_READS]
    redefs = []
    if s.T is not None:
        redefs = [d for d in q.ev.def_sites().get(s.T, []) if not (d[0] == "c" and d[1] == s.take.b)]
    ctx.check(not bad and not redefs, "queue", tag + "|batch-intact", bad[0].loc() if bad else ctx.loc(f),
              "between the take and the loop the batch is only shuffled, measured and iterated (%d uses: %s)" % (len(touching), ", ".join(sorted({x.name for x in touching}))),
              "the taken batch is passed to %s%s before / while it is processed: instructions can be dropped, added or replaced" % (
                  ", ".join(sorted({x.name for x in bad})) or "-", "; the batch local is assigned again" if redefs else ""))
    if s.loop_next is None:
        ctx.lost("loop", "%s has no loop iterating the taken batch" % tag)
        return False
    return True


def loop_rules(ctx, m, owner, s):
    q, f = s.q, s.f
    tag = owner + "::step"
    chain = list(s.chain)
    s.iter_chain(s.loop_next)      # (sets s.zip_partner for this loop)
    enumerated = "enumerate" in chain
    # `(start..).zip(batch)`: the unbounded range of clock values start, start+1, .. restricts nothing and its element IS the
    # time of the item's position
    zipped = s.zip_clock(s.get_time[0].result) if len(s.get_time) == 1 and chain.count("zip") == 1 and not enumerated else None
    plain = [n for n in chain if not (n == "zip" and zipped is not None)]
    ctx.check(plain and plain[0] in ("into_iter", "iter") and not [n for n in plain if n in ADAPTERS and n != "rev"]
              and [n for n in plain if n not in ("into_iter", "iter", "rev")] == (["enumerate"] if enumerated else []), "loop", tag + "|adapters", s.loop_next.loc(),
              "the loop iterates the whole taken batch: adapter chain %s" % list(reversed(chain)), "the loop's iterator chain is %s (only rev*, then an optional enumerate or a zip with the unbounded clock range `start..` allowed)" % list(reversed(chain)))
    loops_over_T = [c for c in q.calls("next") if q.cfg.in_loop(c.b) and s.is_batch((s.iter_chain(c) or [None])[-1])]
    ctx.check(len(loops_over_T) == 1, "loop", tag + "|single", ctx.loc(f), "exactly one loop consumes the batch")
    # start time
    ctx.check(len(s.get_time) == 1 and not s.get_time[0].guards and q.body.dominates(s.get_time[0].b, s.head), "clock", tag + "|start", ctx.loc(f),
              "start = get_time() read once before the loop", "get_time() is read %d times / not before the loop" % len(s.get_time))
    if len(s.get_time) != 1:
        return
    start = s.get_time[0].result
    first_set = [c for c in s.set_times if not q.cfg.strictly_after(s.get_time[0].b, c.b)]
    ctx.check(not first_set, "clock", tag + "|start-before-writes", ctx.loc(f), "no clock write precedes the start-time read")
    in_loop = [c for c in s.set_times if c.b in s.body]
    after = [c for c in s.set_times if c.b not in s.body]
    if enumerated:
        idx = s.item("0")
        item = s.item("1")
    elif zipped is not None:
        idx = None
        item = s.item(zipped)
    else:
        idx = None        # position = an explicit counter (0 before the loop, += 1 once per iteration, read before the increment)
        item = s.item()

    def is_sum(e, other_pred):
        b = c02.bin_of(e)
        if not b or b[0] != "Add":
            return False
        return (b[1] == start and other_pred(b[2])) or (b[2] == start and other_pred(b[1]))

    def is_idx(e):
        if idx is None:
            from .stepmodel import loop_counter
            return loop_counter(q, s.head, e) is not None
        while e[0] in ("conv", "cast"):
            e = e[1] if e[0] == "conv" else e[2]
        return same(e, idx)
    ok = len(in_loop) == 1 and is_sum(in_loop[0].args[1], is_idx)
    if zipped is not None:
        # the range element paired with the item is start + position by construction
        ok = len(in_loop) == 1 and same(in_loop[0].args[1], s.item("1" if zipped == "0" else "0"))
    ctx.check(ok, "clock", tag + "|intra-step", in_loop[0].loc() if in_loop else ctx.loc(f), "each processed instruction gets time start + its position in the processing order (%s)" % ("enumerate index" if enumerated else "explicit per-iteration counter"),
              "intra-step clock writes: %s" % "; ".join(c.text() for c in in_loop))
    pe = [c for c in s.process if c.b in s.body]
    ok = len(pe) == 1 and len(s.process) == 1 and same(pe[0].args[1], item)
    ctx.check(ok, "apply", tag + "|once", pe[0].loc() if pe else ctx.loc(f), "exactly one process_event per iteration, applied to the loop item",
              "process_event calls: %s" % "; ".join(c.text() for c in s.process))
    if len(in_loop) == 1 and len(pe) == 1:
        from .stepmodel import benign_batch_guard
        only_some = lambda c: all((a[0] == "variant" and a[2] == ("Some",)) or benign_batch_guard(a, s) for a in c.guards)  # noqa: E731
        ctx.check(only_some(in_loop[0]) and only_some(pe[0]) and q.body.dominates(in_loop[0].b, pe[0].b), "apply", tag + "|every-item", pe[0].loc(),
                  "clock write and process_event run for every item (no other condition), clock first",
                  "per-item processing is conditional: set_time [%s], process_event [%s]" % (in_loop[0].gtext(), pe[0].gtext()))
        inner = [h for h in q.body.loop_heads() if h != s.head and h in s.body]
        ctx.check(not inner, "apply", tag + "|no-inner-loop", ctx.loc(f), "no nested loop inside the processing loop")
    step_field = {}

    def is_step_len(e):
        """a field of self that `new` initialises from its `step_size` parameter and nothing else writes"""
        root, names = field_chain(e)
        if root != ("param", 1, "self") or len(names) != 1:
            return False
        newf = [g for g in ctx.prog.find(crate="bourse_de", adt=owner, name="new")]
        if len(newf) != 1:
            return False
        r = m.q(newf[0]).ret()
        agg = [x for x in walk(r) if x[0] == "agg" and x[1] == "adt" and x[2].endswith(owner + "::" + owner)]
        if not agg:
            return False
        v = dict(zip(agg[0][4], agg[0][3])).get(names[0])
        writers = [w for g in ctx.prog.find(crate="bourse_de", adt=owner) for w in m.q(g).writes(field=names[0]) if w.root == ("param", 1, "self")]
        step_field["name"] = names[0]
        return v is not None and v[0] == "param" and v[2] == "step_size" and not writers
    ok = len(after) == 1 and is_sum(after[0].args[1], is_step_len) \
        and all(a[0] == "variant" and a[2] == ("None",) for a in after[0].guards)
    ctx.check(ok, "clock", tag + "|jump", after[0].loc() if after else ctx.loc(f), "after the loop the clock is set to start + the configured step size (self.%s), once" % step_field.get("name", "?"),
              "post-loop clock writes: %s" % "; ".join(c.text() for c in after))
    ctx.check(len(s.resets) == 1 and not s.resets[0].guards and q.body.dominates(s.resets[0].b, s.head), "reset", tag, s.resets[0].loc() if s.resets else ctx.loc(f),
              "the traded-volume reset runs once before the loop", "traded-volume reset missing / conditional / after the loop")
    if owner == "Env":
        from .c03 import reset_rule
        reset_rule(ctx, m, "reset")
    # only {reset, set_time, process_event} mutate the wrapped object
    allowed = {"reset_trade_vol", "reset_trade_vols", "set_time", "process_event"}
    for c in q.calls():
        if s.on_obj(c) and c.term.args and c.term.args[0].place is not None and c.term.args[0].place.ty.startswith("&mut"):
            ctx.check(c.name in allowed, "applies-nothing-else", "%s|%s" % (tag, c.name), c.loc(), "mutator %s is one of {reset, set_time, process_event}" % c.name,
                      "step also mutates the %s through %s" % (s.obj, c.name))
    ws = [w for w in q.writes() if w.root[0] == "param" and w.names and w.names[0] == s.obj]
    ctx.check(not ws, "applies-nothing-else", tag + "|direct", ctx.loc(f), "step never writes the %s directly" % s.obj)
