"""C05 – equal timestamps never lose or reorder queued orders (DESIGN.md §4 C05)."""
from analysis.origin import render, field_chain, walk
from analysis.typestate import same
from .model import Model, fld
from .c04 import run_typestate
from . import c02

LEVEL = "other"
MIN_OBLIGATIONS = 14
EXPLANATION = (
    "Decides the necessary structural condition: the priority-map key is injective over simultaneously queued orders and "
    "ordered by queueing sequence. Obligations: every queue-time component written into an order key at a queueing site "
    "is the result of the stamp method; the stamp method returns max(clock, counter) and unconditionally stores result+1 in "
    "the counter, which has no other writer (so successive stamps strictly increase); each stamp feeds exactly one key; the "
    "priority map is keyed by (price key, that time); the loader restores the counter above every stored queue time of a "
    "placed order and re-files active orders under their stored keys. The raw clock and the order id are not accepted as "
    "uniqueness sources. That C01-C07 keep holding on tie histories then follows from their own rules; it is not argued "
    "separately here.")


def bin_of(v):
    return c02.bin_of(v)


def stamp_rules(ctx, m, prefix="stamp"):
    """validates the queue-stamp method; returns it (or None when the tree has none)"""
    from .c01 import stamp_fn
    f = stamp_fn(m)
    if f is None:
        return None
    q = m.q(f)
    r = q.ret()
    ok = r[0] == "call" and r[4] == "max" and len(r[2]) == 2
    if ok:
        a, b = r[2]
        reads = {field_chain(a)[1][-1] if field_chain(a)[1] else None, field_chain(b)[1][-1] if field_chain(b)[1] else None}
        ok = reads == {m.f_clock, m.f_stamp} and field_chain(a)[0][0] == "param" and field_chain(b)[0][0] == "param"
    ctx.check(ok, prefix, "returns-max", ctx.loc(f), "%s returns max(book clock, stamp counter)" % f.name, "%s returns %s" % (f.name, render(r)))
    ws = [w for w in q.writes(field=m.f_stamp) if w.root[0] == "param"]
    okw = len(ws) == 1 and not ws[0].guards and not q.cfg.in_loop(ws[0].b)
    if okw:
        b = bin_of(ws[0].val)
        okw = b is not None and b[0] == "Add" and b[1] == r and b[2][0] == "const" and b[2][3] == 1
        rets = q.body.return_blocks()
        okw = okw and all(q.cfg.all_paths_pass(0, rb, [ws[0].b]) for rb in rets)
    ctx.check(okw, prefix, "counter-advance", ws[0].loc() if ws else ctx.loc(f), "counter := returned stamp + 1, unconditionally, on every path",
              "the counter is not set to (returned stamp + 1) exactly once on every path: %s" % "; ".join(w.text() for w in ws))
    # no other writer of the counter
    for g in m.lib_fns("bourse_book"):
        if g.path == f.path:
            continue
        for w in m.q(g).writes(field=m.f_stamp, owner="OrderBook"):
            ctx.bad(prefix, "other-writer|" + g.short(), w.loc(), "stamp counter written outside the stamp method: " + w.text())
    ctx.ok(prefix, "-", "the stamp counter has no field writer outside the stamp method")
    return f



def loader_counter_rules(ctx, m, loaders):
    """the loader restores the stamp counter above every stored queue time of a placed order"""
    ctx.check(len(loaders) == 1, "loader", "found", "-", "snapshot loader found")
    for f in loaders:
        lq = m.qi(f)
        r = lq.ret()
        aggs = [x for x in walk(r) if x[0] == "agg" and x[1] == "adt" and x[2].endswith("OrderBook::OrderBook")]
        if not aggs:
            ctx.lost("loader", "loader does not build an OrderBook literal")
            continue
        fields = dict(zip(aggs[0][4], aggs[0][3]))
        v = fields.get(m.f_stamp)
        maxes = [x for x in walk(v) if x[0] == "call" and x[4] == "max"] if v else []
        ok = False
        # idiom 2: orders.iter().filter(|e| status != New).map(|e| key.2 + 1).max().unwrap_or(0)
        iter_ok = False
        for mx in maxes:
            if len(mx[2]) == 1 and mx[2][0][0] == "call":
                e = mx[2][0]
                names = []
                clos = {}
                while e[0] == "call" and e[2] and e[4] in ("map", "filter", "iter", "into_iter", "copied", "cloned"):
                    names.append(e[4])
                    if len(e[2]) > 1:
                        clos[e[4]] = e[2][1]
                    e = e[2][0]
                from analysis.beta import apply_closure
                from analysis.cfg import closure_apply
                if "map" in clos and fld(e, m.f_orders) and set(names) <= {"map", "filter", "iter", "into_iter"} and names.count("filter") <= 1:
                    body = closure_apply(ctx.prog, clos["map"], [("var", "e")])
                    b2 = bin_of(body) if body else None
                    if body and body[0] == "call" and body[4] in ("saturating_add", "wrapping_add", "checked_add") and len(body[2]) == 2:
                        b2 = ("Add", body[2][0], body[2][1])
                    good_map = b2 is not None and b2[0] == "Add" and b2[2][0] == "const" and b2[2][3] == 1 and b2[1][0] == "field" and b2[1][2] == "2" and b2[1][1][0] == "field" and b2[1][1][2] == "key"
                    good_filter = True
                    if "filter" in clos:
                        fb = closure_apply(ctx.prog, clos["filter"], [("var", "e")])
                        good_filter = fb is not None and fb[0] == "call" and fb[4] == "ne" and any(x[0] == "agg" and x[2].endswith("Status::New") for x in fb[2]) \
                            and any(x[0] == "field" and x[2] == "status" for x in fb[2])
                    iter_ok = good_map and good_filter
        if iter_ok:
            ctx.ok("loader", ctx.loc(f), "loader: counter <- max over the stored (placed) entries of key.2 + 1 (iterator form)")
            continue
        for mx in maxes:
            for a in mx[2]:
                b = bin_of(a)
                if a[0] == "call" and a[4] in ("saturating_add", "wrapping_add", "checked_add") and len(a[2]) == 2:
                    b = ("Add", a[2][0], a[2][1])
                if b and b[0] == "Add" and b[2][0] == "const" and b[2][3] == 1 and b[1][0] == "field" and b[1][2] == "2" and b[1][1][0] == "field" and b[1][1][2] == "key":
                    ok = True
        ctx.check(ok, "loader", "counter-restored", ctx.loc(f), "loader: counter <- max over stored entries of (key.2 + 1)",
                  "loader initialises the stamp counter with %s (expected a running max of key.2 + 1)" % (render(v) if v else "nothing"))
        # the update is guarded at most by `status != New`
        for c in lq.calls("max"):
            extra = [a for a in c.guards if not (a[0] == "variant" and a[2] == ("Some",)) and not (
                a[0] == "cmp" and a[1] == "ne" and a[2][0] == "field" and a[2][2] == "status" and a[3][0] == "agg" and a[3][2].endswith("Status::New"))]
            ctx.check(not extra and lq.cfg.in_loop(c.b), "loader", "counter-covers-all", c.loc(), "the running max visits every placed (non-New) stored order",
                      "the running max skips entries under: %s" % c.gtext())


def run(ctx):
    m = Model(ctx)
    ins = m.side_inner("insert_order")
    if m.f_stamp is None:
        ctx.bad("key-injective", ins.short(), ctx.loc(ins),
                "the priority map is keyed by (price key, raw book clock) and the book has no queue-stamp counter: two orders queued at one "
                "price without advancing the clock get equal keys and the later insert overwrites the earlier order id")
        return
    stamp = stamp_rules(ctx, m)
    if stamp is None:
        ctx.lost("stamp", "a stamp counter field exists but no method advances it")
        return
    # every live key write takes its time from a stamp call; each stamp call feeds exactly one key
    n = 0
    used = {}
    # (judged on the whole-operation views of the public mutating entry points: the key may be written in a helper shared
    #  by placement and replacement)
    op_roots = [f_ for f_ in m.book_pub_fns() if f_.params and f_.params[0] == "self"]
    for (f, S_, q) in [(f_, S_, m.sv(f_, S_)) for f_ in op_roots for S_ in ("Bid", "Ask")]:
        for w in q.writes(field="key", owner="OrderEntry"):
            n += 1
            v = w.val
            tcomp = None
            if v[0] == "agg" and v[1] == "tuple" and len(v[3]) == 3:
                tcomp = v[3][2]
            elif v[0] == "call" and v[2]:
                tf = ctx.prog.fn_by_short(v[1])
                if tf is not None and "t" in tf.params:
                    tcomp = v[2][tf.params.index("t")]
            ok = tcomp is not None and tcomp[0] == "call" and tcomp[4] == stamp.name and ctx.prog.fn_by_short(tcomp[1]) is stamp
            ctx.check(ok, "key-injective", "key-time|" + f.short(), w.loc(),
                      "queue time of the key written here <- %s() (unique, increasing)" % stamp.name,
                      "queue time of the key written here is %s: not a unique stamp (the clock repeats; ids are not in queue order)" % (render(tcomp) if tcomp else "?"))
            # which call block produced it
            for c in q.calls(stamp.name):
                if c.target is stamp and q.cfg.can_reach(c.b, w.b) and not any(
                        c2.b != c.b and q.cfg.can_reach(c.b, c2.b) and q.cfg.can_reach(c2.b, w.b) for c2 in q.calls(stamp.name)):
                    used.setdefault((f.path + "|" + S_, c.b), []).append(w)
        for c in q.calls(stamp.name):
            if c.target is stamp:
                ctx.check(not q.cfg.in_loop(c.b), "key-injective", "stamp-loop|" + f.short(), c.loc(), "stamp call is not inside a loop (one stamp per queueing)")
    for (fp, b), ws in used.items():
        fq = ws[0].q
        excl = all(not fq.cfg.can_reach(x.b, y.b) and not fq.cfg.can_reach(y.b, x.b) for i, x in enumerate(ws) for y in ws[i + 1:] if x.b != y.b) and len({x.b for x in ws}) == len(ws)
        ctx.check(len(ws) == 1 or excl, "key-injective", "one-key-per-stamp|" + fp, ws[0].loc(), "each stamp feeds exactly one order key on any path (%d mutually exclusive site(s))" % len(ws),
                  "one stamp can feed %d keys on one path" % len(ws))
    ctx.check(n >= 4, "key-injective", "census", "-", "%d key writes at queueing sites analysed" % n)
    # each key write is followed by an insert with that key: typestate insert/key rules
    ts, roots, loaders = run_typestate(ctx, m)
    for v in ts.violations.values():
        if v.rule in ("insert", "remove", "exit-invariant", "key-side", "typestate-anchor"):
            ctx.bad("queue-" + v.rule, v.key, v.where, v.what)
    n_ins = sum(1 for o in ts.ops if o[1] == "insert")
    ctx.check(n_ins >= 6, "queue-insert", "census", "-", "%d insertion sites: each files the order under the key stored with it (typestate)" % n_ins)
    # .. "stored with it": the re-keyed working copy (order AND key) is stored back as a whole on every modifying path - a stale
    # stored key makes the later removal miss the queue entry (the order stays queued after it is cancelled / filled)
    from .c02 import writeback
    from .c06 import _Prefixed
    writeback(_Prefixed(ctx, "queue-"), m)
    # the priority map is keyed by (price key, queue time)
    q = m.q(ins)
    pc = [c for c in q.calls("insert") if c.args and fld(c.args[0], m.s_prio)]
    ok = len(pc) == 1 and pc[0].args[1][0] == "agg" and len(pc[0].args[1][3]) == 2 and pc[0].args[1][3][1][0] == "field" and pc[0].args[1][3][1][2] == "2"
    ctx.check(ok, "key-injective", "map-key", ctx.loc(ins), "the priority map key contains the order key's queue-time component (key.2)",
              "the priority map key does not contain key.2")
    loader_counter_rules(ctx, m, loaders)
    # "a simulation step stays correct even when it carries more instructions than the step size has time units": no instruction
    # is dropped, truncated or deferred whatever the batch length (C08's batch rules; they contain no reference to step_size
    # other than the final clock write)
    from . import c08
    from .c06 import _Prefixed
    from .stepmodel import StepShape
    for owner_, getter_, obj_ in (("Env", m.env_fn, "order_book"), ("MarketEnv", m.menv_fn, "market")):
        c08.step_rules(_Prefixed(ctx, "overfull-"), m, owner_, StepShape(m, getter_("step"), obj_))
    ctx.note("Env/MarketEnv::step give instruction i the time start+i with no relation between batch length and step_size; "
             "when a batch is longer than step_size uniqueness rests entirely on the stamp rule above")
    ctx.assume("queue times stay below 2^64 - 1")
