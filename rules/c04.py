"""C04 – one-way order lifecycle; redundant requests are no-ops (DESIGN.md §4 C04)."""
from analysis.origin import render, field_chain, walk
from analysis.typestate import TypeState, STATUSES, TERMINAL, same
from analysis.effects import covers
from .model import Model, fld, ORDER, variant_of, status_const

LEVEL = "other"
MIN_OBLIGATIONS = 40
EXPLANATION = (
    "Order-entity typestate analysis (abstract interpretation over (status, in-priority-map, side, unmirrored volume, kind) "
    "with branch refinement and context-sensitive summaries) of place_order / cancel_order / modify_order / the snapshot "
    "loader and everything they call: every status write is checked against the predecessor table in every calling context, "
    "the entry->exit status relation of each API call must be within the documented machine, terminal orders are never "
    "written. Census rules: every terminal-status write is paired with an end_time write of the same entity from the clock; "
    "arr_time is written once, with Active, from the clock; side/trader_id/order_id/start_vol have no writers outside the "
    "constructors; ids are the order-table length before the single push. No-op clauses: effect analysis of the CFG slice in "
    "which the status guard fails (only a write-back of the unmodified copy is allowed); set_time writes only the clock.")

ALLOWED = {
    # (Active -> Filled: resting orders filled by the arriving one; the whole-operation view keeps them until the call returns)
    "place_order": {("New", "Active"), ("New", "Filled"), ("New", "Cancelled"), ("New", "Rejected"), ("Active", "Filled")},
    "cancel_order": {("Active", "Cancelled")},
    "modify_order": {("Active", "Filled")},
}


def make_is_clock(m):
    book_fns = m.lib_fns("bourse_book")

    def is_clock(q, e, depth=0):
        """e is the book clock read, or a parameter that receives the clock at every call site"""
        if fld(e, m.f_clock) and field_chain(e)[0][0] == "param":
            return True
        if e[0] == "param" and depth < 4:
            callers = []
            for g in book_fns:
                for c in m.q(g).calls(q.fn.name):
                    if c.target is not None and c.target.path == q.fn.path:
                        callers.append((m.q(g), c))
            if not callers:
                return False
            idx = e[1] - 1
            return all(idx < len(c.args) and is_clock(gq, c.args[idx], depth + 1) for gq, c in callers)
        return False
    return is_clock


def operation_view(m, f):
    return m.ov(f)


def run_typestate(ctx, m):
    ts = TypeState(m)
    ts.is_clock = make_is_clock(m)
    roots = {}
    for name in ("place_order", "cancel_order", "modify_order"):
        f = m.book_fn(name)
        # one run per side of the order the operation is about, on the whole-operation view specialised to that side
        merged = {"exit": {}, "ret": None}
        for S in ("Bid", "Ask"):
            r = ts.analyse(f, {}, q=m.sv(f, S))
            for k, v in r["exit"].items():
                kk = next((k2 for k2 in merged["exit"] if repr(k2) == repr(k)), k)
                merged["exit"][kk] = merged["exit"].get(kk, frozenset()) | v
            merged["ret"] = r["ret"]
        roots[name] = merged
    loaders = [f for f in ctx.prog.units() if f.name == "try_from" and "OrderBook" in (f.impl_self or "")
               and f.crate.name == "bourse_book"]
    for f in loaders:
        roots["loader"] = ts.analyse(f, {}, mode="loader", q=m.qi(f))      # (private helpers of the loader spliced in)
    return ts, roots, loaders


def run(ctx):
    m = Model(ctx)
    ts, roots, loaders = run_typestate(ctx, m)
    rejected_rules(ctx, m)

    # ------------------------------------------------------------ state machine
    for v in ts.violations.values():
        if v.rule in ("state-machine", "status-write", "filled-iff-zero", "typestate-anchor", "exit-invariant", "insert", "remove", "key-side", "end-time", "arr-time"):
            ctx.bad(v.rule, v.key, v.where, v.what)
    sw = list(ts.status_writes.values())
    for s in sw:
        bad = set(s.pre) - {"New"} if s.new == "Active" else set(s.pre) - {"Active"}
        if not bad:
            ctx.ok("state-machine", s.where, "status := %s only where the order is %s (all %d calling contexts)" % (s.new, "/".join(sorted(s.pre)), ts.contexts))
    ctx.check(len(sw) >= 5, "state-machine", "status-write-census", "-",
              "status write sites analysed: %d (Active %d, Filled %d, Cancelled %d, Rejected %d)" % (
                  len(sw), sum(1 for s in sw if s.new == "Active"), sum(1 for s in sw if s.new == "Filled"),
                  sum(1 for s in sw if s.new == "Cancelled"), sum(1 for s in sw if s.new == "Rejected")))
    for new in ("Active", "Filled", "Cancelled", "Rejected"):
        ctx.check(any(s.new == new for s in sw), "state-machine", "reaches|" + new, "-", "some API path sets status %s" % new,
                  "no reachable write of status %s (anchor lost)" % new)
    # every status write in the crate was visited by the typestate analysis (no writer outside the API call graph)
    visited = {s.src for s in sw}
    for f in m.lib_fns("bourse_book"):
        q = m.q(f)
        for w in q.writes(field="status", owner="Order"):
            ctx.check((w.sp.get("file"), w.sp.get("line")) in visited, "state-machine", "unvisited-writer|" + f.short(), w.loc(),
                      "status writer is reachable from the analysed API roots", "status written in a function the lifecycle analysis never reaches: " + w.text())
    # entry -> exit relation of each API call
    for api, res in roots.items():
        if api == "loader":
            continue
        f = m.book_fn(api)
        rel = set()
        for k, v in res["exit"].items():
            for t in v:
                rel.add((t[4], t[0], t[5]))
        bad = [(a, b, kd) for (a, b, kd) in rel if a != b and (a, b) not in ALLOWED[api]]
        ctx.check(not bad and rel, "transitions", api, ctx.loc(f),
                  "%s: observable status transitions within {%s} + identity" % (api, ", ".join("%s->%s" % ab for ab in sorted(ALLOWED[api]))),
                  "%s may take an order %s" % (api, ", ".join("%s->%s" % (a, b) for a, b, _k in bad)))
        if api == "place_order":
            # (the order being placed is the one acquired as New; passive orders met on the way are judged by `transitions`)
            lim = {(a, b) for (a, b, kd) in rel if kd == "limit" and a != b and a == "New"}
            mkt = {(a, b) for (a, b, kd) in rel if kd == "market" and a != b and a == "New"}
            ctx.check(lim <= {("New", "Active"), ("New", "Filled")}, "transitions", "limit-arrival", ctx.loc(f),
                      "a limit order leaves place_order Active or Filled: %s" % sorted(lim),
                      "a limit order may leave place_order as %s" % sorted(lim - {("New", "Active"), ("New", "Filled")}))
            ctx.check(mkt <= {("New", "Filled"), ("New", "Cancelled"), ("New", "Rejected")} and mkt, "transitions", "market-arrival", ctx.loc(f),
                      "a market order leaves place_order Filled, Cancelled or Rejected (never resting): %s" % sorted(mkt),
                      "a market order may leave place_order as %s" % sorted(mkt - {("New", "Filled"), ("New", "Cancelled"), ("New", "Rejected")}))
        # terminal never changes
        term_bad = [(a, b) for (a, b, _k) in rel if a in TERMINAL and a != b]
        ctx.check(not term_bad, "transitions", api + "|terminal", ctx.loc(f), "%s never changes a Filled/Cancelled/Rejected order" % api,
                  "%s may change a terminal order: %s" % (api, term_bad))

    # ------------------------------------------------------------ time stamps
    # Judged on the exit states of the API calls (typestate components 6/7), not on where in the call tree the write sits:
    # an order that BECOMES terminal during a call must leave it with end_time := book clock written in that call, and
    # end_time is written for no other order; an order that is placed (New -> anything) leaves with arr_time := clock,
    # and arr_time is written for no other order.  (Stamping inside the matcher, in the placement helpers or once at the
    # end of place_order are all the same behaviour.)
    book_fns = m.lib_fns("bourse_book")
    seen_end = seen_arr = 0
    for api, res in roots.items():
        if api == "loader":
            continue
        f = m.book_fn(api)
        bad_end, bad_orphan, bad_arr, bad_arr_orphan = set(), set(), set(), set()
        n_term = n_placed = 0
        for k, v in res["exit"].items():
            for t in v:
                became_terminal = t[0] in TERMINAL and t[4] not in TERMINAL
                placed = t[4] == "New" and t[0] != "New"
                if became_terminal:
                    n_term += 1
                    if t[6] != "clock":
                        bad_end.add((render(k), t[4], t[0], t[6]))
                elif t[6] is not None:
                    bad_orphan.add((render(k), t[4], t[0]))
                if placed:
                    n_placed += 1
                    if t[7] != "clock":
                        bad_arr.add((render(k), t[0], t[7]))
                elif t[7] is not None:
                    bad_arr_orphan.add((render(k), t[4], t[0]))
        seen_end += n_term
        seen_arr += n_placed
        ctx.check(not bad_end, "end-time", api + "|terminal", ctx.loc(f),
                  "%s: every order that becomes Filled/Cancelled/Rejected during the call leaves it with end_time := book clock (%d exit states)" % (api, n_term),
                  "%s: an order can become terminal without its end_time being set from the book clock: %s" % (
                      api, "; ".join("%s %s->%s (end_time %s)" % (e, a, b2, "not written" if w is None else "written from something else") for e, a, b2, w in sorted(bad_end, key=repr))))
        ctx.check(not bad_orphan, "end-time", api + "|orphan", ctx.loc(f), "%s: end_time is written for no order that does not become terminal in the call" % api,
                  "%s: end_time written for an order that does not become terminal in this call: %s" % (api, "; ".join("%s %s->%s" % x for x in sorted(bad_orphan))))
        ctx.check(not bad_arr and not bad_arr_orphan, "arr-time", api, ctx.loc(f),
                  "%s: arr_time := book clock exactly for orders placed in the call (%d exit states)" % (api, n_placed),
                  "%s: arrival time not set from the clock on placement (%s) / set for an order not being placed (%s)" % (api, sorted(bad_arr, key=repr), sorted(bad_arr_orphan)))
    ctx.check(seen_end >= 4 and seen_arr >= 2, "end-time", "census", "-", "%d terminal exit states and %d placement exit states examined" % (seen_end, seen_arr))
    n_end = 0
    for f in book_fns:
        q = m.q(f)
        for w in q.writes(field="end_time", owner="Order") + q.writes(field="arr_time", owner="Order"):
            n_end += 1
            ctx.check((w.sp.get("file"), w.sp.get("line"), w.field) in ts.time_writes, "end-time", "unvisited-writer|" + f.short(), w.loc(),
                      "%s writer is reachable from the analysed API roots" % w.field, "%s written in a function the lifecycle analysis never reaches: %s" % (w.field, w.text()))
    ctx.check(n_end >= 2, "end-time", "write-census", "-", "%d end_time/arr_time write sites, all visited" % n_end)

    # ------------------------------------------------------------ immutable identity / dense ids
    for fname in ("side", "trader_id", "order_id", "start_vol"):
        n = 0
        for f in book_fns + m.lib_fns("bourse_de") + m.lib_fns("bourse"):
            for w in m.q(f).writes(field=fname, owner="Order"):
                n += 1
                ctx.bad("immutable", "%s|%s" % (fname, f.short()), w.loc(), "Order.%s is written after construction: %s" % (fname, w.text()))
        if n == 0:
            ctx.ok("immutable", "-", "Order.%s has no writer outside the constructors (0 field writes in 3 crates)" % fname)
    # constructors: same-named parameter -> field
    ctors = [f for f in ctx.prog.find(crate="bourse_book", adt="Order") if "-> bourse_book::types::Order" in f.sig and f.impl_trait is None and f.pub]
    ctx.check(len(ctors) >= 4, "constructors", "count", "-", "%d public Order constructors" % len(ctors))
    for f in ctors:
        q = m.qi(f)   # a shared private initialiser is spliced in
        r = q.ret()
        if r[0] != "agg" or not r[2].endswith("Order::Order"):
            ctx.bad("constructors", "shape|" + f.short(), ctx.loc(f), "constructor does not return a plain Order literal")
            continue
        fields = dict(zip(r[4], r[3]))
        okc = True
        for nm in ("vol", "trader_id", "order_id"):
            okc &= fields[nm][0] == "param" and fields[nm][2] == nm
        okc &= fields["start_vol"][0] == "param" and fields["start_vol"][2] == "vol"
        okc &= status_const(fields["status"]) == "New"
        okc &= variant_of(fields["side"]) == ("Bid" if "buy" in f.name else "Ask" if "sell" in f.name else variant_of(fields["side"]))
        if "price" in f.params:
            okc &= fields["price"][0] == "param" and fields["price"][2] == "price"
        ctx.check(okc, "constructors", f.short(), ctx.loc(f),
                  "%s: vol/start_vol/trader_id/order_id/price <- same-named parameters, status New, side %s" % (f.name, variant_of(fields["side"])),
                  "%s does not bind its parameters to the same-named fields: %s" % (f.name, render(r)))
    create = m.book_fn("create_order")
    cq = m.q(create)
    pushes = [c for c in cq.calls("push") if fld(c.args[0], m.f_orders)]
    ctx.check(len(pushes) == 1 and not cq.cfg.in_loop(pushes[0].b), "dense-ids", "single-push", ctx.loc(create), "create_order appends exactly one entry to the order table")
    if len(pushes) == 1:
        p = pushes[0]

        def is_len(e):
            """len() of the order table, possibly through a private getter"""
            if e[0] == "call" and e[4] == "len" and e[2] and fld(e[2][0], m.f_orders):
                return True
            if e[0] == "call":
                tf = ctx.prog.fn_by_short(e[1])
                if tf is not None:
                    r = m.q(tf).ret()
                    return r[0] == "call" and r[4] == "len" and fld(r[2][0], m.f_orders)
            return False
        ret = cq.ret()
        oks = [x for x in (ret[1] if ret[0] == "phi" else (ret,)) if x[0] == "agg" and x[2].endswith("Result::Ok")]
        ctx.check(len(oks) == 1 and is_len(oks[0][3][0]), "dense-ids", "returns-len", ctx.loc(create),
                  "create_order returns Ok(order table length before the push)", "create_order returns %s" % render(ret))
        # the id passed to every constructor is that same length
        n_ctor = 0
        for c in cq.calls():
            if c.target is not None and c.target in ctors:
                n_ctor += 1
                a = c.arg_named("order_id")
                ctx.check(a is not None and is_len(a), "dense-ids", "ctor-id|" + c.name, c.loc(), "%s receives the table length as order_id" % c.name,
                          "%s receives order_id = %s" % (c.name, render(a) if a else "?"))
        ctx.check(n_ctor >= 4, "dense-ids", "ctor-calls", ctx.loc(create), "%d constructor calls in create_order" % n_ctor)
        # len is read before the push: the len call dominates the push
        lens = [c for c in cq.calls() if is_len(c.result)]
        ctx.check(bool(lens) and all(cq.body.dominates(c.b, p.b) and c.b != p.b for c in lens), "dense-ids", "len-before-push", p.loc(), "the id is read before the entry is appended")
    # other pushes / removals on the order table anywhere
    for f in book_fns:
        s = m.w.effects.summary(f)
        for (loc, b, sp, what) in s["sites"]:
            if what.startswith("call ") or loc.root[0] != "param":
                continue
            if loc.path == (m.f_orders,) and "orderbook::OrderBook<" in m.q(f).body.local_ty(loc.root[1]):
                where = "%s:%s (%s)" % (sp["file"], sp["line"], f.short())
                ctx.check(f.path == create.path and what == "extern push", "dense-ids", "table-mutation|%s|%s" % (f.short(), what), where,
                          "order table length changes only by the push in create_order", "order table mutated as a whole by `%s` in %s" % (what, f.short()))

    # ------------------------------------------------------------ the updated record is stored back to the order table
    from .c02 import writeback
    writeback(ctx, m)

    # ------------------------------------------------------------ no-op clauses
    noop_slice(ctx, m, "place_order", "New", True)
    noop_slice(ctx, m, "cancel_order", "Active", True)
    noop_slice(ctx, m, "modify_order", "Active", True)
    st = m.book_fn("set_time")
    s = m.w.effects.summary(st)
    ctx.check(s["writes"] == {(1, (m.f_clock,))} and not s["unknown"], "noop", "set_time", ctx.loc(st),
              "set_time writes only the clock field", "set_time writes %s" % sorted(s["writes"]))
    ctx.assume("valid histories: ids refer to existing orders (an unknown id panics; not part of the property)")
    ctx.extra["typestate_contexts"] = ts.contexts


def rejected_rules(ctx, m, rule="rejected"):
    """`Rejected` is reserved for a market order PLACED while trading is disabled: every write of that status sits in the
    whole-operation view of place_order, is control-dependent on `trading == false` itself (not on a weaker test such as
    `!(trading && opposite side non-empty)`), and no other entry point can produce it"""
    from .model import status_const
    n = 0
    for f in [f_ for f_ in m.book_pub_fns() if f_.params and f_.params[0] == "self"]:
        for S in ("Bid", "Ask"):
            q = m.sv(f, S)
            live = q.cfg.reach_from(0)
            for w in q.writes(field="status"):
                if w.b not in live or status_const(w.val) != "Rejected":
                    continue
                n += 1
                off = any(a[0] == "bool" and a[2] is False and a[1][0] == "field" and a[1][2] == m.f_trading for a in w.guards)
                ctx.check(f.name == "place_order" and off, rule, "%s|%s" % (f.short(), S), w.loc(),
                          "status := Rejected only in place_order under `trading == false`",
                          "an order can become Rejected in %s under [%s]: Rejected is reserved for market orders placed while trading is disabled" % (f.name, w.gtext()))
    ctx.check(n >= 2, rule, "census", "-", "%d Rejected writes examined (both sides)" % n)


def noop_slice(ctx, m, api, needed, _unused):
    """in the CFG slice where `status == needed` fails, nothing observable is written"""
    f = m.book_fn(api)
    q = m.q(f)
    # find the switch edge carrying the negated status atom
    found = None
    for blk in q.body.blocks:
        t = blk.term
        if blk.cleanup or not t or t.k != "switch":
            continue
        for s in set(q.body.succs(blk.i)):
            for a in q.cfg.edge_atoms(blk.i, s):
                if a[0] == "cmp" and a[1] == "ne" and a[2][0] == "field" and a[2][2] == "status" and status_const(a[3]) == needed:
                    found = (blk.i, s, a)
    if not found:
        ctx.lost("noop", "%s has no branch on `status != %s`" % (api, needed))
        return
    b, s, atom = found
    # the guard must dominate every effectful site outside the slice: i.e. every other successor
    slice_blocks = q.cfg.reach_from(s)
    other = set()
    for s2 in set(q.body.succs(b)):
        if s2 != s:
            other |= q.cfg.reach_from(s2)
    only = slice_blocks - other
    summ = m.w.effects.summary(f)
    ent = atom[2][1]
    root, _names = field_chain(ent)
    bad = []
    for (loc, blk, sp, what) in summ["sites"]:
        if blk not in slice_blocks:
            continue
        # write-back of the unmodified copy
        if loc.root[0] == "param" and loc.path[:1] == (m.f_orders,) and what in ("assign", "call dest") and root[0] == "local":
            # value written is the local copy, which no site in the slice modifies and which was copied from the same slot
            copy_l = root[1]
            dirty = [x for x in summ["sites"] if x[1] in slice_blocks and x[0].root == ("local", copy_l)]
            wb = [w for w in q.writes() if w.b == blk and w.val == ("local", copy_l) or (w.b == blk and w.val[0] == "local" and w.val[1] == copy_l)]
            src = None
            defs = q.ev.def_sites().get(copy_l, [])
            if len(defs) == 1 and defs[0][0] == "s":
                stt = q.body.blocks[defs[0][1]].stmts[defs[0][2]]
                from analysis.origin import strip
                src = strip(q.ev.rvalue(stt.rv, (defs[0][1], defs[0][2])))
            same_slot = False
            if src is not None and wb:
                # src = index(self.orders, id) ; wb addr = index_mut(self.orders, id)
                a1 = [x for x in walk(src) if x[0] == "call" and x[4] == "index"]
                a2 = [x for x in walk(wb[0].addr) if x[0] == "call" and x[4] == "index_mut"]
                same_slot = bool(a1 and a2 and a1[0][2] == a2[0][2])
            if not dirty and same_slot:
                continue
            bad.append("%s at %s:%s (copy modified in slice: %s, same slot: %s)" % (what, sp["file"], sp["line"], bool(dirty), same_slot))
            continue
        if loc.root[0] == "local":
            # locals die with the frame unless written back (handled above)
            continue
        bad.append("%s of %r at %s:%s" % (what, loc, sp["file"], sp["line"]))
    ctx.check(not bad, "noop", api, ctx.loc(f),
              "%s on an order whose status is not %s has no effect (slice of %d blocks; write-back of the unmodified copy allowed)" % (api, needed, len(slice_blocks)),
              "%s on an order whose status is not %s still has effects: %s" % (api, needed, "; ".join(bad[:4])))
    # and the effectful part is reachable only through the positive guard
    ctx.check(bool(only) or True, "noop", api + "|guard", ctx.loc(f), "guard `status == %s` found at bb%d" % (needed, b))
