"""A3 – control-flow queries on one MIR body: edge dominance, branch conditions that
control a block (as normalised comparison atoms), must-pass-through, path slicing.

Everything is computed on the normal-edge CFG (unwind edges ignored: the properties are
about non-panicking executions; panics are C02/C16's business and handled by A9)."""
from .origin import Ev, strip, render

OPT_VARIANTS = {"std::option::Option": {0: "None", 1: "Some"},
                "std::result::Result": {0: "Ok", 1: "Err"},
                "std::ops::ControlFlow": {0: "Continue", 1: "Break"}}

NEG = {"eq": "ne", "ne": "eq", "lt": "ge", "le": "gt", "gt": "le", "ge": "lt"}
SWAP = {"eq": "eq", "ne": "ne", "lt": "gt", "le": "ge", "gt": "lt", "ge": "le"}
BINCMP = {"Eq": "eq", "Ne": "ne", "Lt": "lt", "Le": "le", "Gt": "gt", "Ge": "ge"}


class Cfg:
    def __init__(self, prog, fn, ev=None):
        self.prog = prog
        self.fn = fn
        self.body = fn.body
        self.ev = ev or Ev(prog, fn)
        self._edge_dom = {}
        self._dead = None
        self._guards = {}
        self._atoms = {}
        self._reach = {}

    # ------------------------------------------------------------------ reachability
    def dead_edges(self):
        """switch edges that can never be taken: the `otherwise` arm of a match on an enum all of whose
        variants have their own arm (rustc keeps it when the source has a catch-all `_` arm)"""
        if self._dead is None:
            self._dead = set()   # (set first: edge_atoms -> ... -> reach_from must not recurse)
            dead = set()
            for blk in self.body.blocks:
                t = blk.term
                if blk.cleanup or not t or t.k != "switch":
                    continue
                for tgt in set(self.body.succs(blk.i)):
                    atoms = self.edge_atoms(blk.i, tgt)
                    if any(a[0] == "variant" and a[2] == () for a in atoms):
                        # only if tgt is not also the target of a real arm
                        if tgt == t.j["o"] and tgt not in [b for _v, b in t.j["ts"]]:
                            dead.add((blk.i, tgt))
                    # a branch on a literal constant (`if false { .. }`): the contradicting edge is never taken
                    if any(a[0] == "bool" and a[1][0] == "const" and a[1][1] == "bool" and bool(a[1][3]) != bool(a[2]) for a in atoms):
                        dead.add((blk.i, tgt))
                    # a match on a constant enum value (a helper shared by both sides, inlined with `Side::Bid` passed in)
                    for a in atoms:
                        if a[0] == "variant" and a[1][0] == "agg" and a[1][1] == "adt" and a[2] and a[1][2].split("::")[-1] not in a[2]:
                            dead.add((blk.i, tgt))
            self._dead = dead
            # definitions in blocks that can no longer be reached do not reach anything: tell the evaluator
            if dead and self.ev is not None:
                reach = set()
                st_ = [0]
                while st_:
                    b_ = st_.pop()
                    if b_ in reach:
                        continue
                    reach.add(b_)
                    for s_ in self.body.succs(b_):
                        if (b_, s_) not in dead:
                            st_.append(s_)
                unreachable = {b_.i for b_ in self.body.blocks if b_.i not in reach and not b_.cleanup}
                if unreachable and getattr(self.ev, "dead_blocks", None) != unreachable:
                    self.ev.dead_blocks = unreachable
                    self.ev._memo = {}
                    self._atoms = {}
                    self._dead = None
                    return self.dead_edges()    # once more with the sharper values (converges: the dead set only grows)
            self._dead = dead
        return self._dead

    def reach_from(self, start, cut_edges=(), cut_blocks=()):
        """blocks reachable from `start` (inclusive) without crossing cut edges/blocks"""
        seen = set()
        st = [start]
        cut_edges = set(cut_edges) | self.dead_edges()
        cut_blocks = set(cut_blocks)
        while st:
            b = st.pop()
            if b in seen or b in cut_blocks:
                continue
            seen.add(b)
            for s in self.body.succs(b):
                if (b, s) not in cut_edges:
                    st.append(s)
        return seen

    def can_reach(self, a, b, avoid=()):
        """is there a path a ->* b (a != b needs >= 1 edge; a == b is trivially true)
        that avoids the blocks in `avoid` (a and b themselves may be in avoid: ignored)"""
        avoid = set(avoid) - {a, b}
        return b in self.reach_from(a, cut_blocks=avoid)

    def strictly_after(self, a, b):
        """b reachable from a successor of a"""
        for s in self.body.succs(a):
            if b in self.reach_from(s):
                return True
        return False

    def all_paths_pass(self, src, dst, through):
        """every path src ->* dst passes a block in `through` (src/dst in through count)"""
        through = set(through)
        if src in through or dst in through:
            return True
        return dst not in self.reach_from(src, cut_blocks=through)

    def in_loop(self, b):
        for h in self.body.loop_heads():
            if b in self.body.loop_body(h):
                return True
        return False

    def loops_containing(self, b):
        return [h for h in self.body.loop_heads() if b in self.body.loop_body(h)]

    def loop_exit_edges(self, head):
        """edges leaving the natural loop of `head` (cleanup and unreachable targets ignored)"""
        body = self.body.loop_body(head)
        out = []
        for b in sorted(body):
            for s in self.body.succs(b):
                if s not in body and not self.body.blocks[s].cleanup and self.body.blocks[s].term.k != "unreachable":
                    out.append((b, s))
        return out

    def loop_runs_to_completion(self, head):
        """the loop can only be left because its iterator is exhausted: the single exit edge is
        the `None` arm of the switch on `Iterator::next`"""
        exits = self.loop_exit_edges(head)
        if len(exits) != 1:
            return False, exits
        b, s = exits[0]
        t = self.body.blocks[b].term
        if t.k != "switch":
            return False, exits
        atoms = self.edge_atoms(b, s)
        ok = any(a[0] == "variant" and a[2] == ("None",) and a[1][0] == "call" and a[1][4] == "next" for a in atoms)
        return ok, exits

    # ------------------------------------------------------------------ edge dominance
    def controlling_edges(self, b):
        """switch edges (s, t) such that every path entry ->* b uses that edge"""
        if b in self._edge_dom:
            return self._edge_dom[b]
        out = []
        dom = self.body.dominators().get(b, set())
        for s in sorted(dom):
            t = self.body.blocks[s].term
            if not t or t.k != "switch":
                continue
            succ = self.body.succs(s)
            for tgt in sorted(set(succ)):
                # number of switch arms going to tgt
                if b not in self.reach_from(0, cut_edges=[(s, tgt)]):
                    out.append((s, tgt))
        self._edge_dom[b] = out
        return out

    # ------------------------------------------------------------------ atoms
    def switch_discr(self, s):
        t = self.body.blocks[s].term
        at = (s, len(self.body.blocks[s].stmts))
        return self.ev.operand(t.discr, at)

    def discr_place_ty(self, s):
        """if the switch operand was produced by `discriminant(place)` return type of place"""
        blk = self.body.blocks[s]
        t = blk.term
        if t.discr.place is None or t.discr.place.proj:
            return None
        l = t.discr.place.local
        for st in reversed(blk.stmts):
            if st.k == "assign" and st.place.is_local() and st.place.local == l:
                if st.rv.k == "discr":
                    return st.rv.place.ty
                return None
        # search the unique definition elsewhere
        for b in self.body.blocks:
            for st in b.stmts:
                if st.k == "assign" and st.place.is_local() and st.place.local == l and st.rv.k == "discr":
                    return st.rv.place.ty
        return None

    def variant_name(self, ty, idx):
        if ty is None:
            return None
        base = ty.split("<")[0]
        if base in OPT_VARIANTS:
            return OPT_VARIANTS[base].get(idx)
        a = self.prog.adts.get(base)
        if a and a["kind"] == "enum":
            for v in a["variants"]:
                if v["idx"] == idx:
                    return v["name"]
        return None

    def edge_atoms(self, s, tgt):
        """atoms known to hold when edge s->tgt is taken (conjunction)."""
        key = (s, tgt)
        if key in self._atoms:
            return self._atoms[key]
        t = self.body.blocks[s].term
        d = strip(self.switch_discr(s))
        vals = [int(v) for v, b in t.j["ts"] if b == tgt]
        is_other = (t.j["o"] == tgt)
        all_vals = [int(v) for v, _b in t.j["ts"]]
        atoms = []
        dty = t.j.get("dty", "")
        if d[0] == "discr":
            ty = self.discr_place_ty(s)
            subj = d[1]
            names = []
            if vals and not is_other:
                names = [self.variant_name(ty, v) or str(v) for v in vals]
                atoms.append(("variant", subj, tuple(names)))
                if names == ["Some"] and subj[0] == "call" and subj[4] == "filter" and len(subj[2]) == 2 and "ption" in (subj[1] or "") \
                        and subj[2][1][0] == "agg" and subj[2][1][1] == "closure":
                    # opt.filter(pred) is Some: opt is Some and pred(payload) holds
                    o = subj[2][0]
                    atoms.append(("variant", o, ("Some",)))
                    body = closure_apply(self.prog, subj[2][1], [("field", ("downcast", o, "Some"), "0", "")])
                    if body is not None:
                        atoms.extend(a for a in bool_atoms(expand_predicates(self.prog, body), True) if a not in atoms)
            elif is_other and not vals:
                excl = [self.variant_name(ty, v) or str(v) for v in all_vals]
                # complement within the enum if known
                base = (ty or "").split("<")[0]
                universe = None
                if base in OPT_VARIANTS:
                    universe = list(OPT_VARIANTS[base].values())
                elif base in self.prog.adts and self.prog.adts[base]["kind"] == "enum":
                    universe = [v["name"] for v in self.prog.adts[base]["variants"]]
                if universe is not None:
                    rest = tuple(n for n in universe if n not in excl)
                    atoms.append(("variant", subj, rest))
                else:
                    atoms.append(("notvariant", subj, tuple(excl)))
        elif dty == "bool":
            d = expand_predicates(self.prog, d)
            if vals == [0] and not is_other:
                atoms.extend(bool_atoms(d, False))
            elif is_other and not vals and all_vals == [0]:
                atoms.extend(bool_atoms(d, True))
            elif vals == [1] and not is_other:
                atoms.extend(bool_atoms(d, True))
        else:
            # integer switch (match on literal patterns): a single literal is an ordinary comparison
            if vals and not is_other:
                if len(vals) == 1:
                    atoms.append(canon_cmp("eq", d, ("const", dty, str(vals[0]), vals[0])))
                else:
                    atoms.append(("intin", d, tuple(vals)))
            elif is_other and not vals:
                if len(all_vals) == 1:
                    atoms.append(canon_cmp("ne", d, ("const", dty, str(all_vals[0]), all_vals[0])))
                else:
                    atoms.append(("intnotin", d, tuple(all_vals)))
        self._atoms[key] = atoms
        return atoms

    def guards(self, b):
        """conjunction of atoms that hold on every path reaching block b.  When b is
        additionally conditioned by something no single branch edge captures (a
        disjunction `if a || b`, an early `break`/`return` on some path) the synthetic
        atom ("opaque", ..) is appended, so that `not guards` really means unconditional."""
        if b in self._guards:
            return self._guards[b]
        out = []
        edges = self.controlling_edges(b)
        def trivially_true(a):
            # a test of a literal constant that holds by construction (the other outcome is a dead edge)
            if a[0] == "variant" and a[1][0] == "agg" and a[1][1] == "adt" and a[1][2].split("::")[-1] in a[2]:
                return True
            return a[0] == "bool" and a[1][0] == "const" and a[1][1] == "bool" and bool(a[1][3]) == bool(a[2])
        dead = self.dead_edges()
        edges = [e for e in edges if e not in dead]
        for (s, tgt) in edges:
            for a in self.edge_atoms(s, tgt):
                if a not in out and not trivially_true(a):
                    out.append(a)
        if self.bypassable(b, edges):
            out.append(("opaque", "reached only on some of the paths its branch conditions allow"))
        self._guards[b] = out   # (set before the correlated step: cuts recursion)
        # correlated branches: a switch on the variant of a value that was BUILT as that variant in
        # exactly one earlier block (e.g. the Ok(..)/Err(..) returned by an inlined helper and then
        # tested with `?` or `match`) inherits the conditions of that block
        for (s, tgt) in edges:
            for a in self.correlated_atoms(s, tgt):
                if a not in out:
                    out.append(a)
        self._guards[b] = out
        return out

    def correlated_atoms(self, s, tgt):
        blk = self.body.blocks[s]
        t = blk.term
        if t.k != "switch" or t.discr.place is None or t.discr.place.proj:
            return []
        site = self.correlated_site(s, tgt)
        if site is None:
            return []
        return [a for a in self.guards(site) if a[0] != "opaque"]

    def correlated_site(self, s, tgt):
        """the single block that can have produced the switched-on value as the variant selected by edge s->tgt: every
        other definition reaching the switch builds a different variant literally.  (A definition by a call may produce any
        variant.)  None when there is no such unique block."""
        want = None
        for a in self.edge_atoms(s, tgt):
            if a[0] == "variant" and len(a[2]) == 1:
                want = a[2][0]
        if want is None:
            return None
        want = {"Continue": ("Ok", "Some"), "Break": ("Err", "None")}.get(want, (want,))
        defs = self.switch_value_defs(s)
        if not defs or len(defs) < 2:
            return None
        matching = set()
        for d in defs:
            if d[0] == "agg":
                if d[2] in want:
                    matching.add(d[1])
            elif d[0] == "call":
                matching.add(d[1])
            else:
                return None
        if len(matching) != 1:
            return None
        return next(iter(matching))

    pure_call_hook = None      # set by query.World: (Term) -> bool, the callee writes nothing

    def fresh_atoms(self, site):
        """branch conditions that still HOLD at block `site`: atoms of its controlling edges from whose target nothing
        but temporaries (and calls of functions that write nothing) is executed on the way to `site`"""
        out = []
        for (x, y), atoms in self.guard_edges_with_atoms(site):
            if (x, y) in self.dead_edges():
                continue
            if self.pure_path(y, site, include_first=True, cut=(x,)):     # (coming round to x again re-tests the condition)
                for a in atoms:
                    if a[0] != "opaque" and a not in out:
                        out.append(a)
        return out

    def _pure_block(self, x, with_term=True):
        blk = self.body.blocks[x]
        mem = self.ev.memory_locals()
        if with_term and blk.term is not None and blk.term.k in ("call", "drop"):
            if blk.term.k == "drop":
                return False
            if not (Cfg.pure_call_hook and Cfg.pure_call_hook(blk.term)) or not blk.term.dest.is_local() or blk.term.dest.local in mem:
                return False
        for st in blk.stmts:
            if st.k != "assign" or not st.place.is_local() or st.place.local in mem:
                return False
        return True

    def pure_path(self, a, b, include_first=False, cut=()):
        """no memory write and no call (other than of functions that write nothing) on any path from the end of block a
        (from its start with include_first) to the start of block b"""
        if include_first and a != b and not self._pure_block(a):
            return False
        if include_first and a == b:
            return True
        if a == b:
            return True
        fwd = set()
        for x in self.body.succs(a):
            fwd |= self.reach_from(x, cut_blocks=[b] + list(cut))      # (first arrival at b: a way round a loop passes b itself)
        between = {x for x in fwd if x != b and b in self.reach_from(x, cut_blocks=list(cut))}
        if a in between:
            return False        # a loop back through a
        for x in between:
            if not self._pure_block(x):
                return False
        return True

    def bypassable(self, b, edges):
        """can execution, once past the last controlling edge of b (or from entry), finish
        the function / the current loop iteration without executing b?"""
        dom = self.body.dominators()
        start = 0
        if edges:
            # the controlling edge closest to b: its source is dominated by all the others
            best = max(edges, key=lambda e: len(dom.get(e[0], ())))
            start = best[1]
        if start == b:
            return False
        reach = self.reach_from(start, cut_blocks=[b])
        if b not in self.reach_from(start):
            return False
        rets = set(self.body.return_blocks())
        if reach & rets:
            return True
        # inside a loop: a path that gets back to the loop head without passing b
        for h in self.loops_containing(b):
            body = self.body.loop_body(h)
            if start in body:
                for x in reach:
                    if x in body and h in self.body.succs(x) and (x != start or True):
                        # a back edge reachable without b
                        if self.body.dominates(h, x):
                            return True
        return False

    # ------------------------------------------------------------------ feasibility refinement
    def immutable_subject(self, e):
        """an expression whose value cannot change during the call: rooted at a by-value
        parameter that is never assigned, borrowed mutably or partially written"""
        from .origin import field_chain
        root, _names = field_chain(e[1] if e[0] == "discr" else e)
        if root[0] != "param":
            return False
        l = root[1]
        if self.body.local_ty(l).startswith(("&", "*")):
            return False
        if l in self.ev.memory_locals():
            return False
        return not self.ev.def_sites().get(l)

    def contradicts(self, atoms, known):
        for a in atoms:
            for k in known:
                if a[0] == "variant" and k[0] == "variant" and a[1] == k[1] and not (set(a[2]) & set(k[2])) and self.immutable_subject(a[1]):
                    return True
                if a[0] == "bool" and k[0] == "bool" and a[1] == k[1] and a[2] != k[2] and self.immutable_subject(a[1]):
                    return True
        return False

    def guards_refined(self, b):
        """like guards(b) but ignoring paths that contradict b's own controlling conditions on
        immutable subjects (the same by-value parameter tested twice)"""
        known = list(self.guards(b))
        for _round in range(4):
            cut = []
            for blk in self.body.blocks:
                t = blk.term
                if blk.cleanup or not t or t.k != "switch":
                    continue
                for s in set(self.body.succs(blk.i)):
                    if self.contradicts(self.edge_atoms(blk.i, s), known):
                        cut.append((blk.i, s))
            if not cut:
                break
            new = list(known)
            reach_all = self.reach_from(0, cut_edges=cut)
            if b not in reach_all:
                break
            for blk in self.body.blocks:
                t = blk.term
                if blk.cleanup or not t or t.k != "switch" or blk.i not in reach_all:
                    continue
                for s in set(self.body.succs(blk.i)):
                    if (blk.i, s) in cut:
                        continue
                    if b not in self.reach_from(0, cut_edges=cut + [(blk.i, s)]):
                        for a in self.edge_atoms(blk.i, s) + self.correlated_atoms(blk.i, s):
                            if a not in new:
                                new.append(a)
            if len(new) == len(known):
                break
            known = new
        return known

    def correlated_switches(self):
        """switches on the variant of a value built as a known variant in earlier blocks:
        list of (switch block, {target: set(def blocks)})"""
        if getattr(self, "_corr", None) is not None:
            return self._corr
        out = []
        for blk in self.body.blocks:
            t = blk.term
            if blk.cleanup or not t or t.k != "switch":
                continue
            per = {}
            for tgt in set(self.body.succs(blk.i)):
                d = self.variant_def_blocks(blk.i, tgt)
                if d is not None:
                    per[tgt] = d
            if per:
                out.append((blk.i, per))
        self._corr = out
        return out

    def variant_def_blocks(self, s, tgt):
        """blocks that build the switched-on value as the variant selected by edge s->tgt (None if unknown)"""
        blk = self.body.blocks[s]
        t = blk.term
        if t.discr.place is None or t.discr.place.proj:
            return None
        want = None
        for a in self.edge_atoms(s, tgt):
            if a[0] == "variant" and len(a[2]) >= 1:
                want = a[2]
        if want is None:
            return None
        names = set()
        for wv in want:
            names |= set({"Continue": ("Ok", "Some"), "Break": ("Err", "None")}.get(wv, (wv,)))
        l = t.discr.place.local
        src = None
        for st in reversed(blk.stmts):
            if st.k == "assign" and st.place.is_local() and st.place.local == l and st.rv.k == "discr" and not st.rv.place.proj:
                src = (st.rv.place.local, (s, blk.stmts.index(st)))
                break
        if src is None:
            return None
        val_local, at = src
        for _hop in range(4):
            defs = self.ev.reaching_defs(val_local, at)
            if len(defs) == 1 and defs[0][0] == "c":
                ct = self.body.blocks[defs[0][1]].term
                if ct.callee_name in ("branch", "into", "from", "clone") and len(ct.args) == 1 and ct.args[0].place is not None and not ct.args[0].place.proj:
                    val_local = ct.args[0].place.local
                    at = (defs[0][1], len(self.body.blocks[defs[0][1]].stmts))
                    continue
            if len(defs) == 1 and defs[0][0] == "s":
                st = self.body.blocks[defs[0][1]].stmts[defs[0][2]]
                if st.rv.k == "use" and st.rv.ops[0].place is not None and not st.rv.ops[0].place.proj:
                    val_local = st.rv.ops[0].place.local
                    at = (defs[0][1], defs[0][2])
                    continue
            break
        defs = self.ev.reaching_defs(val_local, at)
        if len(defs) < 2:
            return None
        out = set()
        for d in defs:
            if d[0] != "s":
                return None
            st = self.body.blocks[d[1]].stmts[d[2]]
            if st.rv.k != "agg" or st.rv.j.get("ak") != "adt":
                return None
            if st.rv.j.get("variant") in names:
                out.add(d[1])
        return out

    def switch_value_defs(self, s):
        """definitions that may provide the value whose discriminant block s switches on, followed through plain copies
        and `?`-style pass-through calls: list of ("agg", block, variant name) / ("call", block, callee name, Term) /
        ("other", block, None); None when block s does not switch on a local's discriminant"""
        blk = self.body.blocks[s]
        t = blk.term
        if t is None or t.k != "switch" or t.discr.place is None or t.discr.place.proj:
            return None
        l = t.discr.place.local
        src = None
        for st in reversed(blk.stmts):
            if st.k == "assign" and st.place.is_local() and st.place.local == l and st.rv.k == "discr" and not st.rv.place.proj:
                src = (st.rv.place.local, (s, blk.stmts.index(st)))
                break
        if src is None:
            return None
        out = []
        seen = set()
        work = [src]
        while work:
            val_local, at = work.pop()
            if (val_local, at) in seen:
                continue
            seen.add((val_local, at))
            for d in self.ev.reaching_defs(val_local, at):
                if d[0] == "c":
                    ct = self.body.blocks[d[1]].term
                    if ct.callee_name in ("branch", "into", "from", "clone") and len(ct.args) == 1 and ct.args[0].place is not None and not ct.args[0].place.proj:
                        work.append((ct.args[0].place.local, (d[1], len(self.body.blocks[d[1]].stmts))))
                    else:
                        out.append(("call", d[1], ct.callee_name or "", ct))
                elif d[0] == "s":
                    st = self.body.blocks[d[1]].stmts[d[2]]
                    if st.rv.k == "use" and st.rv.ops[0].place is not None and not st.rv.ops[0].place.proj:
                        work.append((st.rv.ops[0].place.local, (d[1], d[2])))
                    elif st.rv.k == "agg" and st.rv.j.get("ak") == "adt":
                        out.append(("agg", d[1], st.rv.j.get("variant")))
                    else:
                        out.append(("other", d[1], None))
                else:
                    out.append(("other", d[1] if len(d) > 1 else -1, None))
        return out

    def reach_under(self, assume_cut):
        """blocks reachable from entry when the edges in `assume_cut` are impossible, pruning (to a
        fixpoint) every variant-switch edge whose value can no longer have been built as that variant"""
        cuts = set(assume_cut)
        while True:
            reach = self.reach_from(0, cut_edges=cuts)
            more = set()
            for (s, per) in self.correlated_switches():
                if s not in reach:
                    continue
                for tgt, defs in per.items():
                    if (s, tgt) not in cuts and not (defs & reach):
                        more.add((s, tgt))
            if not more:
                return reach, cuts
            cuts |= more

    def edges_with(self, pred):
        """switch edges (s, t) one of whose atoms satisfies pred"""
        out = []
        for blk in self.body.blocks:
            t = blk.term
            if blk.cleanup or not t or t.k != "switch":
                continue
            for tgt in set(self.body.succs(blk.i)):
                if any(pred(a) for a in self.edge_atoms(blk.i, tgt)):
                    out.append((blk.i, tgt))
        return out

    def guard_edges_with_atoms(self, b):
        return [((s, t), self.edge_atoms(s, t)) for (s, t) in self.controlling_edges(b)]


def closure_apply(prog, clo, args):
    """stripped return origin of closure aggregate `clo` applied to args (captures substituted)"""
    from .beta import subst_expr
    f = prog.fns.get(clo[2]) or prog.fn_by_short(clo[2])
    if f is None:
        return None
    ev = Ev(prog, f)
    rets = f.body.return_blocks()
    if len(rets) != 1:
        vals = [strip(ev.local_val(0, ev.term_at(b))) for b in rets]
        r = vals[0] if len(set(map(repr, vals))) == 1 else ("phi", tuple(vals))
    else:
        r = strip(ev.local_val(0, ev.term_at(rets[0])))
    ops, names = clo[3], clo[4]

    def m(e):
        if e[0] == "field" and e[1][0] == "param" and e[1][1] == 1:
            for i, n in enumerate(names):
                if n == e[2] or n.lstrip("*") == e[2].lstrip("*"):
                    return ops[i] if i < len(ops) else None
            return None
        if e[0] == "param" and e[1] >= 2 and e[1] - 2 < len(args):
            return args[e[1] - 2]
        return None
    return strip(subst_expr(r, m))


def expand_predicates(prog, d):
    """is_some_and(o, C) -> And(o is Some, C(o.Some.0)); is_none_or(o, C) -> Or(o is None, C(..))"""
    if d[0] == "call" and d[4] in ("is_some_and", "is_ok_and", "is_none_or") and len(d[2]) == 2 and d[2][1][0] == "agg" and d[2][1][1] == "closure":
        o = d[2][0]
        v = "Ok" if d[4] == "is_ok_and" else "Some"
        payload = ("field", ("downcast", o, v), "0", "")
        body = closure_apply(prog, d[2][1], [payload])
        if body is not None:
            if d[4] == "is_none_or":
                return ("pred_or", ("isvariant", o, "None"), body)
            return ("pred_and", ("isvariant", o, v), body)
    if d[0] == "un" and d[1] == "Not":
        return ("un", "Not", expand_predicates(prog, d[2]))
    # `check(x).is_err()` / `.is_ok()` with `check` a write-free workspace function whose single Err return is taken under one
    # comparison of its parameters (`if p % self.tick != 0 { return Err(..) } Ok(())`): the test IS that comparison
    if d[0] == "call" and d[4] in ("is_err", "is_ok") and len(d[2]) == 1 and d[2][0][0] == "call":
        r = result_predicate(prog, d[2][0])
        if r is not None:
            return r if d[4] == "is_err" else ("un", "Not", r)
    return d


_RESULT_PRED = {}


def result_predicate(prog, call):
    """boolean origin expression equivalent to `call(..) is Err` for a side-effect-free workspace function with exactly one
    Err return guarded by a single comparison atom and Ok returns otherwise; None if the callee is not of that form"""
    from .origin import Ev, strip
    if not isinstance(call[1], str):
        return None
    callee = prog.fns.get(call[1]) or (prog.fn_by_short(call[1]) if hasattr(prog, "fn_by_short") else None)
    if callee is None or callee.body is None or len(call[2]) != len(callee.params):
        return None
    key = callee.path
    if key not in _RESULT_PRED:
        _RESULT_PRED[key] = None
        ev = Ev(prog, callee)
        cfg = Cfg(prog, callee, ev)
        errs, oks, other = [], [], []
        for b in callee.body.return_blocks():
            v = strip(ev.local_val(0, ev.term_at(b)))
            alts = v[1] if v[0] == "phi" else (v,)
            for x in alts:
                if x[0] == "agg" and x[2].endswith("Result::Err"):
                    errs.append(b)
                elif x[0] == "agg" and x[2].endswith("Result::Ok"):
                    oks.append(b)
                else:
                    other.append(b)
        # every Err value is built in a block controlled by the same single comparison; no writes through parameters
        writes = any(st.k == "assign" and any(p["k"] == "deref" for p in st.place.proj) for blk in callee.body.blocks if not blk.cleanup for st in blk.stmts)
        calls_mut = any(any((a.place is not None and (a.place.ty or "").startswith("&mut")) for a in t.args) for _b, t in callee.body.calls())
        if errs and oks and not other and not writes and not calls_mut:
            conds = set()
            for blk in callee.body.blocks:
                if blk.cleanup:
                    continue
                for i, st in enumerate(blk.stmts):
                    if st.k == "assign" and st.rv.k == "agg" and str(st.rv.j.get("adt", st.rv.j.get("name", ""))).endswith("Err"):
                        conds.add(tuple(cfg.guards(blk.i)))
            if len(conds) == 1:
                g = list(conds)[0]
                if len(g) == 1 and g[0][0] == "cmp":
                    _RESULT_PRED[key] = g[0]
    atom = _RESULT_PRED[key]
    if atom is None:
        return None
    inv = {v: k for k, v in BINCMP.items()}

    def sub(e):
        if not isinstance(e, tuple):
            return e
        if e and e[0] == "param" and isinstance(e[1], int) and 1 <= e[1] <= len(call[2]):
            return call[2][e[1] - 1]
        return tuple(sub(x) for x in e)
    return ("bin", inv[atom[1]], sub(atom[2]), sub(atom[3]))


def bool_atoms(d, truth):
    """normalise a boolean origin expression `d` asserted to be `truth` into atoms"""
    t = d[0]
    if t == "isvariant":
        flip = {"Some": "None", "None": "Some", "Ok": "Err", "Err": "Ok"}
        return [("variant", d[1], (d[2] if truth else flip.get(d[2], "?"),))]
    if t == "pred_and" and truth:
        return bool_atoms(d[1], True) + bool_atoms(d[2], True)
    if t == "pred_or" and not truth:
        return bool_atoms(d[1], False) + bool_atoms(d[2], False)
    if t in ("pred_and", "pred_or"):
        return [("bool", d, truth)]
    if t == "bin" and d[1] in BINCMP:
        op = BINCMP[d[1]]
        if not truth:
            op = NEG[op]
        return [canon_cmp(op, d[2], d[3])]
    if t == "bin" and d[1] in ("BitAnd",) and truth:
        return bool_atoms(d[2], True) + bool_atoms(d[3], True)
    if t == "bin" and d[1] in ("BitOr",) and not truth:
        return bool_atoms(d[2], False) + bool_atoms(d[3], False)
    if t == "un" and d[1] == "Not":
        return bool_atoms(d[2], not truth)
    if t == "call" and d[4] in ("eq", "ne", "lt", "le", "gt", "ge") and len(d[2]) == 2:
        op = d[4]
        if not truth:
            op = NEG[op]
        return [canon_cmp(op, d[2][0], d[2][1])]
    if t == "call" and d[4] in ("is_some", "is_none", "is_ok", "is_err", "is_empty") and len(d[2]) == 1:
        name = d[4]
        pos = {"is_some": "Some", "is_none": "None", "is_ok": "Ok", "is_err": "Err"}
        flip = {"Some": "None", "None": "Some", "Ok": "Err", "Err": "Ok"}
        if name in pos:
            v = pos[name]
            if not truth:
                v = flip[v]
            return [("variant", d[2][0], (v,))]
        return [("bool", d, truth)]
    if t == "phi":
        # short-circuit && / || produce phi(const false, x) etc.
        alts = d[1]
        consts = [a for a in alts if a[0] == "const" and a[1] == "bool"]
        others = [a for a in alts if not (a[0] == "const" and a[1] == "bool")]
        if len(consts) == 1 and len(others) == 1:
            cval = bool(consts[0][3])
            if truth and not cval:
                # (a && b) true: b true (a true is a separate controlling edge)
                return bool_atoms(others[0], True)
            if (not truth) and cval:
                return bool_atoms(others[0], False)
        return [("bool", d, truth)]
    return [("bool", d, truth)]


def canon_cmp(op, a, b):
    """comparison atom with a canonical orientation: constants on the right, gt/ge
    rewritten to lt/le by swapping when that does not move a constant to the left"""
    a_const = a[0] == "const" or (a[0] == "agg" and not a[3])
    b_const = b[0] == "const" or (b[0] == "agg" and not b[3])
    if a_const and not b_const:
        a, b, op = b, a, SWAP[op]
    elif not a_const and not b_const and op in ("gt", "ge"):
        a, b, op = b, a, SWAP[op]
    elif not a_const and not b_const and op in ("eq", "ne") and repr(a) > repr(b):
        a, b = b, a
    return ("cmp", op, a, b)


def render_atom(a):
    k = a[0]
    if k == "cmp":
        sym = {"eq": "==", "ne": "!=", "lt": "<", "le": "<=", "gt": ">", "ge": ">="}[a[1]]
        return "%s %s %s" % (render(a[2]), sym, render(a[3]))
    if k == "variant":
        return "%s is %s" % (render(a[1]), "|".join(a[2]))
    if k == "notvariant":
        return "%s is not %s" % (render(a[1]), "|".join(a[2]))
    if k == "bool":
        return "%s%s" % ("" if a[2] else "!", render(a[1]))
    if k == "intin":
        return "%s in %s" % (render(a[1]), list(a[2]))
    if k == "opaque":
        return "<%s>" % a[1]
    if k == "intnotin":
        return "%s not in %s" % (render(a[1]), list(a[2]))
    return repr(a)
