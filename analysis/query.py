"""Query layer over facts: per-function call sites / memory writes with stripped origin
expressions and controlling guards, whole-workspace call graph (A1)."""
from .facts import FactsError
from .origin import Ev, strip, render, field_chain, walk
from .cfg import Cfg, render_atom
from .effects import Effects


class Call:
    __slots__ = ("q", "b", "term", "name", "resolved", "target", "args", "raw", "formals", "sp", "exp", "_guards")

    def __init__(self, q, b, term):
        self.q = q
        self.b = b
        self.term = term
        self.name = term.callee_name or ""
        self.resolved = term.resolved or ""
        self.target = q.w.prog.target(term)
        self.raw = q.ev.call_args(b)
        self.args = [strip(a) for a in self.raw]
        self.formals = term.formals
        self.sp = term.sp
        self.exp = term.sp.get("exp", "") if term.sp else ""
        self._guards = None

    @property
    def guards(self):
        if self._guards is None:
            self._guards = self.q.cfg.guards(self.b)
        return self._guards

    @property
    def rguards(self):
        """guards refined by path feasibility on immutable subjects"""
        return self.q.cfg.guards_refined(self.b)

    @property
    def result(self):
        """stripped origin expression of the call's result"""
        return strip(self.q.ev.call_expr(self.b))

    def loc(self):
        return "%s:%s (%s)" % (self.sp["file"], self.sp["line"], self.q.fn.short())

    def arg_named(self, formal):
        if formal in self.formals:
            i = self.formals.index(formal)
            if i < len(self.args):
                return self.args[i]
        return None

    def text(self):
        return "%s(%s)" % (self.name, "; ".join(render(a) for a in self.args))

    def gtext(self):
        return " && ".join(render_atom(a) for a in self.guards)

    def __repr__(self):
        return "<call %s bb%d %s>" % (self.text(), self.b, self.loc())


class Write:
    __slots__ = ("q", "b", "i", "addr", "val", "rawval", "sp", "root", "names", "owner", "_guards")

    def __init__(self, q, b, i, addr, val, sp, rawval=None):
        self.q = q
        self.b = b
        self.i = i
        self.addr = addr
        self.val = val
        self.rawval = rawval
        self.sp = sp
        self.root, self.names = field_chain(addr)
        self.owner = addr[3] if addr[0] == "field" and len(addr) > 3 else ""
        self._guards = None

    @property
    def field(self):
        return self.names[-1] if self.names else None

    @property
    def guards(self):
        if self._guards is None:
            self._guards = self.q.cfg.guards(self.b)
        return self._guards

    def loc(self):
        return "%s:%s (%s)" % (self.sp["file"], self.sp["line"], self.q.fn.short())

    def text(self):
        return "%s := %s" % (render(self.addr), render(self.val))

    def gtext(self):
        return " && ".join(render_atom(a) for a in self.guards)

    def __repr__(self):
        return "<write %s bb%d>" % (self.text(), self.b)


class FnQ:
    def __init__(self, w, fn):
        self.w = w
        self.fn = fn
        self.ev = Ev(w.prog, fn)
        self.cfg = Cfg(w.prog, fn, self.ev)
        self.cfg.dead_edges()      # (constant conditions: unreachable definitions are dropped from the evaluator before any value is read)
        self._calls = None
        self._writes = None

    @property
    def body(self):
        return self.fn.body

    def calls(self, name=None, pred=None, user_only=False):
        if self._calls is None:
            # read-only calls inside `debug_assert*!` expansions are diagnostics, not part of the operation (absent from release
            # builds; listed by the panic census as debug-only sites); a call there that takes `&mut` is kept and judged
            # (macro arguments keep their call-site spans, so "inside the invocation" is decided by source range)
            ranges = set()
            for blk in self.fn.body.blocks:
                for x in list(blk.stmts) + ([blk.term] if blk.term is not None else []):
                    sp = getattr(x, "sp", None)
                    if sp and "debug_assert" in (sp.get("expc") or ""):
                        ranges.add((sp["file"], sp["line"], sp.get("eline", sp["line"])))

            def diagnostic(t):
                inside = "debug_assert" in (t.sp.get("expc") or "") or any(
                    f == t.sp["file"] and lo <= t.sp["line"] and t.sp.get("eline", t.sp["line"]) <= hi for (f, lo, hi) in ranges)
                if not inside:
                    return False
                return not any((a.place is not None and (a.place.ty or "").startswith("&mut ")) for a in t.args)
            self._calls = [Call(self, b, t) for b, t in self.fn.body.calls() if not diagnostic(t)]
        out = self._calls
        if name is not None:
            names = (name,) if isinstance(name, str) else tuple(name)
            out = [c for c in out if c.name in names]
        if user_only:
            out = [c for c in out if not c.exp]
        if pred is not None:
            out = [c for c in out if pred(c)]
        return out

    def writes(self, field=None, owner=None):
        """memory writes: assignments to places with projections (fields of locals /
        through pointers) and call destinations with projections"""
        if self._writes is None:
            ws = []
            for blk in self.fn.body.blocks:
                if blk.cleanup:
                    continue
                for i, st in enumerate(blk.stmts):
                    if st.k == "assign" and st.place.proj:
                        at = (blk.i, i)
                        addr = strip(self.ev.place_addr(st.place, at))
                        raw = self.ev.rvalue(st.rv, at)
                        ws.append(Write(self, blk.i, i, addr, strip(raw), st.sp, raw))
                t = blk.term
                if t and t.k == "call" and t.dest.proj:
                    at = (blk.i, len(blk.stmts))
                    addr = strip(self.ev.place_addr(t.dest, at))
                    raw = self.ev.call_expr(blk.i)
                    ws.append(Write(self, blk.i, None, addr, strip(raw), t.sp, raw))
            self._writes = ws
        out = self._writes
        if field is not None:
            out = [w for w in out if w.field == field]
        if owner is not None:
            out = [w for w in out if w.owner.split("::")[-1] == owner or w.owner == owner]
        return out

    def ret(self):
        """stripped origin of the return value (phi over return blocks)"""
        vals = []
        for b in self.fn.body.return_blocks():
            v = strip(self.ev.local_val(0, self.ev.term_at(b)))
            if v not in vals:
                vals.append(v)
        if not vals:
            return ("unk", "no return")
        return vals[0] if len(vals) == 1 else ("phi", tuple(vals))

    def loc(self, sp=None):
        sp = sp or self.fn.span
        return "%s:%s (%s)" % (sp["file"], sp["line"], self.fn.short())

    ITER_CALLS = ("into_iter", "iter", "iter_mut", "enumerate", "by_ref", "take", "skip", "filter", "step_by", "zip", "chain", "take_while",
                  "skip_while", "filter_map", "map", "rev", "peekable", "fuse", "cycle", "flat_map", "scan", "inspect", "copied", "cloned")

    def iter_chain_full(self, next_call):
        """adapter calls between the iterated collection and a `next` call: list of (name, extra args)
        from the outermost adapter inwards, plus the base expression; None if not recognised"""
        a = next_call.args[0] if next_call.args else None
        if a is None:
            return None
        root, _n = field_chain(a)
        if root[0] != "local":
            return None
        defs = self.ev.def_sites().get(root[1], [])
        if len(defs) != 1:
            return None
        d = defs[0]
        if d[0] == "c":
            e = strip(self.ev.call_expr(d[1]))
        else:
            st = self.fn.body.blocks[d[1]].stmts[d[2]]
            e = strip(self.ev.rvalue(st.rv, (d[1], d[2])))
        chain = []
        while e[0] == "call" and e[2] and e[4] in self.ITER_CALLS:
            chain.append((e[4], e[2][1:]))
            e = e[2][0]
        return chain, e

    def ordered(self, sites):
        """call / write sites in program order (reverse post-order of their blocks)"""
        rpo = self.fn.body.rpo()
        return sorted(sites, key=lambda s: (rpo.get(s.b, 1 << 30), getattr(s, "i", None) if getattr(s, "i", None) is not None else 1 << 20))

    def local_name(self, l):
        return self.fn.body.name_of(l) or "_%d" % l

    def closures(self):
        """closure bodies created in this function: list of (FnQ, capture operand exprs, names)"""
        out = []
        for blk in self.fn.body.blocks:
            if blk.cleanup:
                continue
            for i, st in enumerate(blk.stmts):
                if st.k == "assign" and st.rv.k == "agg" and st.rv.j.get("ak") == "closure":
                    cf = self.w.prog.closure_fn(st.rv)
                    if cf is None:
                        continue
                    ops = [strip(self.ev.operand(o, (blk.i, i))) for o in st.rv.ops]
                    out.append((self.w.q(cf), ops, st.rv.j.get("fields", []), blk.i))
        return out


class World:
    def __init__(self, prog):
        self.prog = prog
        self._q = {}
        self.effects = Effects(prog)
        self._callees = {}
        self._callers = None
        self._inliner = None
        from .inline import Inliner, must_inline_policy
        self._unit = Inliner(self.prog, must_inline_policy)
        self.effects.unit_inliner = self._unit
        from .cfg import Cfg

        def pure_call(term, _w=self):
            tgt = _w.prog.target(term)
            if tgt is None:
                # a call outside the workspace (std combinators: Option::filter, cmp, conversions ..) that is handed no
                # mutable reference cannot change the program's memory
                import re as _re
                for a_ in term.args:
                    ty_ = a_.place.ty if a_.place is not None else (a_.j.get("ty") or "")
                    if _re.match(r"^&('\w+ )?mut ", ty_ or "") or "*mut" in (ty_ or ""):
                        return False
                return True
            sm = _w.effects.summary(tgt)
            return not sm["writes"] and not sm["unknown"]
        Cfg.pure_call_hook = staticmethod(pure_call)

    def qi(self, fn, policy=None):
        """query object over the INLINED view of fn (private same-crate helpers spliced in)"""
        from .inline import Inliner, default_policy
        if self._inliner is None:
            self._inliner = Inliner(self.prog, policy or default_policy)
        key = "inl:" + fn.path
        r = self._q.get(key)
        if r is None:
            r = FnQ(self, self._inliner.inlined(fn))
            self._q[key] = r
        return r

    def q(self, fn):
        """query object over the UNIT view of fn: the function as written, except that calls of higher-order private helpers
        (helpers taking a closure or generic over a workspace trait, which cannot be analysed on their own) and calls of
        closure values defined in the same body are spliced in (analysis/inline.py)"""
        r = self._q.get(fn.path)
        if r is None:
            g = fn
            if getattr(fn, "inlined_from", None) is None and fn.kind in ("Fn", "AssocFn", "Closure"):
                try:
                    u = self._unit.inlined(fn)
                    if u.inlined_from:
                        g = u
                except Exception:      # a construct the splicer does not handle: analyse the function as written
                    g = fn
            r = FnQ(self, g)
            self._q[fn.path] = r
        return r

    # ---------------------------------------------------------------- call graph
    def callees(self, fn):
        """workspace functions called (or whose closures are created) by fn"""
        r = self._callees.get(fn.path)
        if r is None:
            r = []
            q = self.q(fn)
            for c in q.calls():
                if c.target is not None and c.target not in r:
                    r.append(c.target)
            for (cq, _ops, _n, _b) in q.closures():
                if cq.fn not in r:
                    r.append(cq.fn)
            self._callees[fn.path] = r
        return r

    def reachable(self, roots):
        seen = {}
        st = list(roots)
        while st:
            f = st.pop()
            if f.path in seen:
                continue
            seen[f.path] = f
            st.extend(self.callees(f))
        return list(seen.values())

    def callers(self, fn):
        if self._callers is None:
            m = {}
            for f in self.prog.fns.values():
                for g in self.callees(f):
                    m.setdefault(g.path, []).append(f)
            self._callers = m
        return self._callers.get(fn.path, [])

    def call_chains(self, root, pred, limit=2000):
        """all acyclic call chains root -> ... -> f with pred(f); each chain is a list of
        (caller FnQ, Call) steps"""
        out = []

        def rec(fn, chain, seen):
            if len(out) > limit:
                return
            q = self.q(fn)
            for c in q.calls():
                tgt = c.target
                if tgt is None or tgt.path in seen:
                    continue
                step = chain + [(q, c)]
                if pred(tgt):
                    out.append(step)
                rec(tgt, step, seen | {tgt.path})
        rec(root, [], {root.path})
        return out


def contains_expr(e, sub):
    return any(x == sub for x in walk(e))


def last_fields(e, n=2):
    """the last n field names of an access path expression"""
    _root, names = field_chain(e)
    names = [x for x in names if not x.startswith("as ")]
    return names[-n:]


def is_field_read(e, *suffix):
    """e is an access path ending with the given field names (downcasts ignored)"""
    _root, names = field_chain(e)
    names = [x for x in names if not x.startswith("as ")]
    return len(names) >= len(suffix) and tuple(names[-len(suffix):]) == tuple(suffix)
