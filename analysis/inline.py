"""MIR inlining of workspace helper functions (a *view*: nothing is executed).

`inlined(prog, fn, policy)` returns a synthetic Fn whose body is `fn`'s body with the
bodies of the callees selected by `policy` spliced in (recursively; the workspace has no
recursion, a cycle is cut).  Used by shape rules anchored on a public function so that
extracting / inlining private helpers does not change what the rule sees.

Splicing a call `dest = callee(a1..an) -> bbT`:
  * callee locals are renumbered by an offset; callee blocks are appended;
  * the call block gets `_(off+k) = <ak>` for every argument and a `goto` to the callee entry;
  * every callee `return` becomes `dest = move _(off+0); goto bbT`;
  * promoted constants of the callee are appended to the caller's and re-indexed;
  * debug names of the callee's locals are carried over (prefixed for uniqueness only when
    they collide with a caller name).
"""
import copy

from .facts import Fn


def default_policy(caller, callee):
    """inline private (non-pub) free functions / inherent methods of the same crate (and every higher-order helper)"""
    if callee is None or callee.kind not in ("Fn", "AssocFn"):
        return False
    if callee.crate.name != caller.crate.name:
        return False
    if callee.impl_trait is not None:
        return False
    if callee.pub and not higher_order(callee):
        return False
    return True


import re

_HO = {}
TYPARAM = re.compile(r"^(?:&(?:'\w+ )?(?:mut )?)?([A-Z]\w?)$")


def higher_order(callee):
    """does the callee take a closure / a value of a bare type parameter (generic over a workspace trait)?  Such a helper
    cannot be analysed on its own (unresolved trait calls, unknown closure): it is always analysed inside its callers."""
    if callee is None or callee.kind not in ("Fn", "AssocFn") or callee.pub:
        return False          # (public generic entry points such as the runners are units of their own)
    r = _HO.get(callee.path)
    if r is not None:
        return r
    r = False
    tparams = set()
    for k in range(1, callee.body.arg_count + 1):
        ty = callee.body.local_ty(k)
        if "impl Fn" in ty or "{closure@" in ty or "dyn Fn" in ty:
            r = True
        m_ = TYPARAM.match(ty)
        if m_:
            tparams.add(m_.group(1))
    if not r and tparams:
        # generic over a WORKSPACE trait: an unresolved call of a bourse_* trait method on a value of a bare type parameter
        # (generators `R: RngCore`, distributions etc. are ordinary parameters)
        for b in callee.body.blocks:
            t = b.term
            if t is None or t.k != "call":
                continue
            tr = t.j.get("trait") or ""
            if tr.startswith("bourse_") and t.j.get("resolved_kind") != "item" and t.args and t.args[0].place is not None:
                m2 = TYPARAM.match(t.args[0].place.ty)
                if m2 and m2.group(1) in tparams:
                    r = True
                    break
        if not r:
            for b in callee.body.blocks:
                t = b.term
                if t is not None and t.k == "call" and (t.j.get("trait") or "") in ("std::ops::Fn", "std::ops::FnMut", "std::ops::FnOnce") and t.args and t.args[0].place is not None:
                    m2 = TYPARAM.match(t.args[0].place.ty)
                    if m2 and m2.group(1) in tparams:
                        r = True
                        break
    _HO[callee.path] = r
    return r


def must_inline_policy(caller, callee):
    """unit views (World.q): only what cannot stand alone is spliced into its callers"""
    if callee is None or callee.crate.name != caller.crate.name or callee.impl_trait is not None:
        return False
    return higher_order(callee)


def _unify(callee_ty, arg_ty, out):
    """bind bare type parameters of the callee's parameter type to the argument's type (reference prefixes dropped)"""
    m_ = TYPARAM.match(callee_ty or "")
    if not m_ or not arg_ty:
        return
    a = re.sub(r"^&(?:'\w+ )?(?:mut )?", "", arg_ty)
    out[m_.group(1)] = a


def _subst_ty(ty, binds):
    for k, v in binds.items():
        ty = re.sub(r"(?<![\w:])%s(?![\w:<])" % re.escape(k), v, ty)
    return ty


def _shift_place(pl, off, boff, prom_off):
    pl["l"] += off
    for p in pl["p"]:
        if p["k"] == "index":
            p["l"] += off


def _shift_operand(o, off, prom_off):
    if o is None:
        return
    k = o.get("k")
    if k in ("copy", "move"):
        _shift_place(o["pl"], off, 0, prom_off)
    elif k == "const" and "promoted" in o:
        o["promoted"] += prom_off


def _shift_rvalue(rv, off, prom_off):
    k = rv["k"]
    if k in ("use", "cast", "repeat"):
        _shift_operand(rv["o"], off, prom_off)
    elif k in ("ref", "rawptr", "discr"):
        _shift_place(rv["pl"], off, 0, prom_off)
    elif k == "bin":
        _shift_operand(rv["a"], off, prom_off)
        _shift_operand(rv["b"], off, prom_off)
    elif k == "un":
        _shift_operand(rv["a"], off, prom_off)
    elif k == "agg":
        for o in rv["ops"]:
            _shift_operand(o, off, prom_off)


def _shift_block(b, off, boff, prom_off):
    b["i"] += boff
    for s in b["stmts"]:
        _shift_place(s["pl"], off, boff, prom_off)
        if s["k"] == "assign":
            _shift_rvalue(s["rv"], off, prom_off)
    t = b["term"]
    if not t:
        return
    k = t["k"]

    def bb(x):
        return None if x is None else x + boff
    if k == "goto":
        t["t"] = bb(t["t"])
    elif k == "switch":
        _shift_operand(t["d"], off, prom_off)
        t["ts"] = [[v, bb(x)] for v, x in t["ts"]]
        t["o"] = bb(t["o"])
    elif k == "drop":
        _shift_place(t["pl"], off, boff, prom_off)
        t["t"] = bb(t["t"])
        t["u"] = bb(t.get("u"))
    elif k == "assert":
        _shift_operand(t["c"], off, prom_off)
        t["t"] = bb(t["t"])
        t["u"] = bb(t.get("u"))
    elif k == "call":
        _shift_operand(t["f"], off, prom_off)
        for a in t["args"]:
            _shift_operand(a, off, prom_off)
        _shift_place(t["dest"], off, boff, prom_off)
        t["t"] = bb(t.get("t"))
        t["u"] = bb(t.get("u"))
    elif k == "other":
        t["succ"] = [bb(x) for x in t.get("succ", [])]


class Inliner:
    def __init__(self, prog, policy=default_policy, max_depth=8, closure_calls=True):
        self.prog = prog
        self.policy = policy
        self.max_depth = max_depth
        self.closure_calls = closure_calls
        self._memo = {}

    # ------------------------------------------------------------------ closure values
    def _single_def(self, j, l):
        """the unique whole assignment `_l = rvalue` in j (None if none / several / a call destination)"""
        found = None
        for b in j["blocks"]:
            for st in b["stmts"]:
                if st["k"] == "assign" and st["pl"]["l"] == l and not st["pl"]["p"]:
                    if found is not None:
                        return None
                    found = st["rv"]
            t = b["term"]
            if t and t["k"] == "call" and t["dest"]["l"] == l and not t["dest"]["p"]:
                return None
        return found

    def _closure_callee(self, j, t):
        """closure Fn called by a `Fn::call / FnMut::call_mut / FnOnce::call_once` terminator, if its aggregate is in j"""
        if (t.get("trait") or "") not in ("std::ops::Fn", "std::ops::FnMut", "std::ops::FnOnce", "core::ops::Fn", "core::ops::FnMut", "core::ops::FnOnce"):
            return None
        if not t["args"] or t["args"][0].get("k") not in ("copy", "move"):
            return None
        pl = t["args"][0]["pl"]
        l = pl["l"]
        seen = set()
        while l not in seen:
            seen.add(l)
            rv = self._single_def(j, l)
            if rv is None:
                return None
            k = rv["k"]
            if k == "agg" and rv.get("ak") == "closure":
                class R:
                    pass
                r = R()
                r.j = rv
                return self.prog.closure_fn(r)
            if k in ("ref", "rawptr") and all(p["k"] == "deref" for p in rv["pl"]["p"]):
                l = rv["pl"]["l"]
            elif k == "use" and rv["o"].get("k") in ("copy", "move") and all(p["k"] == "deref" for p in rv["o"]["pl"]["p"]):
                l = rv["o"]["pl"]["l"]
            else:
                return None
        return None

    def inlined(self, fn, _stack=()):
        key = fn.path
        if key in self._memo:
            return self._memo[key]
        j = copy.deepcopy(fn.j)
        changed = True
        rounds = 0
        inlined_names = []
        while changed and rounds < 64:
            changed = False
            rounds += 1
            for b in list(j["blocks"]):
                t = b["term"]
                if b["cleanup"] or not t or t["k"] != "call":
                    continue
                callee = self._target(t)
                if callee is None:
                    # a call of a closure VALUE whose definition is visible in this body (`f(x)` inside an inlined helper that
                    # received `|x| ..` from its caller): splice the closure body
                    clo = self._closure_callee(j, t)
                    if clo is not None and clo.path != fn.path and clo.path not in _stack and len(_stack) < self.max_depth and self.closure_calls:
                        cj = self.inlined(clo, _stack + (fn.path,)).j
                        self._splice(j, b, copy.deepcopy(cj), closure_call=True)
                        inlined_names.append(clo.path)
                        changed = True
                        break
                    continue
                if callee.path == fn.path or callee.path in _stack or len(_stack) >= self.max_depth:
                    continue
                if not self.policy(fn, callee):
                    continue
                cj = self.inlined(callee, _stack + (fn.path,)).j
                self._splice(j, b, copy.deepcopy(cj))
                inlined_names.append(callee.path)
                changed = True
                break
        j["inlined"] = inlined_names
        f = Fn(j, fn.crate)
        f.inlined_from = inlined_names
        self._memo[key] = f
        return f

    def _target(self, t):
        class T:
            pass
        x = T()
        x.j = t
        return self.prog.target(x)

    def _splice(self, j, blk, cj, closure_call=False):
        off = len(j["locals"])
        boff = len(j["blocks"])
        prom_off = len(j.get("promoted", []))
        t = blk["term"]
        # generic instantiation: bare type parameters of the callee bound by the argument types of this call
        binds = {}
        if not closure_call:
            for k, a in enumerate(t["args"]):
                if 1 + k < len(cj["locals"]) and a.get("k") in ("copy", "move"):
                    _unify(cj["locals"][1 + k]["ty"], a["pl"].get("ty", ""), binds)
        if binds:
            for l in cj["locals"]:
                l["ty"] = _subst_ty(l["ty"], binds)
            for cb in cj["blocks"]:
                for st in cb["stmts"]:
                    if "ty" in st["pl"]:
                        st["pl"]["ty"] = _subst_ty(st["pl"]["ty"], binds)
                ct = cb["term"]
                if ct and ct["k"] == "call":
                    for a in ct["args"]:
                        if a.get("k") in ("copy", "move") and "ty" in a["pl"]:
                            a["pl"]["ty"] = _subst_ty(a["pl"]["ty"], binds)
                    self._resolve_trait_call(ct)
        # locals
        for l in cj["locals"]:
            l2 = dict(l)
            l2["i"] += off
            j["locals"].append(l2)
        # debug names
        for d in cj.get("debug", []):
            d2 = copy.deepcopy(d)
            _shift_place(d2["pl"], off, 0, 0)
            d2["arg"] = None
            j["debug"].append(d2)
        # promoted
        for p in cj.get("promoted", []):
            j.setdefault("promoted", []).append(p)
        dest = t["dest"]
        target = t.get("t")
        sp = t["sp"]
        # callee blocks
        for cb in cj["blocks"]:
            _shift_block(cb, off, boff, prom_off)
            ct = cb["term"]
            if ct and ct["k"] == "return" and not cb["cleanup"]:
                cb["stmts"].append({"k": "assign", "pl": copy.deepcopy(dest),
                                    "rv": {"k": "use", "o": {"k": "move", "pl": {"l": off, "p": [], "ty": cj["locals"][0]["ty"]}}}, "sp": sp})
                if target is None:
                    cb["term"] = {"k": "unreachable", "sp": sp}
                else:
                    cb["term"] = {"k": "goto", "t": target, "sp": sp}
            j["blocks"].append(cb)
        # argument passing
        if closure_call:
            # `Fn::call(&closure, (a, b))`: the closure body takes (env, a, b): the tuple is spread
            blk["stmts"].append({"k": "assign", "pl": {"l": off + 1, "p": [], "ty": cj["locals"][1]["ty"] if len(cj["locals"]) > 1 else ""},
                                 "rv": {"k": "use", "o": copy.deepcopy(t["args"][0])}, "sp": sp})
            n_spread = max(0, cj.get("arg_count", 1) - 1)
            tup = t["args"][1] if len(t["args"]) > 1 else None
            for i in range(n_spread):
                ty = cj["locals"][2 + i]["ty"] if 2 + i < len(cj["locals"]) else ""
                if tup is not None and tup.get("k") in ("copy", "move"):
                    o = copy.deepcopy(tup)
                    o["k"] = "copy"
                    o["pl"]["p"] = list(o["pl"]["p"]) + [{"k": "field", "i": i, "n": str(i), "on": "tuple"}]
                    o["pl"]["ty"] = ty
                else:
                    o = {"k": "other", "s": "closure argument"}
                blk["stmts"].append({"k": "assign", "pl": {"l": off + 2 + i, "p": [], "ty": ty}, "rv": {"k": "use", "o": o}, "sp": sp})
        else:
            for k, a in enumerate(t["args"]):
                blk["stmts"].append({"k": "assign", "pl": {"l": off + 1 + k, "p": [], "ty": cj["locals"][1 + k]["ty"] if 1 + k < len(cj["locals"]) else ""},
                                     "rv": {"k": "use", "o": copy.deepcopy(a)}, "sp": sp})
        blk["term"] = {"k": "goto", "t": boff, "sp": sp}

    def _resolve_trait_call(self, ct):
        """after generic instantiation: `<S as Trait>::m(&mut s)` with s now of a concrete workspace type -> that type's impl"""
        tr = ct.get("trait")
        if not tr or ct.get("resolved_kind") == "item" or not ct["args"]:
            return
        a0 = ct["args"][0]
        if a0.get("k") not in ("copy", "move"):
            return
        ty = re.sub(r"^&(?:'\w+ )?(?:mut )?", "", a0["pl"].get("ty", ""))
        name = (ct.get("callee") or "").split("::")[-1]
        for f in self.prog.fns.values():
            if f.name == name and f.impl_trait and (f.impl_trait == tr or f.impl_trait.split("<")[0] == tr) and (f.impl_self or f.impl_adt or "").split("<")[0] == ty.split("<")[0]:
                ct["resolved_dp"] = f.dp
                ct["resolved_kind"] = "item"
                ct["resolved"] = "<%s as %s>::%s" % (ty, tr, name)
                return
