"""MIR inlining of workspace helper functions (a *view*: nothing is executed).

`inlined(prog, fn, policy)` returns a synthetic Fn whose body is `fn`'s body with the
bodies of the callees selected by `policy` spliced in (recursively; the workspace has no
recursion, a cycle is cut).  Used by shape rules anchored on a public function so that
extracting / inlining private helpers does not change what the rule sees.

Splicing a call `dest = callee(a1..an) -> bbT`:
  * callee locals are renumbered by an offset; callee blocks are appended;
  * the call block gets `_(off+k) = <ak>` for every argument and a `goto` to the callee entry;
  * every callee `return` becomes `dest = move _(off+0); goto bbT`;
  * promoted constants of the callee are appended to the caller's and re-indexed;
  * debug names of the callee's locals are carried over (prefixed for uniqueness only when
    they collide with a caller name).
"""
import copy

from .facts import Fn


def default_policy(caller, callee):
    """inline private (non-pub) free functions / inherent methods of the same crate"""
    if callee is None or callee.kind not in ("Fn", "AssocFn"):
        return False
    if callee.crate.name != caller.crate.name:
        return False
    if callee.pub or callee.impl_trait is not None:
        return False
    return True


def _shift_place(pl, off, boff, prom_off):
    pl["l"] += off
    for p in pl["p"]:
        if p["k"] == "index":
            p["l"] += off


def _shift_operand(o, off, prom_off):
    if o is None:
        return
    k = o.get("k")
    if k in ("copy", "move"):
        _shift_place(o["pl"], off, 0, prom_off)
    elif k == "const" and "promoted" in o:
        o["promoted"] += prom_off


def _shift_rvalue(rv, off, prom_off):
    k = rv["k"]
    if k in ("use", "cast", "repeat"):
        _shift_operand(rv["o"], off, prom_off)
    elif k in ("ref", "rawptr", "discr"):
        _shift_place(rv["pl"], off, 0, prom_off)
    elif k == "bin":
        _shift_operand(rv["a"], off, prom_off)
        _shift_operand(rv["b"], off, prom_off)
    elif k == "un":
        _shift_operand(rv["a"], off, prom_off)
    elif k == "agg":
        for o in rv["ops"]:
            _shift_operand(o, off, prom_off)


def _shift_block(b, off, boff, prom_off):
    b["i"] += boff
    for s in b["stmts"]:
        _shift_place(s["pl"], off, boff, prom_off)
        if s["k"] == "assign":
            _shift_rvalue(s["rv"], off, prom_off)
    t = b["term"]
    if not t:
        return
    k = t["k"]

    def bb(x):
        return None if x is None else x + boff
    if k == "goto":
        t["t"] = bb(t["t"])
    elif k == "switch":
        _shift_operand(t["d"], off, prom_off)
        t["ts"] = [[v, bb(x)] for v, x in t["ts"]]
        t["o"] = bb(t["o"])
    elif k == "drop":
        _shift_place(t["pl"], off, boff, prom_off)
        t["t"] = bb(t["t"])
        t["u"] = bb(t.get("u"))
    elif k == "assert":
        _shift_operand(t["c"], off, prom_off)
        t["t"] = bb(t["t"])
        t["u"] = bb(t.get("u"))
    elif k == "call":
        _shift_operand(t["f"], off, prom_off)
        for a in t["args"]:
            _shift_operand(a, off, prom_off)
        _shift_place(t["dest"], off, boff, prom_off)
        t["t"] = bb(t.get("t"))
        t["u"] = bb(t.get("u"))
    elif k == "other":
        t["succ"] = [bb(x) for x in t.get("succ", [])]


class Inliner:
    def __init__(self, prog, policy=default_policy, max_depth=8):
        self.prog = prog
        self.policy = policy
        self.max_depth = max_depth
        self._memo = {}

    def inlined(self, fn, _stack=()):
        key = fn.path
        if key in self._memo:
            return self._memo[key]
        j = copy.deepcopy(fn.j)
        changed = True
        rounds = 0
        inlined_names = []
        while changed and rounds < 64:
            changed = False
            rounds += 1
            for b in list(j["blocks"]):
                t = b["term"]
                if b["cleanup"] or not t or t["k"] != "call":
                    continue
                callee = self._target(t)
                if callee is None or callee.path == fn.path or callee.path in _stack or len(_stack) >= self.max_depth:
                    continue
                if not self.policy(fn, callee):
                    continue
                cj = self.inlined(callee, _stack + (fn.path,)).j
                self._splice(j, b, copy.deepcopy(cj))
                inlined_names.append(callee.path)
                changed = True
                break
        j["inlined"] = inlined_names
        f = Fn(j, fn.crate)
        f.inlined_from = inlined_names
        self._memo[key] = f
        return f

    def _target(self, t):
        class T:
            pass
        x = T()
        x.j = t
        return self.prog.target(x)

    def _splice(self, j, blk, cj):
        off = len(j["locals"])
        boff = len(j["blocks"])
        prom_off = len(j.get("promoted", []))
        t = blk["term"]
        # locals
        for l in cj["locals"]:
            l2 = dict(l)
            l2["i"] += off
            j["locals"].append(l2)
        # debug names
        for d in cj.get("debug", []):
            d2 = copy.deepcopy(d)
            _shift_place(d2["pl"], off, 0, 0)
            d2["arg"] = None
            j["debug"].append(d2)
        # promoted
        for p in cj.get("promoted", []):
            j.setdefault("promoted", []).append(p)
        dest = t["dest"]
        target = t.get("t")
        sp = t["sp"]
        # callee blocks
        for cb in cj["blocks"]:
            _shift_block(cb, off, boff, prom_off)
            ct = cb["term"]
            if ct and ct["k"] == "return" and not cb["cleanup"]:
                cb["stmts"].append({"k": "assign", "pl": copy.deepcopy(dest),
                                    "rv": {"k": "use", "o": {"k": "move", "pl": {"l": off, "p": [], "ty": cj["locals"][0]["ty"]}}}, "sp": sp})
                if target is None:
                    cb["term"] = {"k": "unreachable", "sp": sp}
                else:
                    cb["term"] = {"k": "goto", "t": target, "sp": sp}
            j["blocks"].append(cb)
        # argument passing
        for k, a in enumerate(t["args"]):
            blk["stmts"].append({"k": "assign", "pl": {"l": off + 1 + k, "p": [], "ty": cj["locals"][1 + k]["ty"] if 1 + k < len(cj["locals"]) else ""},
                                 "rv": {"k": "use", "o": copy.deepcopy(a)}, "sp": sp})
        blk["term"] = {"k": "goto", "t": boff, "sp": sp}
