"""A2 – provenance: symbolic origin expressions of MIR operands.

For an operand at a program point the evaluator follows flow-sensitive reaching
definitions backwards and builds an expression over
  param / const / fn / load(address) / field / deref / index / downcast / ref /
  call / bin / un / cast / agg / discr / phi / unk
`deref(ref(a))` collapses to `a`, a field of an aggregate collapses to the operand.
Expressions are plain nested tuples (hashable, comparable).
"""
import re
import struct

from .facts import Place, Operand, Rvalue

AT_NONE = None

REF_PREFIXES = ("&", "*const ", "*mut ")


def is_ref_ty(ty):
    return ty.startswith(REF_PREFIXES)


class Ev:
    """Evaluator for one MIR body."""

    def __init__(self, prog, fn, body=None, promoted_of=None):
        self.prog = prog
        self.fn = fn
        self.body = body if body is not None else fn.body
        self.promoted_of = promoted_of
        self._memloc = None
        self._defs = None
        self._memo = {}
        self._inprog = set()
        self._prom = {}

    # ------------------------------------------------------------ classification
    def def_sites(self):
        """local -> list of whole-assignment sites ('s', b, i) / ('c', b)"""
        if self._defs is None:
            d = {}
            for b in self.body.blocks:
                for i, s in enumerate(b.stmts):
                    if s.k == "assign" and s.place.is_local():
                        d.setdefault(s.place.local, []).append(("s", b.i, i))
                t = b.term
                if t and t.k == "call" and t.dest.is_local():
                    d.setdefault(t.dest.local, []).append(("c", b.i))
            self._defs = d
        return self._defs

    def memory_locals(self):
        """locals of aggregate (non-reference) type that are partially written or
        mutably borrowed: their content is modelled as memory, not as a value"""
        if self._memloc is None:
            m = set()
            body = self.body

            def root_direct(pl):
                # projection path up to the first deref stays inside the local itself
                for p in pl.proj:
                    if p["k"] == "deref":
                        return False
                return True

            for b in body.blocks:
                for s in b.stmts:
                    if s.k == "assign":
                        if s.place.proj and root_direct(s.place):
                            m.add(s.place.local)
                        rv = s.rv
                        if rv.k in ("ref", "rawptr") and rv.j.get("mut", True) and root_direct(rv.place):
                            m.add(rv.place.local)
                    elif s.k == "setdiscr":
                        if root_direct(s.place):
                            m.add(s.place.local)
                t = b.term
                if t and t.k == "call" and t.dest.proj and root_direct(t.dest):
                    m.add(t.dest.local)
            self._memloc = {l for l in m if not is_ref_ty(body.local_ty(l))}
        return self._memloc

    # ------------------------------------------------------------ reaching defs
    def reaching_defs(self, local, at):
        """set of def sites of `local` reaching program point `at` = (block, stmt index);
        the point is *before* the statement with that index (terminator = len(stmts))."""
        sites = self.def_sites().get(local, [])
        dead = getattr(self, "dead_blocks", None)
        if dead:
            sites = [x for x in sites if x[1] not in dead]
        if not sites:
            return []
        if len(sites) == 1:
            return list(sites)
        by_block = {}
        for s in sites:
            by_block.setdefault(s[1], []).append(s)
        blk, idx = at
        found = set()
        # same block, before idx
        best = None
        for s in by_block.get(blk, []):
            pos = s[2] if s[0] == "s" else None
            if s[0] == "s" and pos < idx and (best is None or pos > best[2]):
                best = s
        if best is not None:
            return [best]
        preds = self.body.preds()
        seen = set()
        stack = list(preds[blk])
        while stack:
            b = stack.pop()
            if b in seen:
                continue
            seen.add(b)
            ds = by_block.get(b)
            if ds:
                # last def in block wins: call dest (terminator) is last
                calls = [s for s in ds if s[0] == "c"]
                if calls:
                    found.add(calls[0])
                else:
                    found.add(max(ds, key=lambda s: s[2]))
                continue
            stack.extend(preds[b])
        return sorted(found)

    # ------------------------------------------------------------ evaluation
    def local_val(self, l, at):
        defs = self.reaching_defs(l, at)
        if not defs:
            if 1 <= l <= self.body.arg_count:
                return ("param", l, self.param_name(l))
            return ("unk", "undef _%d" % l)
        key = (l, tuple(defs))
        if key in self._memo:
            return self._memo[key]
        if key in self._inprog:
            return ("cycle", l)
        self._inprog.add(key)
        vals = []
        for d in defs:
            if d[0] == "s":
                st = self.body.blocks[d[1]].stmts[d[2]]
                vals.append(self.rvalue(st.rv, (d[1], d[2])))
            else:
                vals.append(self.call_expr(d[1]))
        self._inprog.discard(key)
        if len(vals) == 1:
            r = vals[0]
        else:
            uniq = []
            for v in vals:
                if v not in uniq:
                    uniq.append(v)
            r = uniq[0] if len(uniq) == 1 else ("phi", tuple(uniq))
            sc = self._short_circuit(defs, at) if len(defs) == 2 else None
            if sc is not None:
                r = sc
        self._memo[key] = r
        return r

    def _short_circuit(self, defs, at):
        """`let t = a && b` / `a || b` lowers to `switch a { false => t = false, true => t = b }`: a join of a boolean
        literal (assigned in the block the test of `a` jumps to directly) and a computed value.  Recovered as
        BitAnd(a, b) / BitOr(a, b): the same boolean, with the condition under which `b` was taken kept."""
        if defs[0][0] != "s" or defs[1][0] != "s":
            return None
        lit = other = None
        for d in defs:
            st = self.body.blocks[d[1]].stmts[d[2]]
            rv = st.rv
            if rv.k == "use" and rv.ops and rv.ops[0].is_const() and rv.ops[0].const_ty() == "bool" and lit is None:
                lit = (d, bool(rv.ops[0].const_int()))
            else:
                other = d
        if lit is None or other is None:
            return None
        (dl, val) = lit
        F = dl[1]
        preds = self.body.preds()[F]
        if len(preds) != 1:
            return None
        S = preds[0]
        t = self.body.blocks[S].term
        if t is None or t.k != "switch" or t.j.get("dty") != "bool":
            return None
        zero_tgts = [b for v, b in t.j["ts"] if int(v) == 0]
        other_tgt = t.j["o"]
        if len(t.j["ts"]) != 1 or not zero_tgts:
            return None
        # && : the literal false sits on the `a == false` edge;  || : the literal true sits on the `a == true` edge
        if val is False and zero_tgts[0] == F and other_tgt != F:
            T0, op = other_tgt, "BitAnd"
        elif val is True and other_tgt == F and zero_tgts[0] != F:
            T0, op = zero_tgts[0], "BitOr"
        else:
            return None
        if not (other[1] == T0 or self.body.dominates(T0, other[1])) or self.body.dominates(F, other[1]):
            return None
        a = self.operand(t.discr, (S, len(self.body.blocks[S].stmts)))
        st = self.body.blocks[other[1]].stmts[other[2]]
        b = self.rvalue(st.rv, (other[1], other[2]))
        return ("bin", op, a, b)

    def param_name(self, l):
        n = self.body.name_of(l)
        if n:
            return n
        ps = self.fn.params if self.fn else []
        if self.fn is not None and self.fn.kind != "Closure" and 0 < l <= len(ps):
            return ps[l - 1]
        return "_%d" % l

    def call_expr(self, b):
        t = self.body.blocks[b].term
        at = (b, len(self.body.blocks[b].stmts))
        args = tuple(self.operand(a, at) for a in t.args)
        return ("call", t.resolved or repr(t.func), args, at, t.callee_name or "")

    def mk_load(self, addr, at):
        if addr[0] == "local" and addr[1] not in self.memory_locals():
            return self.local_val(addr[1], at)
        if addr[0] == "tmp":
            return addr[1]
        return ("load", addr, at)

    def place(self, pl, at):
        """-> (expr, is_addr)"""
        l = pl.local
        if l in self.memory_locals():
            cur, is_addr = ("local", l), True
        else:
            cur, is_addr = self.local_val(l, at), False
        for p in pl.proj:
            k = p["k"]
            if k == "deref":
                v = self.mk_load(cur, at) if is_addr else cur
                if v[0] == "ref":
                    cur = v[1]
                else:
                    cur = ("deref", v)
                is_addr = True
            elif k == "field":
                n = p["n"]
                on = p.get("on", "")
                if not is_addr and cur[0] == "agg" and p["i"] < len(cur[3]):
                    cur = cur[3][p["i"]]
                elif not is_addr and cur[0] == "phi" and all(a[0] == "agg" and p["i"] < len(a[3]) for a in cur[1]):
                    # projection distributes over a join of aggregates (destructured match results)
                    alts = []
                    for a in cur[1]:
                        if a[3][p["i"]] not in alts:
                            alts.append(a[3][p["i"]])
                    cur = alts[0] if len(alts) == 1 else ("phi", tuple(alts))
                elif not is_addr and cur[0] == "load":
                    cur = ("load", ("field", cur[1], n, on), cur[2])
                else:
                    cur = ("field", cur, n, on)
            elif k == "index":
                iv = self.local_val(p["l"], at)
                if not is_addr and cur[0] == "load":
                    cur = ("load", ("index", cur[1], iv), cur[2])
                else:
                    cur = ("index", cur, iv)
            elif k == "cindex":
                if not is_addr and cur[0] == "agg" and cur[1] == "array" and not p.get("from_end") and p["i"] < len(cur[3]):
                    cur = cur[3][p["i"]]       # element of an array literal (destructured `let [a, b, ..] = [..]`)
                elif not is_addr and cur[0] == "load":
                    cur = ("load", ("cindex", cur[1], p["i"]), cur[2])
                else:
                    cur = ("cindex", cur, p["i"])
            elif k == "downcast":
                if not is_addr and cur[0] == "load":
                    cur = ("load", ("downcast", cur[1], p["n"]), cur[2])
                else:
                    cur = ("downcast", cur, p["n"])
            else:
                cur = ("unk", "proj")
        return cur, is_addr

    def place_val(self, pl, at):
        cur, is_addr = self.place(pl, at)
        return self.mk_load(cur, at) if is_addr else cur

    def place_addr(self, pl, at):
        cur, is_addr = self.place(pl, at)
        if is_addr:
            return cur
        if not pl.proj:
            return ("local", pl.local)
        return ("tmp", cur)

    def operand(self, op, at):
        if op.k in ("copy", "move"):
            return self.place_val(op.place, at)
        if op.k == "const":
            if op.fn():
                return ("fn", op.fn())
            if op.promoted() is not None:
                return self.promoted_val(op.promoted())
            if op.j.get("tuple"):
                # a named constant of tuple type (`const EMPTY_LEVEL: (Vol, OrderCount) = (0, 0)`): the tuple of its field values
                return ("agg", "tuple", "", tuple(("const", f["ty"], f["bits"], int(f["bits"])) for f in op.j["tuple"]), ())
            return ("const", op.const_ty(), op.const_str(), op.const_int())
        return ("unk", "operand")

    def promoted_val(self, idx):
        if idx in self._prom:
            return self._prom[idx]
        owner = self.promoted_of or self.fn
        r = ("unk", "promoted")
        if owner is not None and idx < len(owner.promoted):
            pb = owner.promoted[idx]
            ev = Ev(self.prog, owner, body=pb, promoted_of=owner)
            rets = pb.return_blocks()
            if rets:
                b = rets[0]
                r = ev.local_val(0, (b, len(pb.blocks[b].stmts)))
        self._prom[idx] = r
        return r

    def rvalue(self, rv, at):
        k = rv.k
        if k == "use":
            return self.operand(rv.ops[0], at)
        if k in ("ref", "rawptr"):
            cur, is_addr = self.place(rv.place, at)
            if not is_addr:
                cur = ("tmp", cur)
            return ("ref", cur, bool(rv.j.get("mut", False)))
        if k == "bin":
            return ("bin", rv.j["op"], self.operand(rv.ops[0], at), self.operand(rv.ops[1], at))
        if k == "un":
            return ("un", rv.j["op"], self.operand(rv.ops[0], at))
        if k == "cast":
            return ("cast", rv.j["ck"], self.operand(rv.ops[0], at), rv.j["ty"])
        if k == "discr":
            cur, is_addr = self.place(rv.place, at)
            return ("discr", self.mk_load(cur, at) if is_addr else cur)
        if k == "repeat":
            return ("repeat", self.operand(rv.ops[0], at), rv.j["n"])
        if k == "agg":
            ak = rv.j["ak"]
            info = rv.j.get("adt") or rv.j.get("closure") or ""
            if ak == "adt":
                info = info + "::" + rv.j["variant"]
            ops = tuple(self.operand(o, at) for o in rv.ops)
            return ("agg", ak, info, ops, tuple(rv.j.get("fields", [])))
        return ("unk", "rvalue " + str(rv.j.get("s", "")))

    # ------------------------------------------------------------ convenience
    def call_args(self, b):
        t = self.body.blocks[b].term
        at = (b, len(self.body.blocks[b].stmts))
        return [self.operand(a, at) for a in t.args]

    def term_at(self, b):
        return (b, len(self.body.blocks[b].stmts))


# --------------------------------------------------------------------------- utilities

TRANSPARENT_CALLS = (
    "std::ops::Deref::deref", "std::ops::DerefMut::deref_mut",
    "as std::ops::Deref>::deref", "as std::ops::DerefMut>::deref_mut",
    "std::borrow::Borrow", "std::convert::AsRef", "std::convert::AsMut",
    "as std::clone::Clone>::clone",
)


def is_transparent_call(e):
    if e[0] != "call":
        return False
    r = e[1]
    n = e[4]
    if n in ("deref", "deref_mut", "borrow", "borrow_mut", "as_ref", "as_mut", "clone", "as_slice", "as_mut_slice"):
        return True
    return False


def strip(e, unwrap=True):
    """normalise an expression for comparison: drop load/deref/ref/program points, see
    through deref/clone/borrow calls, and (optionally) through unwrap/expect and
    value-preserving integer conversions (from/into/try_from)."""
    t = e[0]
    if t == "load":
        return strip(e[1], unwrap)
    if t in ("deref",):
        return strip(e[1], unwrap)
    if t == "ref":
        return strip(e[1], unwrap)
    if t == "tmp":
        return strip(e[1], unwrap)
    if t == "field":
        inner = strip(e[1], unwrap)
        # a captured variable read through a closure value that is visible here (its call was spliced in): the captured operand
        if inner[0] == "agg" and inner[1] == "closure" and len(inner) > 4:
            for i_, n_ in enumerate(inner[4]):
                if (n_ == e[2] or n_.lstrip("*") == e[2].lstrip("*")) and i_ < len(inner[3]):
                    return inner[3][i_]
        # a field of a tuple / struct literal: the operand
        if inner[0] == "agg" and inner[1] == "tuple" and e[2].isdigit() and int(e[2]) < len(inner[3]):
            return inner[3][int(e[2])]
        # the payload of an enum value built in this (inlined) body, read back through a match on its variant:
        # `(phi(Ok{x} | Err{y}) as Ok).0` is x (only the alternative of the matched variant can reach the arm)
        if inner[0] == "downcast" and e[2].isdigit():
            v = inner[1]
            alts = v[1] if v[0] == "phi" else (v,)
            if alts and all(a[0] == "agg" and a[1] == "adt" and isinstance(a[2], str) for a in alts):
                hit = [a for a in alts if a[2].split("::")[-1] == inner[2]]
                if len(hit) == 1 and int(e[2]) < len(hit[0][3]):
                    return hit[0][3][int(e[2])]
        return ("field", inner, e[2], e[3] if len(e) > 3 else "")
    if t == "index":
        return ("index", strip(e[1], unwrap), strip(e[2], unwrap))
    if t == "cindex":
        return ("cindex", strip(e[1], unwrap), e[2])
    if t == "downcast":
        inner = strip(e[1], unwrap)
        # `opt.filter(pred)` is `opt` itself whenever it is Some: the payloads are the same value
        if e[2] == "Some" and inner[0] == "call" and inner[4] == "filter" and len(inner[2]) == 2 and "ption" in (inner[1] or ""):
            return ("downcast", inner[2][0], "Some")
        return ("downcast", inner, e[2])
    if t == "call":
        if is_transparent_call(e) and e[2]:
            return strip(e[2][0], unwrap)
        if unwrap and e[4] in ("unwrap", "expect", "unwrap_unchecked") and e[2]:
            return strip(e[2][0], unwrap)
        if unwrap and e[4] in ("from", "into", "try_from", "try_into") and len(e[2]) == 1:
            return ("conv", strip(e[2][0], unwrap))
        return ("call", short_callee(e[1]), tuple(strip(a, unwrap) for a in e[2]), None, e[4])
    if t == "bin":
        return ("bin", e[1], strip(e[2], unwrap), strip(e[3], unwrap))
    if t == "un":
        return ("un", e[1], strip(e[2], unwrap))
    if t == "cast":
        if e[1].startswith("PointerCoercion") or e[1] in ("PtrToPtr", "Transmute"):
            return strip(e[2], unwrap)
        return ("cast", e[1], strip(e[2], unwrap), e[3])
    if t == "agg":
        return ("agg", e[1], e[2], tuple(strip(a, unwrap) for a in e[3]), e[4])
    if t == "discr":
        return ("discr", strip(e[1], unwrap))
    if t == "phi":
        xs = []
        for a in e[1]:
            s = strip(a, unwrap)
            if s not in xs:
                xs.append(s)
        return xs[0] if len(xs) == 1 else ("phi", tuple(xs))
    if t == "const":
        return ("const", e[1], e[2], e[3])
    if t == "param":
        return ("param", e[1], e[2])
    return e


def short_callee(path):
    return re.sub(r"::<[^<>]*(<[^<>]*>[^<>]*)*>", "", path)


def render(e):
    """source-like rendering (derefs, refs and loads elided)"""
    t = e[0]
    if t == "param":
        return e[2]
    if t == "const":
        return str(e[2])
    if t == "fn":
        return "fn:" + short_callee(e[1])
    if t in ("load", "deref", "tmp"):
        return render(e[1])
    if t == "ref":
        return "&" + render(e[1])
    if t == "field":
        return "%s.%s" % (render(e[1]), e[2])
    if t == "index":
        return "%s[%s]" % (render(e[1]), render(e[2]))
    if t == "cindex":
        return "%s[%d]" % (render(e[1]), e[2])
    if t == "downcast":
        return "(%s as %s)" % (render(e[1]), e[2])
    if t == "local":
        return "_%d" % e[1]
    if t == "call":
        return "%s(%s)" % (e[4] or short_callee(e[1]), ", ".join(render(a) for a in e[2]))
    if t == "bin":
        return "%s(%s, %s)" % (e[1], render(e[2]), render(e[3]))
    if t == "un":
        return "%s(%s)" % (e[1], render(e[2]))
    if t == "cast":
        return "(%s as %s)" % (render(e[2]), e[3])
    if t == "conv":
        return "conv(%s)" % render(e[1])
    if t == "agg":
        if e[1] == "adt":
            names = e[4]
            return "%s{%s}" % (e[2].split("::")[-2] + "::" + e[2].split("::")[-1] if "::" in e[2] else e[2],
                               ", ".join("%s: %s" % (names[i] if i < len(names) else i, render(a)) for i, a in enumerate(e[3])))
        return "%s(%s)" % (e[1], ", ".join(render(a) for a in e[3]))
    if t == "discr":
        return "discr(%s)" % render(e[1])
    if t == "phi":
        return "phi(%s)" % " | ".join(render(a) for a in e[1])
    if t == "repeat":
        return "[%s; %s]" % (render(e[1]), e[2])
    if t == "cycle":
        return "cycle(_%d)" % e[1]
    if t == "isvariant":
        return "%s is %s" % (render(e[1]), e[2])
    if t in ("pred_and", "pred_or"):
        return "(%s %s %s)" % (render(e[1]), "&&" if t == "pred_and" else "||", render(e[2]))
    if t == "var":
        return str(e[1])
    if t == "applied":
        return "|x| " + render(e[1])
    return "?%s" % (e[1] if len(e) > 1 else "",)


def walk(e):
    """all sub-expressions, pre-order"""
    yield e
    for x in e[1:]:
        if isinstance(x, tuple):
            if x and isinstance(x[0], str):
                yield from walk(x)
            else:
                for y in x:
                    if isinstance(y, tuple) and y and isinstance(y[0], str):
                        yield from walk(y)


def contains(e, pred):
    return any(pred(x) for x in walk(e))


def field_chain(e):
    """for a stripped access path return (root, [field names]) else None"""
    names = []
    while True:
        t = e[0]
        if t == "field":
            names.append(e[2])
            e = e[1]
        elif t in ("load", "deref", "ref", "tmp"):
            e = e[1]
        elif t in ("index",):
            names.append("[]")
            e = e[1]
        elif t == "cindex":
            names.append("[%d]" % e[2])
            e = e[1]
        elif t == "downcast":
            names.append("as " + e[2])
            e = e[1]
        else:
            break
    names.reverse()
    return e, names


def const_float(e):
    """decode an f64/f32 constant expression"""
    if e[0] != "const" or e[3] is None:
        return None
    if e[1] == "f64":
        return struct.unpack("<d", struct.pack("<Q", e[3]))[0]
    if e[1] == "f32":
        return struct.unpack("<f", struct.pack("<I", e[3]))[0]
    return None
