"""Finite case analysis over the shape of Option-typed (and other enumerated) inputs.

Dispatch code can be spelled as a `match (a, b)` with one arm per shape, as `if let`, as
`a.is_none() && b.unwrap_or(cur) < cur`, ... – rules that ask "WHAT happens when a is None and b is Some(v) with
v < cur" should not depend on the spelling.  `CaseEval(q, opts, deciders)` fixes the shape of some Option values
(`opts`: expression -> "Some" | "None") and the truth of designated predicates (`deciders`: functions atom ->
True / False / None), evaluates every branch-edge atom of the function under these assumptions (Option combinators
`is_some / is_none / unwrap_or / unwrap_or_default` are simplified, `x < x` is false, `x <= x` is true, ...), cuts the
edges that become impossible and reports what is reachable / what must run.  Unknown atoms keep both outcomes
(sound: more paths, never fewer).
"""
from .origin import render
from .typestate import same


def payload(p):
    return ("field", ("downcast", p, "Some"), "0", "std::option::Option")


class CaseEval:
    def __init__(self, q, opts, deciders=()):
        self.q = q
        self.cfg = q.cfg
        self.opts = list(opts.items())
        self.deciders = list(deciders)
        self.cuts = None
        self.reach = None

    # ------------------------------------------------------------------ expression simplification
    def shape(self, e):
        for p, v in self.opts:
            if same(e, p):
                return v
        return None

    def simp(self, e):
        """rewrite an expression under the Option shapes"""
        if not isinstance(e, tuple) or not e or not isinstance(e[0], str):
            return e
        if e[0] == "call" and e[2]:
            n = e[4]
            sh = self.shape(e[2][0])
            if sh is not None:
                if n == "unwrap_or" and len(e[2]) == 2:
                    return payload(e[2][0]) if sh == "Some" else self.simp(e[2][1])
                if n in ("unwrap", "expect", "unwrap_unchecked") and sh == "Some":
                    return payload(e[2][0])
                if n == "is_some":
                    return ("const", "bool", "true" if sh == "Some" else "false", 1 if sh == "Some" else 0)
                if n == "is_none":
                    return ("const", "bool", "true" if sh == "None" else "false", 1 if sh == "None" else 0)
        if e[0] == "call" and e[4] == "rem" and len(e[2]) == 2 and "Rem" in e[1]:
            # `<&u32 as Rem<u32>>::rem(p, t)`: the operator on a reference operand
            return ("bin", "Rem", self.simp(e[2][0]), self.simp(e[2][1]))
        if e[0] == "phi":
            alts = []
            for a in e[1]:
                a2 = self.simp(a)
                if a2 not in alts:
                    alts.append(a2)
            return alts[0] if len(alts) == 1 else ("phi", tuple(alts))
        out = []
        for x in e:
            if isinstance(x, tuple):
                if x and isinstance(x[0], str):
                    out.append(self.simp(x))
                else:
                    out.append(tuple(self.simp(y) if isinstance(y, tuple) else y for y in x))
            else:
                out.append(x)
        return tuple(out)

    def truth(self, e):
        """True / False / None for a boolean expression"""
        e = self.simp(e)
        if e[0] == "const" and e[1] == "bool":
            return bool(e[3])
        if e[0] == "un" and e[1] == "Not":
            t = self.truth(e[2])
            return None if t is None else not t
        if e[0] == "bin" and e[1] in ("BitAnd", "BitOr"):
            a, b = self.truth(e[2]), self.truth(e[3])
            if e[1] == "BitAnd":
                if a is False or b is False:
                    return False
                return True if (a is True and b is True) else None
            if a is True or b is True:
                return True
            return False if (a is False and b is False) else None
        if e[0] == "bin" and e[1] in ("Lt", "Le", "Gt", "Ge", "Eq", "Ne"):
            return self.atom_truth(("cmp", e[1].lower(), e[2], e[3]))
        if e[0] in ("pred_and", "pred_or") and len(e) == 3:
            a, b = self.truth(e[1]), self.truth(e[2])
            if e[0] == "pred_and":
                if a is False or b is False:
                    return False
                return True if (a is True and b is True) else None
            if a is True or b is True:
                return True
            return False if (a is False and b is False) else None
        if e[0] == "isvariant":
            sh = self.shape(e[1])
            if sh is not None:
                return sh == e[2]
        return None

    def atom_truth(self, a):
        k = a[0]
        if k == "variant":
            sh = self.shape(a[1])
            if sh is not None:
                return sh in a[2]
            a2 = ("variant", self.simp(a[1]), a[2])
            subj = a[1]
            if subj[0] == "call" and subj[4] == "filter" and len(subj[2]) == 2 and "Option" in subj[1]:
                # opt.filter(pred): None when opt is None; otherwise Some exactly when pred(payload) holds
                sh = self.shape(subj[2][0])
                if sh == "None":
                    return "None" in a[2]
                if sh == "Some":
                    from .cfg import closure_apply
                    body = closure_apply(self.q.w.prog, subj[2][1], [payload(subj[2][0])]) if subj[2][1][0] == "agg" else None
                    t = self.truth(body) if body is not None else None
                    if t is not None:
                        return ("Some" if t else "None") in a[2]
            if subj[0] == "call" and set(a[2]) <= {"Ok", "Err"} and len(a[2]) == 1:
                # `check(x)` matched / tested as Ok or Err, `check` a write-free predicate function returning Result: decided by
                # the comparison its Err return is taken under
                from .cfg import result_predicate, bool_atoms
                r = result_predicate(self.q.w.prog, subj)
                if r is not None:
                    ats = bool_atoms(r, a[2][0] == "Err")
                    if len(ats) == 1:
                        t = self.atom_truth(ats[0])
                        if t is not None:
                            return t
            for d in self.deciders:
                r = d(a2)
                if r is not None:
                    return r
            return None
        if k == "cmp":
            a = ("cmp", a[1], self.simp(a[2]), self.simp(a[3]))
            for d in self.deciders:
                r = d(a)
                if r is not None:
                    return r
            if same(a[2], a[3]):
                return a[1] in ("le", "ge", "eq")
            return None
        if k == "bool":
            for d in self.deciders:
                r = d(a)
                if r is not None:
                    return r
            t = self.truth(a[1])
            return None if t is None else (t == a[2])
        return None

    # ------------------------------------------------------------------ reachability under the case
    def compute(self):
        if self.reach is not None:
            return
        cuts = set()
        body = self.q.body
        for blk in body.blocks:
            t = blk.term
            if blk.cleanup or not t or t.k != "switch":
                continue
            for tgt in set(body.succs(blk.i)):
                for a in self.cfg.edge_atoms(blk.i, tgt):
                    if a[0] == "opaque":
                        continue
                    if self.atom_truth(a) is False:
                        cuts.add((blk.i, tgt))
                        break
        self.reach, self.cuts = self.cfg.reach_under(cuts)

    def reachable(self, b):
        self.compute()
        return b in self.reach

    def must_run(self, blocks):
        """under the case, every path from entry to a return executes one of `blocks`"""
        self.compute()
        blocks = list(blocks)
        if not any(b in self.reach for b in blocks):
            return False
        r2 = self.cfg.reach_from(0, cut_edges=self.cuts, cut_blocks=blocks)
        return not (set(self.q.body.return_blocks()) & r2)

    def value(self, e):
        return self.simp(e)

    def describe(self):
        return ", ".join("%s is %s" % (render(p), v) for p, v in self.opts)
