"""Check engine: fact extraction with a content-hash cache, obligations, verdicts,
known findings, evidence and replay files."""
from . import panics as _panics
import fcntl
import hashlib
import json
import os
import shutil
import subprocess
import sys
import time

from .facts import Program, FactsError
from .origin import Ev

VERIF = os.path.dirname(os.path.dirname(os.path.abspath(__file__)))
CACHE = os.path.join(VERIF, ".cache")
DRIVER = os.path.join(VERIF, "driver", "target", "release", "bourse-facts")
KNOWN = os.path.join(VERIF, "known_findings.json")

TRUSTED_BASE = [
    "rustc 1.97-nightly MIR construction, type checking and trait resolution (facts are read from optimized_mir at -Zmir-opt-level=0)",
    "semantics of std collections (BTreeMap ordering/first_key_value, Vec), mem::take, cmp::min, f64 arithmetic",
    "crates pinned in /repo/Cargo.lock (rand 0.8.5, rand_distr, rand_xoshiro, serde, serde_json, pyo3, numpy)",
    "the informal argument connecting the checked structural obligations to the behavioural statement (DESIGN.md section 4)",
]


# --------------------------------------------------------------------------- hashing / extraction

def repo_files(repo):
    try:
        out = subprocess.run(["git", "-C", repo, "ls-files", "-co", "--exclude-standard", "-z"],
                             capture_output=True, check=True).stdout
        files = [f for f in out.decode().split("\0") if f]
        if files:
            return sorted(set(files))
    except Exception:
        pass
    files = []
    for root, dirs, fs in os.walk(repo):
        dirs[:] = [d for d in dirs if d not in (".git", "target", "__pycache__")]
        for f in fs:
            files.append(os.path.relpath(os.path.join(root, f), repo))
    return sorted(files)


def repo_hash(repo):
    h = hashlib.sha256()
    # the driver itself is part of the key: a rebuilt driver invalidates old facts
    try:
        with open(DRIVER, "rb") as fh:
            h.update(hashlib.sha256(fh.read()).digest())
    except OSError:
        raise FactsError("fact extractor not built: run MANIFEST.setup_cmd (%s missing)" % DRIVER)
    n = 0
    for f in repo_files(repo):
        p = os.path.join(repo, f)
        if not os.path.isfile(p):
            continue
        h.update(f.encode() + b"\0")
        with open(p, "rb") as fh:
            h.update(hashlib.sha256(fh.read()).digest())
        n += 1
    return h.hexdigest()[:24], n


def extract(repo):
    """returns (facts_dir, meta) – re-extracts unless this exact tree content is cached"""
    os.makedirs(CACHE, exist_ok=True)
    key, nfiles = repo_hash(repo)
    d = os.path.join(CACHE, key)
    lock = open(os.path.join(CACHE, key + ".lock"), "w")
    fcntl.flock(lock, fcntl.LOCK_EX)
    try:
        meta_p = os.path.join(d, "meta.json")
        if os.path.exists(meta_p):
            with open(meta_p) as fh:
                meta = json.load(fh)
            meta["cache_hit"] = True
            os.utime(d, None)
            return d, meta
        if os.path.isdir(d):
            shutil.rmtree(d)
        tmp = d + ".partial"
        if os.path.isdir(tmp):
            shutil.rmtree(tmp)
        t0 = time.time()
        rc = subprocess.run([os.path.join(VERIF, "bin", "extract.sh"), repo, tmp]).returncode
        if rc != 0:
            log = ""
            try:
                with open(os.path.join(tmp, "cargo.log")) as fh:
                    log = fh.read()[-3000:]
            except OSError:
                pass
            shutil.rmtree(tmp, ignore_errors=True)
            raise FactsError("fact extraction failed (cargo +nightly check rc=%d); the tree must compile.\n%s" % (rc, log))
        if not [f for f in os.listdir(tmp) if f.endswith(".json")]:
            shutil.rmtree(tmp, ignore_errors=True)
            raise FactsError("fact extraction produced no fact files (the driver did not run for any workspace member); nothing is cached")
        meta = {"hash": key, "files_hashed": nfiles, "extract_s": round(time.time() - t0, 2),
                "fact_files": sorted(f for f in os.listdir(tmp) if f.endswith(".json")),
                "cache_hit": False}
        with open(os.path.join(tmp, "meta.json"), "w") as fh:
            json.dump(meta, fh)
        os.rename(tmp, d)
        # keep the most recently used trees
        def _mtime(e):
            try:
                return os.path.getmtime(os.path.join(CACHE, e))
            except OSError:      # evicted by a concurrently running check
                return 0.0
        ents = sorted((e for e in os.listdir(CACHE) if os.path.isdir(os.path.join(CACHE, e)) and not e.endswith(".partial") and e != "deps"),
                      key=_mtime, reverse=True)
        for e in ents[90:]:
            shutil.rmtree(os.path.join(CACHE, e), ignore_errors=True)
            try:
                os.unlink(os.path.join(CACHE, e + ".lock"))
            except OSError:
                pass
        return d, meta
    finally:
        fcntl.flock(lock, fcntl.LOCK_UN)
        lock.close()


# --------------------------------------------------------------------------- check context

class Ctx:
    def __init__(self, pid, tier, seed, repo):
        self.pid = pid
        self.tier = tier
        self.seed = seed
        self.repo = repo
        self.t0 = time.time()
        self.obligations = []   # dict(rule, where, what, ok, detail, key)
        self.notes = []
        self.assumptions = []
        self.extra = {}
        self.facts_dir, self.meta = extract(repo)
        self.prog = Program(self.facts_dir)
        self._ev = {}
        self.analysed_fns = set()

    # -- evaluator cache
    def ev(self, fn):
        e = self._ev.get(fn.path)
        if e is None:
            e = Ev(self.prog, fn)
            self._ev[fn.path] = e
        self.analysed_fns.add(fn.path)
        return e

    # -- recording
    def ok(self, rule, where, what):
        self.obligations.append({"rule": rule, "where": where, "what": what, "ok": True})

    def bad(self, rule, key, where, what):
        """key: stable discriminator without line numbers (function, instance)"""
        self.obligations.append({"rule": rule, "where": where, "what": what, "ok": False,
                                 "key": "%s|%s|%s" % (self.pid, rule, key)})

    def check(self, cond, rule, key, where, what_ok, what_bad=None):
        if cond:
            self.ok(rule, where, what_ok)
        else:
            self.bad(rule, key, where, what_bad or ("NOT: " + what_ok))
        return cond

    def lost(self, rule, what):
        """fail closed: an anchor the rule needs no longer exists"""
        self.bad(rule, "anchor:" + what, "-", "anchor lost (fail closed): " + what)

    def note(self, s):
        self.notes.append(s)

    def assume(self, s):
        if s not in self.assumptions:
            self.assumptions.append(s)

    def loc(self, fn, sp=None):
        sp = sp or fn.span
        return "%s:%s (%s)" % (sp["file"], sp["line"], fn.short())


def load_known():
    try:
        with open(KNOWN) as fh:
            return json.load(fh)
    except OSError:
        return {"findings": [], "fixed": []}


def finish(ctx, level, explanation, min_obligations=1):
    """print verdicts, write evidence + replay files, return the exit code"""
    known = load_known()
    known_keys = {f["key"]: f for f in known.get("findings", []) if f.get("property") == ctx.pid}
    viol = [o for o in ctx.obligations if not o["ok"]]
    new = [o for o in viol if o["key"] not in known_keys]
    old = [o for o in viol if o["key"] in known_keys]
    n_ok = sum(1 for o in ctx.obligations if o["ok"])

    if len(ctx.obligations) < min_obligations:
        new.append({"rule": "non-vacuity", "where": "-", "ok": False,
                    "key": "%s|non-vacuity|count" % ctx.pid,
                    "what": "only %d obligations found, floor is %d (fail closed)" % (len(ctx.obligations), min_obligations)})

    for o in old:
        print("KNOWN-FINDING: property=%s %s [%s] at %s" % (ctx.pid, known_keys[o["key"]].get("what", o["what"]), o["key"], o["where"]))
    replay_paths = []
    if new:
        rdir = os.path.join(VERIF, "replay")
        os.makedirs(rdir, exist_ok=True)
        for i, o in enumerate(new):
            rp = os.path.join(rdir, "%s-%d.json" % (ctx.pid, i))
            with open(rp, "w") as fh:
                json.dump({"property": ctx.pid, "violation": o, "repo": ctx.repo, "tree_hash": ctx.meta.get("hash"),
                           "how_to_replay": "bin/check %s --tier %s  (re-derives the verdict from the source; the construct is named in 'where')" % (ctx.pid, ctx.tier)},
                          fh, indent=1)
            replay_paths.append(rp)
            print("  violated: [%s] %s -- %s" % (o["rule"], o["where"], o["what"]))
            print("VIOLATION property=%s replay=%s" % (ctx.pid, rp))

    samples = []
    seen_rules = set()
    for o in ctx.obligations:
        if o["rule"] not in seen_rules:
            seen_rules.add(o["rule"])
            samples.append({"rule": o["rule"], "where": o["where"], "what": o["what"], "verdict": "holds" if o["ok"] else "violated"})
    rules = {}
    for o in ctx.obligations:
        r = rules.setdefault(o["rule"], {"obligations": 0, "violated": 0})
        r["obligations"] += 1
        if not o["ok"]:
            r["violated"] += 1
    cov = {
        "explanation": explanation,
        "obligations": len(ctx.obligations),
        "discharged": n_ok,
        "known_findings_reported": len(old),
        "checker_cmd": "bin/check %s --tier %s" % (ctx.pid, ctx.tier),
        "trusted_base": TRUSTED_BASE,
        "rules": rules,
        "samples": samples[:40],
        "functions_analysed": len(ctx.analysed_fns),
        "functions_analysed_list": sorted(ctx.analysed_fns)[:80],
        "fact_files": ctx.meta.get("fact_files", []),
        "tree_hash": ctx.meta.get("hash"),
        "facts_cache_hit": ctx.meta.get("cache_hit"),
        "files_hashed": ctx.meta.get("files_hashed"),
        "notes": ctx.notes + (["debug-only assertion sites (debug_assert*!: absent from release builds; not counted as abort sites, assumption: the stated invariant holds): " + "; ".join(sorted(_panics.DEBUG_ONLY))] if _panics.DEBUG_ONLY else []),
        "all_obligations": [{"rule": o["rule"], "where": o["where"], "what": o["what"], "ok": o["ok"]} for o in ctx.obligations][:400],
        "exhaustive": True,
    }
    cov.update(ctx.extra)
    ev = {
        "property_id": ctx.pid,
        "tier": ctx.tier,
        "seed": ctx.seed,
        "level": level,
        "coverage": cov,
        "assumptions": ctx.assumptions,
        "wall_s": round(time.time() - ctx.t0, 3),
        "violations": len(new),
    }
    if ctx.repo == os.environ.get("VERIF_REPO_DEFAULT", "/repo"):
        edir = os.path.join(VERIF, "evidence")
        os.makedirs(edir, exist_ok=True)
        tmp = os.path.join(edir, ".%s.json.%d" % (ctx.pid, os.getpid()))
        with open(tmp, "w") as fh:
            json.dump(ev, fh, indent=1)
        os.replace(tmp, os.path.join(edir, "%s.json" % ctx.pid))
    print("%s %s: %d obligations, %d hold, %d known findings, %d new violations (%.1fs, facts %s)" % (
        ctx.pid, ctx.tier, len(ctx.obligations), n_ok, len(old), len(new), time.time() - ctx.t0,
        "cached" if ctx.meta.get("cache_hit") else "extracted in %ss" % ctx.meta.get("extract_s")))
    return 1 if new else 0
