"""A4 – effect (mod) analysis.

For every local function a summary: the set of abstract locations it may write,
expressed relative to its parameters:  (param index, path)  where path is a tuple of
field names / "[]" (any element).  Sound over-approximation:

* a direct `Assign`/call destination through a pointer rooted at a parameter writes
  that location;
* a call to a local function applies the callee's summary through the argument's base
  location; a closure's summary is applied where the closure is *created* (captures
  mapped to the captured operands), which covers every later invocation;
* a call to a non-local function (std, rand, serde, …) or an unresolved trait method
  writes the whole subtree below every `&mut` argument (and below every `&mut`
  reachable in a by-value argument whose base location is known);
* shared references are read-only: the workspace has no interior mutability
  (`interior_mutability_census` checks that no field type mentions Cell/RefCell/
  Mutex/RwLock/Atomic*/UnsafeCell/OnceCell and no `unsafe`/raw-pointer writes exist).

Locations rooted at a function's own locals are not part of its summary (they die with
the frame) unless the local is a reference-typed alias of a parameter location.
"""
from .origin import Ev, strip, field_chain

PROJECTION_CALLS = {
    # calls whose result points into / is derived from their first argument
    "get_mut", "get", "unwrap", "expect", "index_mut", "index", "deref_mut", "deref",
    "iter_mut", "iter", "as_mut", "as_ref", "first_mut", "last_mut", "into_iter", "enumerate",
    "next", "borrow_mut", "borrow", "as_mut_slice", "as_slice", "rev", "take", "skip", "by_ref",
    "unwrap_unchecked", "into", "from", "map", "filter", "zip", "peekable", "get_unchecked_mut",
    "first", "last", "split_at_mut", "chunks_mut", "entry", "or_insert", "or_insert_with", "or_default", "and_modify",
    "values_mut", "copied", "cloned",
}

# std functions that take `&mut` only to derive a pointer / iterator into their argument and
# write nothing in the pointee themselves (writes through the result are seen as assignments)
NONMUTATING = {
    "deref_mut", "get_mut", "index_mut", "iter_mut", "as_mut", "as_mut_slice", "first_mut", "last_mut",
    "borrow_mut", "get_unchecked_mut", "into_iter", "iter", "enumerate", "by_ref", "rev", "as_mut_ptr",
    "unwrap", "expect", "map", "filter", "zip", "take", "skip", "peekable", "into", "from", "collect",
    "partition", "deref", "is_some", "is_none", "len", "is_empty", "as_ref", "get", "index", "first", "last",
    "first_key_value", "last_key_value", "contains_key", "eq", "ne", "cmp", "partial_cmp", "fmt", "entry", "values_mut",
}

INTERIOR = ("Cell<", "RefCell<", "Mutex<", "RwLock<", "Atomic", "UnsafeCell<", "OnceCell<", "OnceLock<")


def is_mut_ref(ty):
    return ty.startswith("&mut ") or ty.startswith("*mut ")


MUT_WRAPPERS = ("IterMut", "Entry<", "VacantEntry<", "OccupiedEntry<", "Drain<", "RefMut<", "ValuesMut<", "ChunksMut<", "PeekMut<")


def contains_mut_ref(ty):
    return "&mut " in ty or "*mut " in ty or any(wr in ty for wr in MUT_WRAPPERS)


class Loc:
    """abstract location: root ('param', i, name) | ('local', l) | ('unknown', why), path"""
    __slots__ = ("root", "path")

    def __init__(self, root, path):
        self.root = root
        self.path = tuple(path)

    def __repr__(self):
        r = self.root
        if r[0] == "param":
            s = r[2]
        elif r[0] == "local":
            s = "_%d" % r[1]
        else:
            s = "?%s" % (r[1],)
        return s + "".join("." + p for p in self.path)


class Effects:
    def __init__(self, prog):
        self.prog = prog
        self._sum = {}
        self._evs = {}
        self._inprog = set()

    @staticmethod
    def key(fn):
        return ("inl:" if getattr(fn, "inlined_from", None) is not None else "") + fn.path

    def ev(self, fn):
        k = self.key(fn)
        e = self._evs.get(k)
        if e is None:
            e = Ev(self.prog, fn)
            self._evs[k] = e
        return e

    # ------------------------------------------------------------------ base locations
    def base(self, fn, e, depth=0):
        """abstract location an address/pointer expression refers to"""
        ev = self.ev(fn)
        path = []
        while True:
            t = e[0]
            if depth > 60:
                return Loc(("unknown", "depth"), [])
            depth += 1
            if t in ("load", "deref", "ref", "tmp"):
                e = e[1]
            elif t == "field":
                inner = e[1]
                while inner[0] in ("load", "deref", "ref", "tmp"):
                    inner = inner[1]
                if not (inner[0] == "downcast" and inner[2] in ("Some", "Ok", "Err")):
                    path.append(e[2])
                e = e[1]
            elif t == "index":
                path.append("[]")
                e = e[1]
            elif t == "cindex":
                path.append("[]")
                e = e[1]
            elif t == "downcast":
                e = e[1]
            elif t == "cast":
                e = e[2]
            elif t == "conv":
                e = e[1]
            elif t == "param":
                path.reverse()
                return Loc(("param", e[1], e[2]), path)
            elif t == "local":
                l = e[1]
                # memory local initialised exactly once as a whole: continue from that value
                # only when it is itself pointer-like (iterators, reborrows)
                ty = fn.body.local_ty(l) if fn is not None else ""
                defs = ev.def_sites().get(l, [])
                if len(defs) == 1 and contains_mut_ref(ty) or (len(defs) == 1 and ty.startswith("&")):
                    d = defs[0]
                    if d[0] == "s":
                        st = ev.body.blocks[d[1]].stmts[d[2]]
                        e = ev.rvalue(st.rv, (d[1], d[2]))
                    else:
                        e = ev.call_expr(d[1])
                    continue
                path.reverse()
                return Loc(("local", l), path)
            elif t == "call":
                name = e[4]
                if name in PROJECTION_CALLS and e[2]:
                    if name in ("get_mut", "get", "index", "index_mut", "next", "iter", "iter_mut", "into_iter",
                                "first_mut", "last_mut", "first", "last", "entry", "values_mut"):
                        if not path or path[-1] != "[]":
                            path.append("[]")
                    e = e[2][0]
                elif self._local_ret(ev, e) is not None:
                    # a workspace function returning a reference: where its result points is read off its own body
                    # (`fn book_mut(&mut self, i) -> &mut Book { &mut self.books[i] }` points below arg0.books[])
                    k, rpath = self._local_ret(ev, e)
                    path.extend(reversed(rpath))
                    e = e[2][k]
                else:
                    # a reference result of a call with exactly ONE reference-typed argument points somewhere below
                    # that argument (lifetime elision; e.g. builder methods `fn(&mut self, ..) -> &mut Self`): continue
                    # with the argument, forgetting the sub-path (= its whole subtree, a sound over-approximation)
                    nxt = None
                    at = e[3] if len(e) > 3 else None
                    if at and at[0] < len(ev.body.blocks):
                        term = ev.body.blocks[at[0]].term
                        if term is not None and term.k == "call" and len(term.args) == len(e[2]):
                            tys = [(a.place.ty if a.place is not None else "") for a in term.args]
                            refs = [i for i, ty in enumerate(tys) if ty.startswith("&") or ty.startswith("*") or contains_mut_ref(ty)]
                            dty = term.dest.ty
                            if len(refs) == 1 and (dty.startswith("&") or contains_mut_ref(dty)):
                                nxt = e[2][refs[0]]
                    if nxt is None:
                        return Loc(("unknown", "call " + name), [])
                    path = []
                    e = nxt
            elif t == "agg":
                # tuple / struct built from pointers: ambiguous -> unknown unless single operand
                ops = [o for o in e[3] if o[0] not in ("const",)]
                if len(ops) == 1:
                    e = ops[0]
                else:
                    return Loc(("unknown", "aggregate"), [])
            elif t == "phi":
                locs = [self.base(fn, a, depth) for a in e[1]]
                r0 = locs[0]
                if all(l.root == r0.root and l.path == r0.path for l in locs):
                    path.reverse()
                    return Loc(r0.root, list(r0.path) + path)
                return Loc(("unknown", "phi"), [])
            else:
                return Loc(("unknown", t), [])

    def _local_ret(self, ev, e):
        """(argument position, path below it) the reference returned by a call of a workspace function points to; None if
        the callee is not local, does not return a reference, or its result is not rooted at one parameter"""
        at = e[3] if len(e) > 3 else None
        if not at or at[0] >= len(ev.body.blocks):
            return None
        term = ev.body.blocks[at[0]].term
        if term is None or term.k != "call" or len(term.args) != len(e[2]):
            return None
        dty = term.dest.ty
        if not (dty.startswith("&") or contains_mut_ref(dty)):
            return None
        callee = self.prog.target(term)
        if callee is None or callee.body is None:
            return None
        key = self.key(callee)
        memo = self.__dict__.setdefault("_retloc", {})
        if key not in memo:
            memo[key] = None      # recursion guard
            cev = self.ev(callee)
            locs = []
            for b in callee.body.return_blocks():
                locs.append(self.base(callee, cev.local_val(0, cev.term_at(b))))
            if locs and all(l.root[0] == "param" and l.root == locs[0].root and l.path == locs[0].path for l in locs):
                memo[key] = (locs[0].root[1] - 1, list(locs[0].path))
        r = memo[key]
        if r is None or r[0] >= len(e[2]):
            return None
        return r

    # ------------------------------------------------------------------ summaries
    def summary(self, fn):
        """-> dict(writes=set((param_idx, path)), unknown=[reasons], local_writes=set)
        (computed on the unit view: higher-order private helpers and visible closure calls spliced in, like World.q)"""
        ui = getattr(self, "unit_inliner", None)
        if ui is not None and getattr(fn, "inlined_from", None) is None and fn.kind in ("Fn", "AssocFn", "Closure"):
            try:
                u = ui.inlined(fn)
                if u.inlined_from:
                    fn = u
            except Exception:
                pass
        fkey = self.key(fn)
        if fkey in self._sum:
            return self._sum[fkey]
        if fkey in self._inprog:
            return {"writes": set(), "unknown": ["recursion"], "sites": []}
        self._inprog.add(fkey)
        ev = self.ev(fn)
        body = fn.body
        writes = set()
        unknown = []
        sites = []   # (loc, block, line, what)

        def record(loc, b, sp, what):
            if loc.root[0] == "param":
                writes.add((loc.root[1], loc.path))
                sites.append((loc, b, sp, what))
            elif loc.root[0] == "unknown":
                unknown.append("%s at %s:%s (%s)" % (what, sp["file"], sp["line"], loc.root[1]))
                sites.append((loc, b, sp, what))
            else:
                sites.append((loc, b, sp, what))

        for blk in body.blocks:
            if blk.cleanup:
                continue
            for i, st in enumerate(blk.stmts):
                if st.k == "assign" or st.k == "setdiscr":
                    pl = st.place
                    if any(p["k"] == "deref" for p in pl.proj):
                        addr = ev.place_addr(pl, (blk.i, i))
                        record(self.base(fn, addr), blk.i, st.sp, "assign")
                if st.k == "assign" and st.rv.k == "agg" and st.rv.j.get("ak") == "closure":
                    cpath = st.rv.j["closure"]
                    cfn = self.prog.closure_fn(st.rv)
                    if cfn is None:
                        unknown.append("closure body not found: " + cpath)
                        continue
                    cs = self.summary(cfn)
                    ops = [ev.operand(o, (blk.i, i)) for o in st.rv.ops]
                    names = st.rv.j.get("fields", [])
                    for (pi, path) in cs["writes"]:
                        if pi != 1:
                            continue
                        if not path:
                            continue  # the closure object itself (by-value captures): local
                        cap = path[0]
                        if cap in names:
                            k = names.index(cap)
                            bl = self.base(fn, ops[k])
                            record(Loc(bl.root, list(bl.path) + list(path[1:])), blk.i, st.sp, "closure " + cfn.name)
                        else:
                            unknown.append("closure capture %s unmapped" % cap)
                    for u in cs["unknown"]:
                        unknown.append("in closure: " + u)
            t = blk.term
            if t and t.k == "call":
                at = (blk.i, len(blk.stmts))
                # destination through a pointer
                if any(p["k"] == "deref" for p in t.dest.proj):
                    record(self.base(fn, ev.place_addr(t.dest, at)), blk.i, t.sp, "call dest")
                callee = self.prog.target(t)
                args = [ev.operand(a, at) for a in t.args]
                argtys = [a.place.ty if a.place is not None else (a.const_ty() or "") for a in t.args]
                if callee is not None:
                    cs = self.summary(callee)
                    for (pi, path) in cs["writes"]:
                        if pi - 1 < len(args):
                            bl = self.base(fn, args[pi - 1])
                            record(Loc(bl.root, list(bl.path) + list(path)), blk.i, t.sp, "call " + callee.name)
                    for u in cs["unknown"]:
                        unknown.append("in %s: %s" % (callee.name, u))
                else:
                    name = t.callee_name or "?"
                    for a, ty in zip(args, argtys):
                        if name in NONMUTATING and not (t.j.get("callee_crate") or "").startswith("bourse"):
                            # adapters such as map/filter/partition run closures: those effects were
                            # applied where the closure was created
                            if is_mut_ref(ty) and a[0] != "local":
                                continue
                            if not is_mut_ref(ty):
                                continue
                        if is_mut_ref(ty) or contains_mut_ref(ty):
                            if a[0] == "agg" and a[1] == "closure":
                                continue  # closure effects were applied at creation
                            bl = self.base(fn, a)
                            record(bl, blk.i, t.sp, "extern " + name)
        self._inprog.discard(fkey)
        r = {"writes": writes, "unknown": unknown, "sites": sites}
        self._sum[fkey] = r
        return r


def interior_mutability_census(prog):
    """field types in the workspace that could be written through `&`"""
    hits = []
    for path, a in prog.adts.items():
        for v in a["variants"]:
            for f in v["fields"]:
                if any(tok in f["ty"] for tok in INTERIOR):
                    hits.append("%s.%s: %s" % (path, f["name"], f["ty"]))
    return hits


def covers(allowed, write):
    """is write (param, path) inside one of the allowed (param, path-prefix) subtrees"""
    pi, path = write
    for (ai, apath) in allowed:
        if ai == pi and tuple(path[:len(apath)]) == tuple(apath):
            return True
    return False
