"""A9 – panic-site census: every construct in a function that can abort (overflow /
bounds / division asserts, unwrap/expect, explicit panics, Index on Vec/slice/maps) with
the origin expression of what is being checked."""
from .origin import strip, render

PANIC_CALLS = ("unwrap", "expect", "unwrap_err", "expect_err")
# library calls with a documented panic on a violated precondition
PRECOND_CALLS = {"gen_bool": "p must be in [0, 1]", "gen_ratio": "denominator > 0 and numerator <= denominator", "gen_range": "range must be non-empty",
                 "sample_single": "range must be non-empty", "choose_weighted": "weights valid", "from_ratio": "valid ratio"}
PANIC_FNS = ("panic_fmt", "panic", "begin_panic", "panic_display", "unreachable_display", "panic_explicit",
             "assert_failed", "unwrap_failed", "expect_failed", "panic_nounwind", "panic_const_div_by_zero")


class PanicSite:
    def __init__(self, q, b, kind, expr, sp, detail=""):
        self.q = q
        self.b = b
        self.kind = kind      # overflow:<Op> | bounds | div0 | rem0 | unwrap | expect | panic | index
        self.expr = expr      # stripped origin of the checked operation / receiver
        self.sp = sp
        self.detail = detail

        if debug_only(sp):
            DEBUG_ONLY.add("%s:%s (%s)" % (sp["file"], sp["line"], q.fn.short()))

    def loc(self):
        return "%s:%s (%s)" % (self.sp["file"], self.sp["line"], self.q.fn.short())

    def text(self):
        return "%s %s" % (self.kind, render(self.expr) if self.expr else "")


# assertion sites that exist only when debug assertions are compiled in (`debug_assert*!`): not part of the release behaviour;
# in debug builds they abort only where an invariant stated by the author fails. They are not counted as abort sites; every one
# met is listed here and reported in the evidence notes (engine) as an assumption "the stated invariant holds".
DEBUG_ONLY = set()


def debug_only(sp):
    return "debug_assert" in (sp.get("expc") or "")


def panic_sites(q):
    out = [p for p in _panic_sites(q) if not debug_only(p.sp)]
    return out


def _panic_sites(q):
    out = []
    body = q.fn.body
    for blk in body.blocks:
        if blk.cleanup:
            continue
        t = blk.term
        if t is None:
            continue
        if t.k == "assert":
            m = t.j["m"]
            at = (blk.i, len(blk.stmts))
            cond = strip(q.ev.operand(t.cond, at))
            if m.startswith("Overflow("):
                op = m[len("Overflow("):-1]
                # cond = field(bin(<Op>WithOverflow, a, b), "1")
                e = cond[1] if cond[0] == "field" else cond
                out.append(PanicSite(q, blk.i, "overflow:" + op, e, t.sp))
            elif m == "BoundsCheck":
                # cond = Lt(index, len)
                out.append(PanicSite(q, blk.i, "bounds", cond, t.sp))
            elif m == "DivisionByZero":
                out.append(PanicSite(q, blk.i, "div0", cond, t.sp))
            elif m == "RemainderByZero":
                out.append(PanicSite(q, blk.i, "rem0", cond, t.sp))
            elif m == "OverflowNeg":
                out.append(PanicSite(q, blk.i, "overflow:Neg", cond, t.sp))
            else:
                out.append(PanicSite(q, blk.i, "assert", cond, t.sp))
        elif t.k == "call":
            name = t.callee_name or ""
            at = (blk.i, len(blk.stmts))
            if name in PANIC_CALLS:
                a = strip(q.ev.operand(t.args[0], at), unwrap=False) if t.args else None
                out.append(PanicSite(q, blk.i, name, a, t.sp))
            elif name in PRECOND_CALLS and (t.j.get("callee_crate") or "").startswith("rand"):
                args = [strip(q.ev.operand(a, at)) for a in t.args]
                out.append(PanicSite(q, blk.i, "precondition:" + name, ("call", t.resolved or name, tuple(args), None, name), t.sp, PRECOND_CALLS[name]))
            elif name in PANIC_FNS:
                out.append(PanicSite(q, blk.i, "panic", None, t.sp, t.sp.get("exp", "")))
            elif name in ("index", "index_mut") and ("ops::Index" in (t.j.get("trait") or "") or "ops::index::Index" in (t.j.get("trait") or "")):
                args = [strip(q.ev.operand(a, at)) for a in t.args]
                e = ("index", args[0], args[1]) if len(args) == 2 else None
                out.append(PanicSite(q, blk.i, "index", e, t.sp))
    return out
