"""Symbolic loop items: what the item of `for x in <iterator chain>` IS, in terms of the iterated collections.

A `for` loop over `a.iter().zip(b.iter()).enumerate()`, over `0..N` with `a[i]`, or over `a.iter().enumerate()` visits
the same elements; rules that ask "is series k fed from level k of the same side" should not care which spelling is
used.  `loop_item(q, next_call)` turns the iterator expression feeding a loop's `next` call into a symbolic item

    iter / iter_mut / into_iter (collection C)  ->  C[i]
    lo..hi                                       ->  i            (lo must be 0)
    enumerate(it)                                ->  (i, item(it))
    zip(x, y)                                    ->  (item(x), item(y))
    copied / cloned (it)                         ->  item(it)
    take(it, k)                                  ->  item(it)     (bound ("take", k) recorded: the caller judges coverage)

with one shared position variable `i = ("var", "i")` (all constituents advance in lock step).  Adapters that skip,
restrict or reorder elements (take, skip, filter, rev, step_by, chain, ...) are NOT interpreted: the function returns
None and the calling rule reports the loop as not covering every element.  `rewrite(expr, q, next_call, sym)` replaces
every access path rooted at the loop item in `expr` by the corresponding projection of the symbolic item.
"""
from .origin import strip, field_chain

I = ("var", "i")
ITER_SRC = ("iter", "iter_mut", "into_iter")


def iterator_expr(q, next_call):
    """stripped expression of the iterator object the `next` call advances (its single definition)"""
    a = next_call.args[0] if next_call.args else None
    if a is None:
        return None
    root, _n = field_chain(a)
    if root[0] != "local":
        return None
    defs = q.ev.def_sites().get(root[1], [])
    if len(defs) != 1:
        return None
    d = defs[0]
    if d[0] == "c":
        return strip(q.ev.call_expr(d[1]))
    st = q.fn.body.blocks[d[1]].stmts[d[2]]
    return strip(q.ev.rvalue(st.rv, (d[1], d[2])))


def is_range(e):
    return e[0] == "agg" and e[2].endswith("Range::Range") and len(e[3]) == 2


def sym_item(e, bounds=None, prog=None):
    """symbolic item of iterator expression e, or None.  `bounds` collects (kind, expr) of every constituent so that the
    caller can check coverage (ranges: ('range', lo, hi); collections: ('coll', C))"""
    if bounds is None:
        bounds = []
    if is_range(e):
        lo, hi = e[3]
        if not (lo[0] == "const" and lo[3] == 0):
            return None
        bounds.append(("range", lo, hi))
        return I
    if e[0] != "call" or not e[2]:
        return None
    n, a = e[4], e[2]
    if n in ITER_SRC and len(a) == 1:
        x = a[0]
        if is_range(x) or (x[0] == "call" and x[4] in ITER_SRC + ("enumerate", "zip", "copied", "cloned", "take", "map")):
            return sym_item(x, bounds, prog)          # IntoIterator of an iterator is the identity
        bounds.append(("coll", x))
        return ("index", x, I)
    if n == "enumerate" and len(a) == 1:
        s = sym_item(a[0], bounds, prog)
        return None if s is None else ("agg", "tuple", "", (I, s), ())
    if n == "zip" and len(a) == 2:
        s0 = sym_item(a[0], bounds, prog)
        y = a[1]
        if not (is_range(y) or (y[0] == "call" and y[4] in ITER_SRC + ("enumerate", "zip", "copied", "cloned", "take", "map"))):
            y = ("call", "", (y,), None, "into_iter")
        s1 = sym_item(y, bounds, prog)
        return None if s0 is None or s1 is None else ("agg", "tuple", "", (s0, s1), ())
    if n in ("copied", "cloned") and len(a) == 1:
        return sym_item(a[0], bounds, prog)
    if n == "map" and len(a) == 2 and prog is not None and a[1][0] == "agg" and a[1][1] == "closure":
        # a per-element projection: the item is the closure's result on the inner item (order and length untouched)
        s = sym_item(a[0], bounds, prog)
        if s is None:
            return None
        from .cfg import closure_apply
        body = closure_apply(prog, a[1], [s])
        if body is None:
            return None
        return _collapse(body)
    if n == "take" and len(a) == 2:
        # the first k elements, still in order and in lock step: the caller must judge ("take", k) for coverage
        s = sym_item(a[0], bounds, prog)
        if s is not None:
            bounds.append(("take", a[1]))
        return s
    return None


def _collapse(e):
    """field k of a tuple literal -> its operand k (recursively)"""
    if not isinstance(e, tuple) or not e or not isinstance(e[0], str):
        return e
    out = []
    for x in e:
        if isinstance(x, tuple):
            if x and isinstance(x[0], str):
                out.append(_collapse(x))
            else:
                out.append(tuple(_collapse(y) if isinstance(y, tuple) else y for y in x))
        else:
            out.append(x)
    r = tuple(out)
    if r[0] == "field" and r[1][0] == "agg" and r[1][1] == "tuple" and r[2].isdigit() and int(r[2]) < len(r[1][3]):
        return r[1][3][int(r[2])]
    return r


def loop_item(q, next_call):
    """(symbolic item, bounds) of the loop advanced by `next_call`, or (None, [])"""
    e = iterator_expr(q, next_call)
    if e is None:
        return None, []
    bounds = []
    s = sym_item(e, bounds, q.w.prog)
    return s, bounds


def rewrite(expr, next_call, sym):
    """replace the loop item `(next(..) as Some).0` inside expr by `sym`, collapsing tuple projections"""
    item = ("field", ("downcast", next_call.result, "Some"), "0", "std::option::Option")

    def same_item(e):
        return e[0] == "field" and e[2] == "0" and e[1][0] == "downcast" and e[1][2] == "Some" and e[1][1] == next_call.result

    def rec(e):
        if not isinstance(e, tuple) or not e or not isinstance(e[0], str):
            return e
        if same_item(e):
            return sym
        out = []
        for x in e:
            if isinstance(x, tuple):
                if x and isinstance(x[0], str):
                    out.append(rec(x))
                else:
                    out.append(tuple(rec(y) if isinstance(y, tuple) else y for y in x))
            else:
                out.append(x)
        r = tuple(out)
        # field k of a tuple aggregate -> operand k
        if r[0] == "field" and r[1][0] == "agg" and r[1][1] == "tuple" and r[2].isdigit() and int(r[2]) < len(r[1][3]):
            return r[1][3][int(r[2])]
        return r
    _ = item
    return rec(expr)


def rewrite_with(expr, is_item, sym):
    """like rewrite, for an arbitrary item root recognised by `is_item(e)` (e.g. a closure's item parameter)"""
    def rec(e):
        if not isinstance(e, tuple) or not e or not isinstance(e[0], str):
            return e
        if is_item(e):
            return sym
        out = []
        for x in e:
            if isinstance(x, tuple):
                if x and isinstance(x[0], str):
                    out.append(rec(x))
                else:
                    out.append(tuple(rec(y) if isinstance(y, tuple) else y for y in x))
            else:
                out.append(x)
        r = tuple(out)
        if r[0] == "field" and r[1][0] == "agg" and r[1][1] == "tuple" and r[2].isdigit() and int(r[2]) < len(r[1][3]):
            return r[1][3][int(r[2])]
        return r
    return rec(expr)
