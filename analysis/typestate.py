"""A5 – order-entity typestate (DESIGN.md §3.2).

Forward, path-sensitive (branch-refined) abstract interpretation of every function that
touches an order entity.  Abstract value per entity: a set of tuples

    (status, inmap, side, pend)

status ∈ {New, Active, Filled, Cancelled, Rejected}; inmap ∈ {True, False} (is the order
filed in a side's priority map); side ∈ {Bid, Ask}; pend = a volume delta already taken
off the order's `vol` but not yet mirrored in the side aggregates (None or an origin
expression).

Entities are identified by the stripped address expression of their `Order` object.
Context-sensitive summaries: a callee is re-analysed for every distinct abstract input
(memoised; the workspace has no recursion).

Book invariant I (assumed for table look-ups at API entry, re-established at exit):
inmap ⇔ status = Active, pend = None.
"""
from .origin import strip, render, field_chain, walk
from .cfg import render_atom

STATUSES = ("New", "Active", "Filled", "Cancelled", "Rejected")
TERMINAL = ("Filled", "Cancelled", "Rejected")
PRED = {"Active": {"New"}, "Filled": {"Active"}, "Cancelled": {"Active"}, "Rejected": {"Active"}}
SIDES = ("Bid", "Ask")


KINDS = ("limit", "market")
# tuple layout: 0 status, 1 inmap, 2 side, 3 pend, 4 status at acquisition, 5 kind,
#               6 end_time written during this API call (None / "clock" / "other"), 7 arr_time written (same values)


def top_I():
    """any order satisfying invariant I (a market order is never resting)"""
    s = set()
    for side in SIDES:
        for st in STATUSES:
            for kind in KINDS:
                if st == "Active" and kind == "market":
                    continue
                s.add((st, st == "Active", side, None, st, kind, None, None))
    return frozenset(s)


def fresh_unfiled():
    """loader view: any stored order satisfying the status part of I, nothing filed yet"""
    return frozenset((st, False, side, None, st, kind, None, None) for st in STATUSES for side in SIDES for kind in KINDS
                     if not (st == "Active" and kind == "market"))


def consistent(t):
    return (t[1] == (t[0] == "Active")) and t[3] is None and not (t[5] == "market" and t[0] == "Active")


def replace_prefix(e, old, new):
    if e == old:
        return new
    t = e[0]
    if t == "field":
        return ("field", replace_prefix(e[1], old, new), e[2], e[3] if len(e) > 3 else "")
    if t in ("index",):
        return ("index", replace_prefix(e[1], old, new), e[2])
    if t in ("cindex", "downcast"):
        return (t, replace_prefix(e[1], old, new), e[2])
    return e


def has_prefix(e, old):
    while True:
        if e == old:
            return True
        if e[0] in ("field", "index", "cindex", "downcast"):
            e = e[1]
        else:
            return False


def subst(e, mapping):
    """substitute parameter expressions"""
    if e in mapping:
        return mapping[e]
    if not isinstance(e, tuple):
        return e
    if e and e[0] == "param":
        for k, v in mapping.items():
            if k[0] == "param" and k[1] == e[1]:
                return v
        return e
    return tuple(subst(x, mapping) if isinstance(x, tuple) else x for x in e)


def variant_name(e):
    if e[0] == "agg" and e[1] == "adt":
        return e[2].split("::")[-1]
    return None


class OpLog(list):
    """side-op sites visited by the analysis: one entry per (operation root, op, side, source location), pre-states merged"""

    def append(self, item):
        fn, op, side, where, pre = item
        for i, (f2, o2, s2, w2, p2) in enumerate(self):
            if f2 == fn and o2 == op and s2 == side and w2.split(" (")[0] == where.split(" (")[0]:
                self[i] = (f2, o2, s2, w2, frozenset(p2) | frozenset(pre))
                return
        list.append(self, (fn, op, side, where, frozenset(pre)))


class Violation:
    def __init__(self, rule, key, where, what):
        self.rule = rule
        self.key = key
        self.where = where
        self.what = what


class StatusWrite:
    def __init__(self, fn, where, new, pre, entity, b, src=None):
        self.fn = fn
        self.src = src
        self.where = where
        self.new = new
        self.pre = pre
        self.entity = entity
        self.b = b


class TypeState:
    def __init__(self, model):
        self.m = model
        self.w = model.w
        self.memo = {}
        self.violations = {}
        self.status_writes = {}
        self.ops = OpLog()     # (fn short, op, side, where, pre-states), one entry per source site
        self.calls = []        # (caller Fn, callee Fn, {callee entity key: set of sides}, where)
        self.contexts = 0
        self.trace = None
        self.stack = []
        self.consts_stack = []
        self.alias_stack = []    # per analysed function: {param index: entity key} for parameters that ARE an entity's side
        self.is_clock = lambda q, e: False    # set by the rule: is expression e the book clock (or a parameter always given it)
        self.time_writes = set()              # (fn path, block, stmt) of every end_time / arr_time write visited

    # ------------------------------------------------------------------ reporting
    def viol(self, rule, key, where, what):
        k = (rule, key)
        if k not in self.violations:
            self.violations[k] = Violation(rule, key, where, what)

    # ------------------------------------------------------------------ entity helpers
    def order_key_of_status_addr(self, addr):
        """addr = field(K, 'status') with owner Order -> K"""
        return addr[1]

    def initial_for(self, q, key, mode):
        """initial abstract value of an entity first touched in q"""
        # passive: table entry addressed by best_order_idx of side r
        for x in walk(key):
            if x[0] == "call" and x[4] == "best_order_idx":
                side = None
                if "BidSide" in x[1]:
                    side = "Bid"
                elif "AskSide" in x[1]:
                    side = "Ask"
                if side:
                    return frozenset({("Active", True, side, None, "Active", "limit", None, None)})
                self.viol("typestate-anchor", "best-side|" + q.fn.short(), q.loc(), "cannot resolve the side of best_order_idx in " + render(key))
                return top_I()
        if mode == "loader":
            base = fresh_unfiled()
            # an iterator `filter` on the stored entries restricts which entries the loop sees; the
            # entries it skips must already satisfy I (i.e. must not be Active, nothing is filed yet)
            for x in walk(key):
                if x[0] == "call" and x[4] == "next":
                    for c in q.calls("next"):
                        if c.result == x:
                            r = q.iter_chain_full(c)
                            if r is None:
                                continue
                            for (name, extra) in r[0]:
                                if name != "filter" or not extra or extra[0][0] != "agg":
                                    continue
                                keep = self.filter_statuses(extra[0])
                                where = c.loc()
                                if keep is None:
                                    self.viol("exit-invariant", "%s|filter-opaque" % q.fn.short(), where,
                                              "the loader skips stored entries by a predicate that is not a test of their status: skipped Active orders would be missing from the rebuilt index")
                                    continue
                                if "Active" not in keep:
                                    self.viol("exit-invariant", "%s|filter-skips-active" % q.fn.short(), where, "the loader's filter skips Active orders: they would be missing from the rebuilt index")
                                base = frozenset(t for t in base if t[0] in keep)
            return base
        return top_I()

    def filter_statuses(self, clo):
        """statuses accepted by a filter closure `|e| e.order.status ==/!= Status::X` (None if not of that form)"""
        from .beta import closure_fn
        f = closure_fn(self.w, clo)
        if f is None:
            return None
        r = self.w.q(f).ret()
        if r[0] == "call" and r[4] in ("eq", "ne") and len(r[2]) == 2:
            a, b = r[2]
            for x, y in ((a, b), (b, a)):
                v = variant_name(y) if y[0] == "agg" else None
                if v in STATUSES and x[0] == "field" and x[2] == "status":
                    return {v} if r[4] == "eq" else set(STATUSES) - {v}
        return None

    # ------------------------------------------------------------------ main analysis
    def analyse(self, fn, entry, mode="api", consts=(), aliases=None, q=None):
        """entry: dict key -> frozenset(tuples) for parameter-rooted entities.
        returns dict(exit=dict key->frozenset, ret=expr)"""
        ck = (fn.path, mode, tuple(sorted((repr(k), tuple(sorted(v, key=repr))) for k, v in entry.items())), tuple(consts),
              tuple(sorted((j, repr(k)) for j, k in (aliases or {}).items())), id(q) if q is not None else "")
        if ck in self.memo:
            return self.memo[ck]
        if fn.path in self.stack:
            self.viol("typestate-anchor", "recursion|" + fn.short(), "-", "recursion through " + fn.short())
            return {"exit": dict(entry), "ret": ("unk", "rec")}
        self.stack.append(fn.path)
        self.consts_stack.append(dict(consts))
        self.alias_stack.append(dict(aliases or {}))
        self.contexts += 1
        if q is None:
            q = self.m.q(fn)
        body = q.body
        nb = len(body.blocks)
        IN = {0: dict(entry)}
        work = [0]
        OUT_exit = {}
        visited_edges = set()
        iters = 0
        while work:
            iters += 1
            if iters > 5000:
                self.viol("typestate-anchor", "diverge|" + fn.short(), q.loc(), "typestate fixpoint did not converge")
                break
            b = work.pop()
            st = dict(IN[b])
            blk = body.blocks[b]
            if blk.cleanup:
                continue
            st = self.transfer_block(q, b, st, mode)
            t = blk.term
            if t is None:
                continue
            if self.trace is not None:
                self.trace.append((b, {render(k): sorted({(t_[0], t_[1], t_[5]) for t_ in v}) for k, v in st.items()}))
            if t.k == "return":
                for k, v in st.items():
                    OUT_exit[k] = OUT_exit.get(k, frozenset()) | v
                continue
            for s in set(body.succs(b)):
                ns = st
                if t.k == "switch":
                    ns = self.refine(q, b, s, st, mode)
                    if ns is None:
                        continue  # infeasible edge
                old = IN.get(s)
                if old is None:
                    IN[s] = dict(ns)
                    work.append(s)
                else:
                    changed = False
                    merged = dict(old)
                    for k, v in ns.items():
                        nv = merged.get(k, frozenset()) | v
                        if nv != merged.get(k):
                            merged[k] = nv
                            changed = True
                    if changed:
                        IN[s] = merged
                        if s not in work:
                            work.append(s)
        # internal (non-parameter) entities must satisfy I when the function returns
        for k, v in OUT_exit.items():
            root, _n = field_chain(k)
            is_param = root[0] == "param"
            if not is_param:
                for tpl in v:
                    if self.stack and len(self.stack) > 1:
                        self.check_times(q, k, tpl, q.loc())   # (API roots: judged by the rule on the root's exit states)
                    if not consistent(tpl):
                        self.viol("exit-invariant", "%s|%s|%s" % (fn.short(), render(k), tpl[0]), q.loc(),
                                  "entity %s leaves %s as (status=%s, in priority map=%s, unmirrored volume=%s): invariant I broken" % (
                                      render(k), fn.short(), tpl[0], tpl[1], render(tpl[3]) if tpl[3] else "none"))
        res = {"exit": {k: v for k, v in OUT_exit.items()}, "ret": q.ret()}
        self.stack.pop()
        self.consts_stack.pop()
        self.alias_stack.pop()
        self.memo[ck] = res
        return res

    # ------------------------------------------------------------------ refinement
    @staticmethod
    def body_is_switch(q, b):
        t = q.body.blocks[b].term
        return t is not None and t.k == "switch"

    def refine(self, q, b, s, st, mode):
        atoms = list(q.cfg.edge_atoms(b, s))
        # a switch on an enum value that was built under known conditions (`match OrderKind::of(&order) { .. }`) inherits
        # them; only tests of the IMMUTABLE attributes (kind via the price sentinel, side) are taken over - a status or volume
        # test made when the value was built may be stale by now
        for a in q.cfg.correlated_atoms(b, s):
            if a[0] == "variant" and all(n in SIDES for n in a[2]):
                atoms.append(a)
            elif a[0] == "cmp" and a[1] in ("eq", "ne") and a[2][0] == "field" and a[2][2] == "price":
                atoms.append(a)
            elif a[0] == "bool" and a[1][0] == "phi":
                atoms.append(a)
        # a test of mutable state (volume, status) that still held where the value was built still holds here if nothing was
        # written in between
        site = q.cfg.correlated_site(b, s) if self.body_is_switch(q, b) else None
        if site is not None and q.cfg.pure_path(site, b, include_first=True):
            for a in q.cfg.fresh_atoms(site):
                if a[0] == "cmp" and a[2][0] == "field" and a[2][2] in ("vol", "status") and a not in atoms:
                    atoms.append(a)
        st = dict(st)
        for a in atoms:
            if a[0] == "cmp" and a[1] in ("eq", "ne") and a[2][0] == "field" and a[2][2] == "price" and a[3][0] == "phi" \
                    and all(x[0] == "const" and x[3] in (0, 0xFFFFFFFF) for x in a[3][1]) and len(a[3][1]) == 2:
                # `price == match side { Bid => MAX, Ask => 0 }`: the order's own market sentinel (limit prices are strictly inside)
                k = self.canon_key(st, a[2][1])
                cur = self.get(q, st, k, mode)
                nv = frozenset(t for t in cur if (t[5] == "market") == (a[1] == "eq"))
                if not nv:
                    return None
                st[k] = nv
            if a[0] == "cmp" and a[1] in ("eq", "ne"):
                lhs, rhs = a[2], a[3]
                sv = variant_name(rhs) if rhs[0] == "agg" else None
                if sv in STATUSES and lhs[0] == "field" and lhs[2] == "status":
                    k = lhs[1]
                    cur = self.get(q, st, k, mode)
                    if a[1] == "eq":
                        nv = frozenset(t for t in cur if t[0] == sv)
                    else:
                        nv = frozenset(t for t in cur if t[0] != sv)
                    if not nv:
                        return None
                    st[k] = nv
            if a[0] == "cmp" and a[2][0] == "field" and a[3][0] == "const":
                lhs, c = a[2], a[3][3]
                if lhs[2] == "vol" and c == 0 and a[1] in ("gt", "ne") and (len(lhs) < 4 or lhs[3].endswith("Order")):
                    # invariant J (checked by the filled-iff-zero obligations): Filled => vol == 0
                    k = lhs[1]
                    cur = self.get(q, st, k, mode)
                    nv = frozenset(t for t in cur if t[0] != "Filled")
                    if not nv:
                        return None
                    st[self.canon_key(st, k)] = nv
                if lhs[2] == "price" and a[1] in ("eq", "ne") and c in (0, 0xFFFFFFFF):
                    k = lhs[1]
                    cur = self.get(q, st, k, mode)
                    sent_side = "Bid" if c == 0xFFFFFFFF else "Ask"
                    nv = set()
                    for t in cur:
                        if t[2] != sent_side:
                            nv.add(t)
                        elif (a[1] == "eq") == (t[5] == "market"):
                            nv.add(t)
                    if not nv:
                        return None
                    st[self.canon_key(st, k)] = frozenset(nv)
            if a[0] == "bool" and a[1][0] == "phi":
                # `is_market = match side { Bid => price == MAX, Ask => price == 0 }`: each alternative compares the price
                # with a market sentinel; under valid histories (limit prices strictly inside (0, MAX)) the join is true iff
                # the order is a market order
                alts = a[1][1]
                ks = set()
                okp = True
                for x in alts:
                    if x[0] == "bin" and x[1] == "Eq" and x[2][0] == "field" and x[2][2] == "price" and x[3][0] == "const" and x[3][3] in (0, 0xFFFFFFFF):
                        ks.add(repr(x[2][1]))
                        kk = x[2][1]
                    else:
                        okp = False
                if okp and len(ks) == 1:
                    k = self.canon_key(st, kk)
                    cur = self.get(q, st, k, mode)
                    nv = frozenset(t for t in cur if (t[5] == "market") == bool(a[2]))
                    if not nv:
                        return None
                    st[k] = nv
            if a[0] == "variant" and a[1][0] == "field" and a[1][2] == "status" and a[2] and all(n in STATUSES for n in a[2]):
                # `match order.status { Status::Filled => .., _ => .. }`
                k = self.canon_key(st, a[1][1])
                cur = self.get(q, st, k, mode)
                nv = frozenset(t for t in cur if t[0] in a[2])
                if not nv:
                    return None
                st[k] = nv
            if a[0] == "variant":
                subj = a[1]
                names = a[2]
                if all(n in SIDES for n in names) and subj[0] == "param" and self.alias_stack and subj[1] in self.alias_stack[-1]:
                    k = self.canon_key(st, self.alias_stack[-1][subj[1]])
                    cur = self.get(q, st, k, mode)
                    nv = frozenset(t for t in cur if t[2] in names)
                    if not nv:
                        return None
                    st[k] = nv
                if all(n in SIDES for n in names) and subj[0] == "field":
                    k = None
                    if subj[2] == "side":
                        k = subj[1]
                    elif subj[2] == "0" and subj[1][0] == "field" and subj[1][2] == "key":
                        k = ("field", subj[1][1], "order", "")
                        k = self.canon_key(st, k)
                    if k is not None:
                        cur = self.get(q, st, k, mode)
                        nv = frozenset(t for t in cur if t[2] in names)
                        if not nv:
                            return None
                        st[k] = nv
        return st

    def canon_key(self, st, k):
        """keys carry the owner ADT in field nodes; match ignoring it"""
        for e in st:
            if same(e, k):
                return e
        return k

    def get(self, q, st, k, mode):
        k2 = self.canon_key(st, k)
        if k2 in st:
            return st[k2]
        v = self.initial_for(q, k, mode)
        st[k2] = v
        return v

    def put(self, st, k, v):
        st[self.canon_key(st, k)] = v

    # ------------------------------------------------------------------ transfer
    def transfer_block(self, q, b, st, mode):
        blk = q.body.blocks[b]
        ws = [w for w in q.writes() if w.b == b]
        ws_by_i = {}
        for w in ws:
            ws_by_i.setdefault(w.i, []).append(w)
        for i in range(len(blk.stmts)):
            for w in ws_by_i.get(i, []):
                self.transfer_write(q, w, st, mode)
            # `let mut entry = self.orders[id];` after a test of `self.orders[id].order.status`: the working copy starts in the
            # abstract state the table slot is known to be in at this point
            s_ = blk.stmts[i]
            if s_.k == "assign" and not s_.place.proj and s_.rv.k == "use" and (s_.place.ty or "").endswith("OrderEntry") and not (s_.place.ty or "").startswith("&"):
                src = strip(q.ev.rvalue(s_.rv, (b, i)))
                if _elem(src) is not None:
                    k_src = self.canon_key(st, ("field", src, "order", ""))
                    if k_src in st:
                        # (keyed exactly as the branch atoms spell the entity: field node annotated with the owner type)
                        st[self.canon_key(st, ("field", ("local", s_.place.local), "order", s_.place.ty))] = st[k_src]
        t = blk.term
        if t and t.k == "call":
            c = [c for c in q.calls() if c.b == b]
            if c:
                self.transfer_call(q, c[0], st, mode)
            for w in ws_by_i.get(None, []):
                self.transfer_write(q, w, st, mode)
        return st

    def transfer_write(self, q, w, st, mode):
        a = w.addr
        if a[0] != "field":
            # `self.orders[id] = entry;` (the working copy stored back): the slot is now in the copy's abstract state
            if _elem(a) is not None and w.val[0] == "local":
                k_slot = self.canon_key(st, ("field", a, "order", ""))
                k_loc = self.canon_key(st, ("field", w.val, "order", ""))
                if k_slot in st and k_loc in st:
                    st[k_slot] = st[k_loc]
            return
        f = a[2]
        owner = (a[3] if len(a) > 3 else "").split("::")[-1]
        where = w.loc()
        if f == "status" and owner == "Order":
            k = a[1]
            new = variant_name(w.val)
            if new is None and w.val[0] == "param" and self.consts_stack and w.val[1] in self.consts_stack[-1]:
                new = self.consts_stack[-1][w.val[1]]   # status passed as a constant argument by this calling context
            cur = self.get(q, st, k, mode)
            pre = frozenset(t[0] for t in cur)
            if new not in STATUSES:
                self.viol("status-write", "nonconst|" + q.fn.short(), where, "status assigned a non-constant value: " + w.text())
                return
            self.status_writes.setdefault((w.sp.get("file"), w.sp.get("line"), new), StatusWrite(q.fn, where, new, set(), render(k), w.b, (w.sp.get("file"), w.sp.get("line")))).pre.update(pre)
            if new == "Filled":
                g = [a for a in w.guards if a[0] == "cmp" and a[1] == "eq" and a[2][0] == "field" and a[2][2] == "vol"
                     and same(a[2][1], k) and a[3][0] == "const" and a[3][3] == 0]
                if not g:
                    self.viol("filled-iff-zero", q.fn.short(), where, "status set to Filled without a dominating test `%s.vol == 0`" % render(k))
            bad = pre - PRED.get(new, set())
            if bad:
                self.viol("state-machine", "%s|%s<-%s" % (q.fn.short(), new, ",".join(sorted(bad))), where,
                          "status of %s set to %s where it may be %s (allowed predecessors: %s)" % (
                              render(k), new, "/".join(sorted(bad)), "/".join(sorted(PRED.get(new, set()))) or "none"))
            self.put(st, k, frozenset((new, t[1], t[2], t[3], t[4], t[5]) + t[6:] for t in cur))
        elif f == "vol" and owner == "Order":
            k = a[1]
            cur = self.get(q, st, k, mode)
            v = w.val
            if v[0] == "field" and v[1][0] == "bin":
                v = v[1]
            dec = None
            if v[0] == "bin" and v[1] in ("Sub", "SubWithOverflow") and same(v[2], ("field", k, "vol", "")):
                dec = v[3]
            nv = set()
            for t in cur:
                if dec is not None:
                    if t[1]:
                        if t[3] is not None:
                            self.viol("accounting", "double-dec|" + q.fn.short(), where,
                                      "volume of filed order %s decreased again before the previous decrease (%s) was mirrored in the side aggregates" % (render(k), render(t[3])))
                        nv.add((t[0], t[1], t[2], dec, t[4], t[5]) + t[6:])
                    else:
                        nv.add(t)
                else:
                    if t[0] in TERMINAL:
                        self.viol("state-machine", "vol-on-terminal|%s|%s" % (q.fn.short(), t[0]), where,
                                  "volume of %s rewritten where its status may be %s (terminal orders never change)" % (render(k), t[0]))
                    if t[1]:
                        if t[3] is not None:
                            self.viol("accounting", "vol-overwrite|" + q.fn.short(), where,
                                      "volume of %s overwritten (%s) while an earlier change is still unmirrored" % (render(k), w.text()))
                        # `vol = v` on a filed order: the side still accounts for the old volume; the unmirrored decrease is
                        # (old volume - v), to be removed with remove_vol before the operation ends (checked there, incl. that
                        # the old volume was read BEFORE this write)
                        nv.add((t[0], t[1], t[2], ("overwrite", ("field", k, "vol", ""), v, (w.b, w.i if w.i is not None else 1 << 20)), t[4], t[5]) + t[6:])
                        continue
                    nv.add(t)
            self.put(st, k, frozenset(nv))
        elif f in ("end_time", "arr_time") and owner == "Order":
            k = a[1]
            cur = self.get(q, st, k, mode)
            kind = "clock" if self.is_clock(q, w.val) else "other"
            self.time_writes.add((w.sp.get("file"), w.sp.get("line"), f))
            pos = 6 if f == "end_time" else 7
            nv = set()
            for t in cur:
                v = kind if (t[pos] in (None, kind)) else "other"
                nv.add(t[:pos] + (v,) + t[pos + 1:])
            self.put(st, k, frozenset(nv))
        elif f == "price" and owner == "Order":
            k = a[1]
            cur = self.get(q, st, k, mode)
            if any(t[1] for t in cur):
                self.viol("accounting", "price-overwrite|" + q.fn.short(), where,
                          "price of %s rewritten while it is filed in the priority map" % render(k))
        elif f == "key" and owner == "OrderEntry":
            k = ("field", a[1], "order", "")
            cur = self.get(q, st, k, mode)
            side = self.key_side(w.val)
            if isinstance(side, tuple) and side[0] == "alias":
                # the key's side component is this very order's side (passed down as a parameter): consistent by construction
                side = "own" if same(side[1], k) else None
            if side == "own":
                pass
            elif side is None:
                self.viol("key-side", "unknown|" + q.fn.short(), where, "cannot determine the side component of the key written: " + w.text())
            else:
                bad = [t for t in cur if t[2] != side]
                if bad:
                    self.viol("key-side", "%s|%s" % (q.fn.short(), side), where,
                              "key of %s given side %s on a path where the order may be on side %s" % (render(k), side, bad[0][2]))
            if any(t[1] for t in cur):
                self.viol("accounting", "key-overwrite|" + q.fn.short(), where, "key of %s rewritten while it is filed under the old key" % render(k))

    def key_side(self, v):
        """side component of a key value expression (tuple literal or a key-builder call)"""
        if v[0] == "agg" and v[1] == "tuple" and v[3]:
            n = variant_name(v[3][0])
            if n is None and v[3][0][0] == "param" and self.alias_stack and v[3][0][1] in self.alias_stack[-1]:
                return ("alias", self.alias_stack[-1][v[3][0][1]])
            if n is None and v[3][0][0] == "field" and v[3][0][2] == "0" and v[3][0][1][0] == "field" and v[3][0][1][2] == "key":
                return ("alias", ("field", v[3][0][1][1], "order", ""))    # (<entry>.key.0, ..): the stored key's own side component is kept
            if n is None and v[3][0][0] == "field" and v[3][0][2] == "side":
                return ("alias", v[3][0][1])       # (<order>.side, ..): judged against the entity the key is written to
            return n if n in SIDES else None
        if v[0] == "call":
            f = self.m.prog.fn_by_short(v[1])
            if f is not None:
                r = self.m.w.q(f).ret()
                if r[0] == "agg" and r[1] == "tuple" and r[3]:
                    n = variant_name(r[3][0])
                    return n if n in SIDES else None
        return None

    def check_times(self, q, k, t, where):
        """an entity that leaves the analysis (internal entity at function exit / re-acquired table entry): lifecycle
        time stamps must match what happened to it since it was acquired"""
        became_terminal = t[0] in TERMINAL and t[4] not in TERMINAL
        if became_terminal and t[6] != "clock":
            self.viol("end-time", "%s|%s->%s" % (q.fn.short(), t[4], t[0]), where,
                      "order %s becomes %s (from %s) in %s without its end_time being set from the book clock (%s)" % (
                          render(k), t[0], t[4], q.fn.short(), "not written" if t[6] is None else "written from something else"))
        if not became_terminal and t[6] is not None:
            self.viol("end-time", "orphan|%s" % q.fn.short(), where, "end_time of %s written in %s although the order does not become terminal (%s -> %s)" % (render(k), q.fn.short(), t[4], t[0]))
        placed = t[4] == "New" and t[0] != "New"
        if placed and t[7] != "clock":
            self.viol("arr-time", "%s|placed" % q.fn.short(), where, "order %s is placed in %s without arr_time := book clock" % (render(k), q.fn.short()))
        if not placed and t[7] is not None:
            self.viol("arr-time", "orphan|%s" % q.fn.short(), where, "arr_time of %s written in %s although the order is not being placed" % (render(k), q.fn.short()))

    def release_entities(self, q, c, st):
        """a call whose result is part of an entity's identity re-acquires the entity"""
        res = c.result
        # a plain element access by a value that does not change during the operation (a parameter / field path, not the result of
        # a query such as the queue head) addresses the same slot every time it is evaluated: nothing is re-acquired
        if c.name in ("index", "index_mut", "get", "get_mut") and len(c.args) == 2 and not any(x[0] in ("call", "phi", "cycle") for x in walk(c.args[1])):
            return
        for k in list(st.keys()):
            if any(x == res for x in walk(k)):
                for t in st[k]:
                    self.check_times(q, k, t, c.loc())
                    if not consistent(t):
                        self.viol("exit-invariant", "%s|%s|%s" % (q.fn.short(), render(k), t[0]), c.loc(),
                                  "entity %s is dropped as (status=%s, in priority map=%s, unmirrored volume=%s): invariant I broken" % (
                                      render(k), t[0], t[1], render(t[3]) if t[3] else "none"))
                del st[k]

    def transfer_call(self, q, c, st, mode):
        name = c.name
        m = self.m
        side = None
        is_side_op = False
        if ("SideFunctionality" in (c.term.j.get("trait") or "") or "SideFunctionality" in c.resolved):
            if "BidSide" in c.resolved:
                side = "Bid"
            elif "AskSide" in c.resolved:
                side = "Ask"
            is_side_op = True
        where = c.loc()
        if is_side_op and name == "insert_order":
            key_a, id_a, vol_a = c.args[1], c.args[2], c.args[3]
            if not (id_a[0] == "field" and id_a[2] == "order_id"):
                self.viol("insert", "id-arg|" + q.fn.short(), where, "insert_order id argument is not an order's own order_id: " + render(id_a))
                return
            k = id_a[1]
            cur = self.get(q, st, k, mode)
            self.ops.append((q.fn.short(), "insert", side, where, cur))
            X = k[1] if k[0] == "field" and k[2] == "order" else None
            # key argument: the entity's stored key, or the value written to it in this block
            key_ok = False
            if X is not None and same(key_a, ("field", X, "key", "")):
                key_ok = True
            else:
                # .. or the value written to the stored key earlier on every path here, with no other key write in between
                kws = [w for w in q.writes() if w.addr[0] == "field" and w.addr[2] == "key" and X is not None and same(w.addr[1], X)]
                for w in kws:
                    if w.val == key_a and (w.b == c.b or q.body.dominates(w.b, c.b)) and not any(
                            w2 is not w and w2.b != w.b and q.cfg.can_reach(w.b, w2.b) and q.cfg.can_reach(w2.b, c.b) for w2 in kws):
                        key_ok = True
            if not key_ok:
                self.viol("insert", "key-arg|" + q.fn.short(), where, "order filed under a key (%s) that is not the key stored with the order" % render(key_a))
            if not same(vol_a, ("field", k, "vol", "")):
                self.viol("insert", "vol-arg|" + q.fn.short(), where, "insert_order volume argument is %s, not the order's remaining volume" % render(vol_a))
            nv = set()
            for t in cur:
                if t[0] != "Active":
                    self.viol("insert", "status|%s|%s" % (q.fn.short(), t[0]), where, "order %s filed in the priority map while its status may be %s" % (render(k), t[0]))
                if t[1]:
                    self.viol("insert", "double|" + q.fn.short(), where, "order %s filed while it may already be in the priority map" % render(k))
                if side and t[2] != side:
                    self.viol("insert", "side|%s|%s" % (q.fn.short(), side), where, "order %s (side %s) filed on the %s side" % (render(k), t[2], side))
                if t[3] is not None:
                    self.viol("insert", "pend|" + q.fn.short(), where, "order %s filed with an unmirrored volume change" % render(k))
                nv.add((t[0], True, t[2], None, t[4], t[5]) + t[6:])
            self.put(st, k, frozenset(nv))
            return
        if is_side_op and name == "remove_order":
            key_a, vol_a = c.args[1], c.args[2]
            if not (key_a[0] == "field" and key_a[2] == "key"):
                self.viol("remove", "key-arg|" + q.fn.short(), where, "remove_order key argument is not an order's stored key: " + render(key_a))
                return
            k = ("field", key_a[1], "order", "")
            cur = self.get(q, st, k, mode)
            self.ops.append((q.fn.short(), "remove", side, where, cur))
            nv = set()
            for t in cur:
                if not t[1]:
                    self.viol("remove", "notin|%s|%s" % (q.fn.short(), t[0]), where, "order %s removed from the priority map while it may not be in it (status %s)" % (render(k), t[0]))
                if side and t[2] != side:
                    self.viol("remove", "side|%s|%s" % (q.fn.short(), side), where, "order %s (side %s) removed from the %s side" % (render(k), t[2], side))
                if t[3] is None:
                    if not same(vol_a, ("field", self.canon_key(st, k), "vol", "")) and not same(vol_a, ("field", k, "vol", "")):
                        self.viol("accounting", "remove-vol|" + q.fn.short(), where, "remove_order volume argument is %s, not the volume the side still accounts for (%s.vol)" % (render(vol_a), render(k)))
                else:
                    if vol_a != t[3]:
                        self.viol("accounting", "remove-vol-pend|" + q.fn.short(), where, "remove_order volume argument is %s but the side still accounts for the pre-fill volume (%s + remaining)" % (render(vol_a), render(t[3])))
                    elif t[0] != "Filled":
                        self.viol("accounting", "remove-partial|" + q.fn.short(), where, "remove_order passes only the filled volume for an order that may still have remaining volume (status %s)" % t[0])
                nv.add((t[0], False, t[2], None, t[4], t[5]) + t[6:])
            self.put(st, k, frozenset(nv))
            return
        if is_side_op and name == "remove_vol":
            price_a, vol_a = c.args[1], c.args[2]
            k = None
            if price_a[0] == "field" and price_a[2] == "1" and price_a[1][0] == "field" and price_a[1][2] == "key":
                k = ("field", price_a[1][1], "order", "")
            if k is None:
                self.viol("accounting", "remove-vol-price|" + q.fn.short(), where, "remove_vol price argument is not an order's stored price key: " + render(price_a))
                return
            cur = self.get(q, st, k, mode)
            self.ops.append((q.fn.short(), "remove_vol", side, where, cur))
            nv = set()
            for t in cur:
                if not t[1]:
                    self.viol("accounting", "remove-vol-notin|" + q.fn.short(), where, "remove_vol for order %s which may not be filed (status %s)" % (render(k), t[0]))
                if side and t[2] != side:
                    self.viol("accounting", "remove-vol-side|%s|%s" % (q.fn.short(), side), where, "remove_vol on the %s side for order %s of side %s" % (side, render(k), t[2]))
                if t[3] is not None and t[3][0] == "overwrite":
                    _tag, oldv, newv, wsite = t[3]
                    d = vol_a
                    if d[0] == "field" and d[1][0] == "bin":
                        d = d[1]
                    okd = d[0] == "bin" and d[1] in ("Sub", "SubWithOverflow") and same(d[2], oldv) and d[3] == newv and self.read_before(q, c, oldv, wsite)
                    if not okd:
                        self.viol("accounting", "remove-vol-delta|" + q.fn.short(), where, "remove_vol removes %s but the volume of %s was overwritten from its old value to %s: the side must lose (old volume - %s), with the old volume read before the overwrite" % (
                            render(vol_a), render(k), render(newv), render(newv)))
                elif t[3] is None or vol_a != t[3]:
                    self.viol("accounting", "remove-vol-delta|" + q.fn.short(), where, "remove_vol removes %s but the unmirrored decrease of %s is %s" % (render(vol_a), render(k), render(t[3]) if t[3] else "none"))
                nv.add((t[0], t[1], t[2], None, t[4], t[5]) + t[6:])
            self.put(st, k, frozenset(nv))
            return
        # re-acquisition of entities identified through this call's result
        self.release_entities(q, c, st)
        tgt = c.target
        if tgt is None:
            return
        # local call: pass entities rooted at pointer arguments
        cq = m.q(tgt)
        mapping = {}
        entry = {}
        formals = tgt.params
        for j, a in enumerate(c.args):
            pj = ("param", j + 1, formals[j] if j < len(formals) else "_%d" % (j + 1))
            mapping[pj] = a
        touched = []
        for k in list(st.keys()):
            for pj, a in mapping.items():
                if a[0] in ("const", "fn"):
                    continue
                if has_prefix(k, a):
                    ck = replace_prefix(k, a, pj)
                    entry[ck] = st[k]
                    touched.append((k, ck))
                    break
        # entity parameters the caller has not touched yet: initialise lazily in the caller
        for j, a in enumerate(c.args):
            ty = tgt.body.local_ty(j + 1)
            if ty.startswith("&mut ") and (ty.endswith("OrderEntry") or ty.endswith("types::Order")):
                pj = ("param", j + 1, formals[j] if j < len(formals) else "_%d" % (j + 1))
                ck = ("field", pj, "order", "") if ty.endswith("OrderEntry") else pj
                if not any(same(ck, e) for e in entry):
                    k = ("field", a, "order", "") if ty.endswith("OrderEntry") else a
                    cur = self.get(q, st, k, mode)
                    k = self.canon_key(st, k)
                    entry[ck] = cur
                    touched.append((k, ck))
        if not entry and not self.touches_entities(tgt):
            return
        self.calls.append((q.fn, tgt, {render(ck): frozenset(t[2] for t in v) for ck, v in entry.items()}, where))
        consts = tuple(sorted((j + 1, variant_name(a)) for j, a in enumerate(c.args) if a[0] == "agg" and variant_name(a) in STATUSES))
        # a parameter that receives `<entity>.side` (or the side component of its key) IS that entity's side in the callee
        aliases = {}
        for j, a in enumerate(c.args):
            ent = None
            if a[0] == "field" and a[2] == "side":
                ent = a[1]
            elif a[0] == "field" and a[2] == "0" and a[1][0] == "field" and a[1][2] == "key":
                ent = ("field", a[1][1], "order", "")
            if ent is None:
                continue
            for (k, ck) in touched:
                if same(k, ent):
                    aliases[j + 1] = ck
        res = self.analyse(tgt, entry, mode, consts, aliases)
        ret_expr = res["ret"]
        call_res = c.result
        for (k, ck) in touched:
            out = None
            for e, v in res["exit"].items():
                if same(e, ck):
                    out = v
            if out is None:
                continue  # callee never returns normally with this entity / untouched
            nv = set()
            for t in out:
                pend = t[3]
                if pend is not None:
                    if pend == ret_expr:
                        pend = call_res
                    else:
                        pend = subst(pend, mapping)
                nv.add((t[0], t[1], t[2], pend, t[4], t[5]) + t[6:])
            st[k] = frozenset(nv)

    def read_before(self, q, c, oldv, wsite):
        """every load of the old volume inside the (unstripped) volume argument of call c happens strictly before the write at wsite"""
        raw = c.raw[2] if len(c.raw) > 2 else None
        if raw is None:
            return False
        pts = [x[2] for x in walk(raw) if x[0] == "load" and same(strip(x[1]), oldv)]
        if not pts:
            return False
        wb, wi = wsite
        for (b, i) in pts:
            if b == wb:
                if i > wi:
                    return False
            elif not q.body.dominates(b, wb):
                return False
        return True

    def touches_entities(self, fn):
        """does fn (transitively) write order fields / call side ops (cheap syntactic test)"""
        key = ("touch", fn.path)
        if key in self.memo:
            return self.memo[key]
        self.memo[key] = False
        q = self.m.q(fn)
        r = False
        for w in q.writes():
            if w.owner.split("::")[-1] in ("Order", "OrderEntry"):
                r = True
        for c in q.calls():
            if c.name in ("insert_order", "remove_order", "remove_vol") and "SideFunctionality" in (c.resolved + (c.term.j.get("trait") or "")):
                r = True
            elif c.target is not None and self.touches_entities(c.target):
                r = True
        self.memo[key] = r
        return r


def _elem(e):
    """(container, index) when e denotes an element of an indexable container however it is spelled:
    c[i] / *c.index(i) / *c.index_mut(i) / c.get(i).unwrap() / c.get_mut(i) matched as Some"""
    if e[0] == "index" and len(e) >= 3:
        return (e[1], e[2])
    if e[0] == "call" and e[4] in ("index", "index_mut") and len(e[2]) == 2:
        return (e[2][0], e[2][1])
    if e[0] == "field" and e[2] == "0" and e[1][0] == "downcast" and e[1][2] == "Some":
        c = e[1][1]
        if c[0] == "call" and c[4] in ("get", "get_mut") and len(c[2]) == 2:
            return (c[2][0], c[2][1])
    if e[0] == "call" and e[4] in ("unwrap", "expect", "unwrap_unchecked") and e[2] and e[2][0][0] == "call" and e[2][0][4] in ("get", "get_mut") and len(e[2][0][2]) == 2:
        return (e[2][0][2][0], e[2][0][2][1])
    return None


def same(a, b):
    """structural equality ignoring the owner annotation of field nodes and the spelling of container element access"""
    if a == b:
        return True
    if not isinstance(a, tuple) or not isinstance(b, tuple):
        return a == b
    if a and b and isinstance(a[0], str) and isinstance(b[0], str) and a[0] in ("index", "call", "field") and b[0] in ("index", "call", "field"):
        ea, eb = _elem(a), _elem(b)
        if ea is not None and eb is not None:
            return same(ea[0], eb[0]) and same(ea[1], eb[1])
    if a and b and a[0] == "field" and b[0] == "field":
        return a[2] == b[2] and same(a[1], b[1])
    if len(a) != len(b):
        return False
    return all(same(x, y) if isinstance(x, tuple) else x == y for x, y in zip(a, b))
