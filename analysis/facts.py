"""Loading of the fact files written by driver/ (bourse-facts) and basic MIR helpers.

Everything here is a *view* of the type-checked program of /repo; nothing is executed.
"""
import glob
import json
import os
import re


class FactsError(Exception):
    """The facts are missing / incomplete: checks must fail closed (exit 2)."""


# ----------------------------------------------------------------------------- places

class Place:
    __slots__ = ("local", "proj", "ty", "_key")

    def __init__(self, j):
        self.local = j["l"]
        self.proj = j["p"]
        self.ty = j.get("ty", "")
        self._key = None

    def key(self):
        """hashable structural key (local + projection path)"""
        if self._key is None:
            parts = [self.local]
            for p in self.proj:
                k = p["k"]
                if k == "field":
                    parts.append(("f", p["i"]))
                elif k == "deref":
                    parts.append("*")
                elif k == "index":
                    parts.append(("ix", p["l"]))
                elif k == "cindex":
                    parts.append(("cix", p["i"], p.get("from_end", False)))
                elif k == "downcast":
                    parts.append(("dc", p["vi"]))
                else:
                    parts.append(("o", p.get("s", "")))
            self._key = tuple(parts)
        return self._key

    def is_local(self):
        return not self.proj

    def field_names(self):
        """names of the field projections, derefs/downcasts/indexes dropped"""
        return [p["n"] for p in self.proj if p["k"] == "field"]

    def path(self):
        """projection rendered as a list of tokens: '*', field names, '[_n]', '[c]', 'as Variant'"""
        out = []
        for p in self.proj:
            k = p["k"]
            if k == "field":
                out.append(p["n"])
            elif k == "deref":
                out.append("*")
            elif k == "index":
                out.append("[_%d]" % p["l"])
            elif k == "cindex":
                out.append("[%d]" % p["i"])
            elif k == "downcast":
                out.append("as " + p["n"])
            else:
                out.append("?")
        return out

    def __repr__(self):
        s = "_%d" % self.local
        for p in self.proj:
            k = p["k"]
            if k == "field":
                s += "." + p["n"]
            elif k == "deref":
                s = "(*%s)" % s
            elif k == "index":
                s += "[_%d]" % p["l"]
            elif k == "cindex":
                s += "[%d]" % p["i"]
            elif k == "downcast":
                s = "(%s as %s)" % (s, p["n"])
            else:
                s += ".?"
        return s


class Operand:
    __slots__ = ("k", "place", "j")

    def __init__(self, j):
        self.k = j["k"]  # copy | move | const | other
        self.j = j
        self.place = Place(j["pl"]) if self.k in ("copy", "move") else None

    def is_const(self):
        return self.k == "const"

    def const_int(self):
        """value of an integer/bool/char constant (unsigned interpretation) or None"""
        if self.k == "const" and "bits" in self.j:
            return int(self.j["bits"])
        return None

    def const_ty(self):
        return self.j.get("ty") if self.k == "const" else None

    def const_str(self):
        return self.j.get("s") if self.k == "const" else None

    def fn(self):
        return self.j.get("fn") if self.k == "const" else None

    def promoted(self):
        return self.j.get("promoted") if self.k == "const" else None

    def __repr__(self):
        if self.k in ("copy", "move"):
            return "%s %r" % (self.k, self.place)
        if self.k == "const":
            if "fn" in self.j:
                return "fn " + self.j["fn"]
            if "promoted" in self.j:
                return "promoted[%d]" % self.j["promoted"]
            return "const " + str(self.j.get("s"))
        return "?" + str(self.j.get("s"))


class Rvalue:
    __slots__ = ("k", "j", "ops", "place")

    def __init__(self, j):
        self.k = j["k"]
        self.j = j
        self.place = None
        self.ops = []
        if self.k == "use" or self.k == "cast" or self.k == "repeat":
            self.ops = [Operand(j["o"])]
        elif self.k in ("ref", "rawptr", "discr"):
            self.place = Place(j["pl"])
        elif self.k == "bin":
            self.ops = [Operand(j["a"]), Operand(j["b"])]
        elif self.k == "un":
            self.ops = [Operand(j["a"])]
        elif self.k == "agg":
            self.ops = [Operand(o) for o in j["ops"]]

    def __repr__(self):
        k = self.k
        if k == "use":
            return repr(self.ops[0])
        if k == "ref":
            return "&%s%r" % ("mut " if self.j["mut"] else "", self.place)
        if k == "rawptr":
            return "&raw %r" % self.place
        if k == "bin":
            return "%s(%r, %r)" % (self.j["op"], self.ops[0], self.ops[1])
        if k == "un":
            return "%s(%r)" % (self.j["op"], self.ops[0])
        if k == "cast":
            return "%r as %s (%s)" % (self.ops[0], self.j["ty"], self.j["ck"])
        if k == "discr":
            return "discriminant(%r)" % self.place
        if k == "repeat":
            return "[%r; %s]" % (self.ops[0], self.j["n"])
        if k == "agg":
            ak = self.j["ak"]
            if ak == "adt":
                fs = self.j["fields"]
                inner = ", ".join("%s: %r" % (fs[i] if i < len(fs) else i, o) for i, o in enumerate(self.ops))
                return "%s::%s { %s }" % (self.j["adt"], self.j["variant"], inner)
            if ak == "closure":
                return "closure %s [%s]" % (self.j["closure"], ", ".join(map(repr, self.ops)))
            return "%s(%s)" % (ak, ", ".join(map(repr, self.ops)))
        return "other:" + str(self.j.get("s"))


class Stmt:
    __slots__ = ("k", "place", "rv", "sp", "j")

    def __init__(self, j):
        self.k = j["k"]  # assign | setdiscr
        self.j = j
        self.place = Place(j["pl"])
        self.rv = Rvalue(j["rv"]) if self.k == "assign" else None
        self.sp = j["sp"]

    def __repr__(self):
        if self.k == "assign":
            return "%r = %r" % (self.place, self.rv)
        return "discriminant(%r) = %d" % (self.place, self.j["vi"])


class Term:
    __slots__ = ("k", "j", "sp", "args", "dest", "func", "discr", "cond", "place")

    def __init__(self, j):
        self.k = j["k"]
        self.j = j
        self.sp = j.get("sp")
        self.args = []
        self.dest = None
        self.func = None
        self.discr = None
        self.cond = None
        self.place = None
        if self.k == "call":
            self.args = [Operand(a) for a in j["args"]]
            self.dest = Place(j["dest"])
            self.func = Operand(j["f"])
        elif self.k == "switch":
            self.discr = Operand(j["d"])
        elif self.k == "assert":
            self.cond = Operand(j["c"])
        elif self.k == "drop":
            self.place = Place(j["pl"])

    # --- call helpers
    @property
    def callee(self):
        return self.j.get("callee")

    @property
    def resolved(self):
        """resolved target if Instance::try_resolve succeeded, else the declared callee"""
        return self.j.get("resolved") or self.j.get("callee")

    @property
    def callee_name(self):
        return self.j.get("callee_name")

    @property
    def formals(self):
        return self.j.get("formals", [])

    def succs(self, unwind=False):
        k = self.k
        j = self.j
        out = []
        if k == "goto":
            out = [j["t"]]
        elif k == "switch":
            out = [t[1] for t in j["ts"]] + [j["o"]]
        elif k in ("drop", "assert", "call"):
            if j.get("t") is not None:
                out = [j["t"]]
            if unwind and j.get("u") is not None:
                out.append(j["u"])
        elif k == "other":
            out = list(j.get("succ", []))
        return out

    def __repr__(self):
        k = self.k
        if k == "call":
            name = self.resolved or repr(self.func)
            return "%r = %s(%s) -> bb%s" % (self.dest, name, ", ".join(map(repr, self.args)), self.j.get("t"))
        if k == "switch":
            return "switch(%r) [%s, otherwise: bb%d]" % (
                self.discr, ", ".join("%s: bb%d" % (v, b) for v, b in self.j["ts"]), self.j["o"])
        if k == "goto":
            return "goto bb%d" % self.j["t"]
        if k == "assert":
            return "assert(%s%r, %s) -> bb%d" % ("" if self.j["e"] else "!", self.cond, self.j["m"], self.j["t"])
        if k == "drop":
            return "drop(%r) -> bb%d" % (self.place, self.j["t"])
        return k


class Block:
    __slots__ = ("i", "stmts", "term", "cleanup")

    def __init__(self, j):
        self.i = j["i"]
        self.cleanup = j["cleanup"]
        self.stmts = [Stmt(s) for s in j["stmts"]]
        self.term = Term(j["term"]) if j["term"] else None


class Body:
    """One MIR body (function, closure or promoted constant)."""

    def __init__(self, j, fn=None):
        self.j = j
        self.fn = fn
        self.arg_count = j["arg_count"]
        self.locals = j["locals"]
        self.blocks = [Block(b) for b in j["blocks"]]
        self.debug = [(d["name"], Place(d["pl"]), d["arg"]) for d in j["debug"]]
        self._preds = None
        self._dom = None
        self._names = None

    def local_ty(self, l):
        return self.locals[l]["ty"]

    def local_names(self):
        """local index -> source-level name (for locals that are plain user variables)"""
        if self._names is None:
            self._names = {}
            for name, pl, _arg in self.debug:
                if pl.is_local():
                    self._names.setdefault(pl.local, name)
        return self._names

    def name_of(self, l):
        return self.local_names().get(l)

    def local_named(self, name):
        for n, pl, _a in self.debug:
            if n == name and pl.is_local():
                return pl.local
        return None

    # ---------------------------------------------------------------- CFG
    def succs(self, b, unwind=False):
        t = self.blocks[b].term
        return t.succs(unwind) if t else []

    def preds(self):
        if self._preds is None:
            p = {b.i: [] for b in self.blocks}
            for b in self.blocks:
                for s in self.succs(b.i):
                    p[s].append(b.i)
            self._preds = p
        return self._preds

    def reachable(self, start=0, avoid=()):
        seen = set()
        st = [start]
        while st:
            b = st.pop()
            if b in seen or b in avoid:
                continue
            seen.add(b)
            st.extend(self.succs(b))
        return seen

    def dominators(self):
        """dom[b] = set of blocks dominating b (normal edges only, from bb0)"""
        if self._dom is None:
            reach = self.reachable()
            order = sorted(reach)
            dom = {b: set(order) for b in order}
            dom[0] = {0}
            preds = self.preds()
            changed = True
            while changed:
                changed = False
                for b in order:
                    if b == 0:
                        continue
                    ps = [p for p in preds[b] if p in reach]
                    if not ps:
                        continue
                    new = set.intersection(*[dom[p] for p in ps]) | {b}
                    if new != dom[b]:
                        dom[b] = new
                        changed = True
            self._dom = dom
        return self._dom

    def dominates(self, a, b):
        d = self.dominators()
        return b in d and a in d[b]

    def rpo(self):
        """block -> position in a reverse post-order of the normal-edge CFG (a program order that
        respects dominance and ignores back edges; independent of block numbering)"""
        if getattr(self, "_rpo", None) is None:
            seen = set()
            post = []
            stack = [(0, iter(self.succs(0)))]
            seen.add(0)
            while stack:
                b, it = stack[-1]
                adv = False
                for s in it:
                    if s not in seen:
                        seen.add(s)
                        stack.append((s, iter(self.succs(s))))
                        adv = True
                        break
                if not adv:
                    post.append(b)
                    stack.pop()
            self._rpo = {b: i for i, b in enumerate(reversed(post))}
        return self._rpo

    def calls(self):
        """iterate (block index, Term) for every call terminator in non-cleanup blocks"""
        for b in self.blocks:
            if b.cleanup:
                continue
            if b.term and b.term.k == "call":
                yield b.i, b.term

    def return_blocks(self):
        return [b.i for b in self.blocks if b.term and b.term.k == "return" and not b.cleanup]

    def loop_heads(self):
        """targets of back edges (edge a->b with b dominating a)"""
        heads = set()
        for b in self.blocks:
            if b.cleanup:
                continue
            for s in self.succs(b.i):
                if self.dominates(s, b.i):
                    heads.add(s)
        return heads

    def loop_body(self, head):
        """natural loop of `head`: blocks that can reach a back edge to head without leaving"""
        preds = self.preds()
        body = {head}
        st = [b.i for b in self.blocks if not b.cleanup and head in self.succs(b.i) and self.dominates(head, b.i)]
        while st:
            b = st.pop()
            if b in body:
                continue
            body.add(b)
            st.extend(preds[b])
        return body

    def dump(self):
        out = []
        names = self.local_names()
        for i, l in enumerate(self.locals):
            out.append("  let _%d: %s%s" % (i, l["ty"], ("  // " + names[i]) if i in names else ""))
        for name, pl, _a in self.debug:
            if not pl.is_local():
                out.append("  debug %s => %r" % (name, pl))
        for b in self.blocks:
            out.append("  bb%d%s:" % (b.i, " (cleanup)" if b.cleanup else ""))
            for s in b.stmts:
                out.append("    %r   // L%s %s" % (s, s.sp["line"], s.sp["exp"]))
            if b.term:
                out.append("    %r   // L%s %s" % (b.term, b.term.sp["line"] if b.term.sp else "?", b.term.sp["exp"] if b.term.sp else ""))
        return "\n".join(out)


class Fn:
    def __init__(self, j, crate):
        self.j = j
        self.crate = crate
        self.path = j["path"]
        self.dp = j.get("dp", j["path"])
        self.kind = j["kind"]
        self.name = j["name"]
        self.root = j["root"]
        self.span = j["span"]
        self.pub = j.get("pub", False)
        self.sig = j.get("sig", "")
        self.params = j.get("params", [])
        self.doc = j.get("doc", "")
        self.impl_self = j.get("impl_self")
        self.impl_adt = j.get("impl_adt")
        self.impl_trait = j.get("impl_trait")
        self.body = Body(j, self)
        self.promoted = [Body(p, self) for p in j.get("promoted", [])]

    @property
    def file(self):
        return self.span["file"]

    @property
    def line(self):
        return self.span["line"]

    def loc(self, sp=None):
        sp = sp or self.span
        return "%s:%s" % (sp["file"], sp["line"])

    def short(self):
        """short display name: Type::method / function"""
        p = re.sub(r"::<[^<>]*>", "", self.path)
        return p

    def __repr__(self):
        return "<Fn %s>" % self.path


class Crate:
    def __init__(self, j, fname):
        self.j = j
        self.fname = fname
        self.name = j["crate"]
        self.is_test = j["is_test"]
        self.crate_types = j["crate_types"]
        self.src = j["src"]
        self.fns = [Fn(f, self) for f in j["fns"]]
        self.adts = {a["path"]: a for a in j["adts"]}
        self.impls = j["impls"]


LIB_CRATES = ("bourse_book", "bourse_de", "bourse_macros", "bourse")


class Program:
    """All fact files of one extraction."""

    def __init__(self, facts_dir):
        self.dir = facts_dir
        self.crates = []
        for fn in sorted(glob.glob(os.path.join(facts_dir, "*.json"))):
            if os.path.basename(fn) == "meta.json":
                continue
            with open(fn) as fh:
                self.crates.append(Crate(json.load(fh), fn))
        if not self.crates:
            raise FactsError("no fact files in %s" % facts_dir)
        self.libs = {}
        for c in self.crates:
            if not c.is_test and c.name in LIB_CRATES:
                self.libs[c.name] = c  # duplicates (host/target) are identical
        missing = [n for n in LIB_CRATES if n not in self.libs]
        if missing:
            raise FactsError("fact files missing for crates: %s" % ", ".join(missing))
        self.tests = {c.name: c for c in self.crates if c.is_test}
        if "test_macros" not in self.tests:
            raise FactsError("fact file missing for integration test crate test_macros")
        self.fns = {}
        for c in self.libs.values():
            for f in c.fns:
                self.fns[f.path] = f
        self.by_dp = {}
        for c in self.libs.values():
            for f in c.fns:
                self.by_dp[f.dp] = f
        self.adts = {}
        for c in self.libs.values():
            self.adts.update(c.adts)
        self._closures_of = None
        self._short = None

    def fn_by_short(self, short):
        """function whose path equals `short` once generic argument lists are removed"""
        if self._short is None:
            self._short = {}
            for f in self.fns.values():
                self._short.setdefault(strip_generics(f.path), []).append(f)
        c = self._short.get(strip_generics(short), [])
        return c[0] if len(c) == 1 else None

    def target(self, term):
        """the workspace function a call terminator resolves to (across crates), or None
        (std / external crate / unresolved generic trait method)"""
        if term.j.get("resolved_dp") and term.j.get("resolved_kind") == "item":
            f = self.by_dp.get(term.j["resolved_dp"])
            if f is not None:
                return f
        if term.j.get("callee_dp") and not term.j.get("trait"):
            return self.by_dp.get(term.j["callee_dp"])
        return None

    def units(self):
        """functions that are analysed on their own (everything except private higher-order helpers, which are spliced
        into their callers by the unit views)"""
        from .inline import higher_order
        return [f for f in self.fns.values() if not higher_order(f)]

    def closure_fn(self, rv):
        """the body of the closure built by an `agg closure` rvalue"""
        return self.by_dp.get(rv.j.get("closure_dp")) or self.fns.get(rv.j.get("closure"))

    # ------------------------------------------------------------------ lookup
    def fn(self, path):
        f = self.fns.get(path)
        if f is None:
            raise FactsError("function not found in facts: %s" % path)
        return f

    def find(self, crate=None, adt=None, name=None, trait=None, kind=None, pub=None):
        out = []
        for f in self.fns.values():
            if crate and f.crate.name != crate:
                continue
            if adt is not None and (f.impl_adt or "") .split("::")[-1] != adt and f.impl_adt != adt:
                continue
            if name is not None and f.name != name:
                continue
            if trait is not None and (f.impl_trait or "").split("::")[-1] != trait and f.impl_trait != trait:
                continue
            if kind is not None and f.kind != kind:
                continue
            if pub is not None and f.pub != pub:
                continue
            out.append(f)
        return sorted(out, key=lambda f: (f.file, f.line))

    def method(self, adt, name, trait=None, crate=None):
        """the unique method `name` of ADT `adt` (inherent unless trait given)"""
        cands = [f for f in self.find(crate=crate, adt=adt, name=name)
                 if (trait is None and f.impl_trait is None) or
                    (trait is not None and (f.impl_trait or "").split("::")[-1] == trait)]
        if len(cands) != 1:
            raise FactsError("expected exactly one method %s::%s (trait=%s), found %d" % (adt, name, trait, len(cands)))
        return cands[0]

    def free_fn(self, crate, name):
        cands = [f for f in self.fns.values() if f.crate.name == crate and f.kind == "Fn" and f.name == name]
        if len(cands) != 1:
            raise FactsError("expected exactly one free fn %s::%s, found %d" % (crate, name, len(cands)))
        return cands[0]

    def closures_of(self, f):
        if self._closures_of is None:
            m = {}
            for g in self.fns.values():
                if g.kind == "Closure":
                    m.setdefault(g.root, []).append(g)
            self._closures_of = m
        return self._closures_of.get(f.path, [])

    def adt(self, path_or_name, crate=None):
        if path_or_name in self.adts:
            return self.adts[path_or_name]
        c = [a for p, a in self.adts.items() if p.split("::")[-1] == path_or_name
             and (crate is None or p.split("::")[0] == crate)]
        if len(c) != 1:
            raise FactsError("expected exactly one ADT named %s%s, found %d" % (
                path_or_name, " in " + crate if crate else "", len(c)))
        return c[0]

    def adt_fields(self, name, crate=None):
        a = self.adt(name, crate)
        return a["variants"][0]["fields"]


def strip_generics(path):
    """remove ::<…> generic argument lists (nested) from a def path"""
    out = []
    depth = 0
    i = 0
    while i < len(path):
        if path.startswith("::<", i) and depth == 0 and not path.startswith("::<impl", i):
            depth = 1
            i += 3
            while i < len(path) and depth:
                if path[i] == "<":
                    depth += 1
                elif path[i] == ">":
                    depth -= 1
                i += 1
            continue
        out.append(path[i])
        i += 1
    return "".join(out)
