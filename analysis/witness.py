"""A11 – type-level witnesses: `compile_fail,E0xxx` doc tests with compiling twins, in a
generated harness crate that path-depends on the repository under analysis.

The deciding step is the compiler: a witness passes iff rustc rejects the snippet with
exactly the stated error code; its twin (same snippet minus the offending line) must
compile, so that a witness cannot pass because of an unrelated error."""
import os
import re
import shutil
import subprocess
import tempfile


def run_witnesses(ctx, cases):
    """cases: list of dict(name, code, error, twin, what). Records obligations on ctx."""
    tmp = tempfile.mkdtemp(prefix="bourse-typelevel-")
    try:
        os.makedirs(os.path.join(tmp, "src"))
        shutil.copy(os.path.join(ctx.repo, "Cargo.lock"), os.path.join(tmp, "Cargo.lock"))
        with open(os.path.join(tmp, "Cargo.toml"), "w") as fh:
            fh.write('[package]\nname = "bourse-typelevel"\nversion = "0.0.0"\nedition = "2021"\n\n[lib]\npath = "src/lib.rs"\n\n[dependencies]\n'
                     'bourse-book = { path = "%s/crates/order_book" }\nbourse-de = { path = "%s/crates/step_sim" }\nrand = "0.8.5"\nrand_xoshiro = "0.6.0"\n\n[workspace]\n' % (ctx.repo, ctx.repo))
        lines = ["//! generated: type-level witnesses"]
        for c in cases:
            lines.append("/// ```compile_fail,%s" % c["error"])
            for l in c["code"].strip().splitlines():
                lines.append("/// " + l)
            lines.append("/// ```")
            lines.append("pub fn w_%s() {}" % c["name"])
            lines.append("/// ```")
            for l in c["twin"].strip().splitlines():
                lines.append("/// " + l)
            lines.append("/// ```")
            lines.append("pub fn t_%s() {}" % c["name"])
        with open(os.path.join(tmp, "src", "lib.rs"), "w") as fh:
            fh.write("\n".join(lines) + "\n")
        env = dict(os.environ)
        env["CARGO_TARGET_DIR"] = os.path.join(tmp, "target")
        env["CARGO_NET_OFFLINE"] = "true"
        r = subprocess.run(["cargo", "+nightly", "test", "--doc", "--offline"], cwd=tmp, env=env, capture_output=True, text=True)
        out = r.stdout + r.stderr
        results = {}
        for mm in re.finditer(r"test src/lib\.rs - (\w+) \(line \d+\)( - compile fail)? \.\.\. (\w+)", out):
            results[mm.group(1)] = mm.group(3)
        if not results:
            ctx.lost("type-level", "witness harness did not run: " + out[-600:])
            return
        for c in cases:
            w = results.get("w_" + c["name"])
            t = results.get("t_" + c["name"])
            ctx.check(w == "ok", "type-level", "witness|" + c["name"], "witness crate (doc test w_%s)" % c["name"],
                      "%s: rejected by rustc with %s" % (c["what"], c["error"]),
                      "%s: the offending snippet is NOT rejected with %s any more (result: %s)" % (c["what"], c["error"], w))
            ctx.check(t == "ok", "type-level", "twin|" + c["name"], "witness crate (doc test t_%s)" % c["name"],
                      "twin of %s compiles (the witness fails only because of the offending line)" % c["name"],
                      "twin of %s does not compile: the witness is vacuous (result: %s)" % (c["name"], t))
        ctx.extra["witness_harness"] = "cargo +nightly test --doc --offline (%d witnesses + %d twins)" % (len(cases), len(cases))
    finally:
        shutil.rmtree(tmp, ignore_errors=True)


PRELUDE_BOOK = """use bourse_book::{types::Side, OrderBook};
let mut book: OrderBook = OrderBook::new(0, 1, true);
let id = book.create_and_place_order(Side::Bid, 10, 0, Some(50)).unwrap();"""

PRELUDE_ENV = """use bourse_de::{types::Side, Env};
let mut env: Env = Env::new(0, 1, 1000, true);
let id = env.place_order(Side::Bid, 10, 0, Some(50)).unwrap();"""

PRELUDE_MENV = """use bourse_de::{types::Side, MarketEnv};
let mut env: MarketEnv<2> = MarketEnv::new(0, [1, 1], 1000, true);
let id = env.place_order(0, Side::Bid, 10, 0, Some(50)).unwrap();"""

PRELUDE_MARKET = """use bourse_book::{types::Side, Market};
let mut market: Market<2> = Market::new(0, [1, 1], true);
let id = market.create_and_place_order(0, Side::Bid, 10, 0, Some(50)).unwrap();"""

CASES = {
    "C03": [
        dict(name="trades_clear", error="E0596", what="clearing the trade log through get_trades()",
             code=PRELUDE_BOOK + "\nbook.get_trades().clear();", twin=PRELUDE_BOOK + "\nlet _n = book.get_trades().len();"),
        dict(name="trades_private", error="E0616", what="direct access to the trade log field",
             code=PRELUDE_BOOK + "\nlet _t = &book.trades;", twin=PRELUDE_BOOK + "\nlet _t = book.get_trades();"),
    ],
    "C04": [
        dict(name="order_vol_write", error="E0594", what="writing an order's volume through book.order(id)",
             code=PRELUDE_BOOK + "\nbook.order(id).vol = 7;", twin=PRELUDE_BOOK + "\nlet _v = book.order(id).vol;"),
        dict(name="orders_private", error="E0616", what="direct access to the order table",
             code=PRELUDE_BOOK + "\nlet _o = &book.orders;", twin=PRELUDE_BOOK + "\nlet _o = book.get_orders();"),
    ],
    "C10": [
        dict(name="env_book_mut", error="E0596", what="mutating the live book through Env::get_orderbook()",
             code=PRELUDE_ENV + "\nenv.get_orderbook().set_time(5);", twin=PRELUDE_ENV + "\nlet _t = env.get_orderbook().get_time();"),
        dict(name="menv_market_mut", error="E0596", what="mutating the live market through MarketEnv::get_market()",
             code=PRELUDE_MENV + "\nenv.get_market().place_order(id);", twin=PRELUDE_MENV + "\nlet _o = env.get_market().order(id);"),
        dict(name="env_queue_private", error="E0616", what="direct access to the instruction queue",
             code=PRELUDE_ENV + "\nlet _q = &env.transactions;", twin=PRELUDE_ENV + "\nlet _q = env.get_orders();"),
    ],
    "C14": [
        dict(name="books_private", error="E0616", what="direct access to the market's book array",
             code=PRELUDE_MARKET + "\nlet _b = &market.order_books;", twin=PRELUDE_MARKET + "\nlet _b = market.get_order_book(0);"),
        dict(name="book_ref_shared", error="E0596", what="mutating a book through get_order_book()",
             code=PRELUDE_MARKET + "\nmarket.get_order_book(0).set_time(3);", twin=PRELUDE_MARKET + "\nlet _t = market.get_order_book(0).get_time();"),
    ],
}
