"""Expression-level closure application and Option/iterator combinator normalisation.

Origin expressions of code written with combinators (`opt.map_or(d, |x| ..)`,
`array::from_fn(|i| f(&self.books[i]))`, helper taking a closure) are rewritten into the
same shape the explicit `match` / loop form produces, so that the rules see one form:

  map_or(o, d, C)        -> phi(d | C(o.Some.0))
  map_or_else(o, D, C)   -> phi(D() | C(o.Some.0))
  unwrap_or(o, d)        -> phi(d | o.Some.0)
  Result::map(r, C)      -> phi(Ok(C(r.Ok.0)) | r)
  unwrap_or_default(o)   -> phi(<default> | o.Some.0)
  copied / cloned (o)    -> o
  Fn::call(C, (a, b))    -> C(a, b)           (C a closure aggregate)

`C(args)` = the stripped return origin of closure C's body with its parameters replaced
by `args` and its captured variables by the operands captured at the creation site.
"""
from .origin import strip, walk


def subst_expr(e, mapping_fn):
    """bottom-up rewrite: mapping_fn(e) -> replacement or None"""
    if not isinstance(e, tuple) or not e or not isinstance(e[0], str):
        return e
    r = mapping_fn(e)
    if r is not None:
        return r
    out = []
    for x in e:
        if isinstance(x, tuple):
            if x and isinstance(x[0], str):
                out.append(subst_expr(x, mapping_fn))
            else:
                out.append(tuple(subst_expr(y, mapping_fn) if isinstance(y, tuple) else y for y in x))
        else:
            out.append(x)
    return tuple(out)


def closure_fn(w, clo):
    """Fn of a closure aggregate expression ("agg", "closure", path, ops, names)"""
    if clo[0] != "agg" or clo[1] != "closure":
        return None
    f = w.prog.fns.get(clo[2])
    if f is None:
        f = w.prog.fn_by_short(clo[2])
    return f


def apply_closure(w, clo, args, depth=0):
    """stripped return origin of closure `clo` applied to `args` (list of exprs), or None"""
    if depth > 6:
        return None
    f = closure_fn(w, clo)
    if f is None:
        return None
    q = w.q(f)
    r = q.ret()
    ops = clo[3]
    names = clo[4]
    nargs = f.body.arg_count - 1
    # closures called through Fn::call receive their arguments as ONE tuple that MIR spreads
    # into params 2..n; here `args` is already the spread list

    def m(e):
        if e[0] == "field" and e[1][0] == "param" and e[1][1] == 1:
            # captured variable (by value or by reference): the capture's name is the field name
            nm = e[2]
            for i, n in enumerate(names):
                if n == nm or n.lstrip("*") == nm.lstrip("*"):
                    return ops[i] if i < len(ops) else None
            return None
        if e[0] == "param" and e[1] >= 2:
            k = e[1] - 2
            if k < len(args):
                return args[k]
        return None
    out = subst_expr(r, m)
    return normalize(w, strip(out), depth + 1)


def some_payload(o):
    return ("field", ("downcast", o, "Some"), "0", "std::option::Option")


def normalize(w, e, depth=0):
    """rewrite Option combinators / closure calls (see module doc)"""
    if depth > 8:
        return e

    def m(x):
        if x[0] != "call":
            return None
        name = x[4]
        a = x[2]
        if name in ("copied", "cloned") and len(a) == 1:
            return normalize(w, a[0], depth + 1)
        if name == "unwrap_or" and len(a) == 2:
            o = normalize(w, a[0], depth + 1)
            return ("phi", (normalize(w, a[1], depth + 1), some_payload(o)))
        if name == "map_or" and len(a) == 3 and a[2][0] == "agg" and a[2][1] == "closure":
            o = normalize(w, a[0], depth + 1)
            body = apply_closure(w, a[2], [some_payload(o)], depth + 1)
            if body is not None:
                return ("phi", (normalize(w, a[1], depth + 1), body))
        if name == "map" and len(a) == 2 and a[1][0] == "agg" and a[1][1] == "closure" and "Option" in x[1]:
            o = normalize(w, a[0], depth + 1)
            body = apply_closure(w, a[1], [some_payload(o)], depth + 1)
            if body is not None:
                return ("call", x[1], (o, ("applied", body)), None, "map")
        if name == "map" and len(a) == 2 and a[1][0] == "agg" and a[1][1] == "closure" and "Result" in x[1]:
            # Result::map(r, C) = match r { Ok(v) => Ok(C(v)), Err(e) => Err(e) }
            o = normalize(w, a[0], depth + 1)
            okv = ("field", ("downcast", o, "Ok"), "0", "std::result::Result")
            body = apply_closure(w, a[1], [okv], depth + 1)
            if body is not None:
                return ("phi", (("agg", "adt", "std::result::Result::Ok", (body,), ("0",)), o))
        if name in ("call", "call_mut", "call_once") and len(a) == 2 and a[0][0] == "agg" and a[0][1] == "closure":
            args = list(a[1][3]) if a[1][0] == "agg" and a[1][1] == "tuple" else [a[1]]
            body = apply_closure(w, a[0], [normalize(w, y, depth + 1) for y in args], depth + 1)
            if body is not None:
                return body
        return None
    return subst_expr(e, m)


def from_fn_element(w, e, index_expr=("var", "i")):
    """for e = from_fn(closure) (after helper inlining) return the element expression at index `i`"""
    e = normalize(w, e)
    if e[0] == "call" and e[4] == "from_fn" and e[2] and e[2][0][0] == "agg" and e[2][0][1] == "closure":
        return apply_closure(w, e[2][0], [index_expr])
    # `arr.each_ref().map(|x| f(x))` / `arr.map(|x| f(x))` on an array: element i is f(arr[i]) (array::map keeps positions)
    if e[0] == "call" and e[4] == "map" and len(e[2]) == 2 and e[2][1][0] == "agg" and e[2][1][1] == "closure" and "array" in (e[1] or "") :
        src = e[2][0]
        while src[0] == "call" and src[4] in ("each_ref", "each_mut", "as_ref") and src[2]:
            src = src[2][0]
        return apply_closure(w, e[2][1], [("index", src, index_expr)])
    return None
